#!/bin/sh
# Offline setup: verify tools, pre-parse all TLA+ modules. Builds nothing else.
set -e
cd "$(dirname "$0")"
command -v tlc >/dev/null
command -v java >/dev/null
command -v apalache-mc >/dev/null
/venv/bin/python -c "import jax, probdiffeq" 
for f in spec/*.tla; do
  [ -e "$f" ] || continue
  (cd spec && tla-sany "$(basename "$f")" >/dev/null 2>&1) || { echo "SANY failed: $f"; exit 1; }
done
echo "setup ok"
