"""C14 - state-space factorisations agree wherever theory says they must.

TLC: KalmanExact.tla - one/two solver steps over exact rationals.  On every enumerated instance TLC checks (invariant
CheckAndPrint -> Laws): the dense recursion is the embedding of the per-dimension ((q+1) x (q+1)) recursion whenever the
linearised observation matrix is block diagonal (ts0, ts1_blockdiag, ts1_isotropic); for a shared row h (ts0,
ts1_isotropic) and equal base scales the covariance is P_1d (x) I_d; the per-dimension (block-diagonal) MLE scales are
the split of the scalar one (sum_a s_a^2 = d s^2, same means, same uncalibrated covariances); first-order linearisation
of a componentwise-decoupled problem is block diagonal and equals d independent scalar solves; a Jacobian that is a
multiple of the identity makes the isotropic and the dense linearisation coincide.
bind: (1) every instance that fits in 32 bits is replayed into the real state-space model whose documented structure
it describes (means, covariances, output scales against the rationals, 1e-9 relative); (2) the statements of the
property are then checked directly on the three real implementations, on those instances and on float scenarios of
orders 1..4 on non-uniform fixed grids with 3-6 steps, filter and fixed-interval smoother, all calibration modes.
"""

from __future__ import annotations

import random

from harness.report import Report


def _relational_kind(inst):
    """which statement of the property applies to an exact instance (None: none)"""
    lam = inst["lam"]
    if inst["lin"] == "ts0":
        return "general" if all(x == 1 for x in lam) else None
    if inst["kind"] == "decoupled":
        return "decoupled"
    if inst["kind"] == "scalarjac" and all(x == 1 for x in lam):
        return "scalarjac"
    return None


def _scn_key(s):
    return (s["kind"], s["q"], s["d"], s["k"], s["cal"], s["strategy"], len(s["grid"]) if s.get("grid") else s["nsteps"], s["eps"] == 0, s["initc"])


def run(tier: str, seed: int) -> int:
    from harness import kalman

    rep = Report("C14", tier, seed)
    rep.rule = (
        "a case is one instance/scenario (polynomial ODE, order, dimension, grid, scales, damping, initial covariance, calibration, "
        "strategy) replayed into the real state-space models: either one model against the exact rationals of its own structure, or "
        "the three models against each other; distinct = distinct instance x comparison; non-trivial = d >= 2 (or two steps for the exact part)"
    )
    quick = tier == "quick"
    rng = random.Random(1400 + seed)

    # ---- (1) TLC laws on all enumerated instances; exact binding of each model to its own structure
    shapes = [(1, 2, 1), (2, 2, 1), (2, 2, 2), (2, 1, 1)]
    insts = kalman.plan_exact(rng, per_combo=1 if quick else 3, cals_per_combo=2 if quick else 5, shapes=shapes,
                              kinds=(None, None, "decoupled", "scalarjac"), p_lam_one=0.6, p_diffuse=0.35)
    res, dropped, st, gen, fail = kalman.eval_exact(insts, laws=True)
    rep.states += st
    rep.transitions += gen
    if fail is not None:
        bad_inst = fail[1][0] if fail[1] else None
        rep.violation(f"spec:KalmanExact:{fail[0].violated}", "KalmanExact law violated (specification-level disagreement of the factorisations)", {"tlc_tail": fail[0].stdout[-3000:], "first_instance_of_batch": str(bad_inst)[:2000]})
    pick = random.Random(1401 + seed)
    strat_of = {id(x): (("filter",) if pick.random() < 0.5 else ("fixedinterval",)) for x in insts}
    n_exact, _ = kalman.replay_exact(rep, insts, res, strategies_of=lambda x: strat_of[id(x)], tag="exact")

    # ---- (2) the property's statements on the three real implementations
    scns = []
    for j, x in enumerate(insts):
        kind = _relational_kind(x)
        if kind is None or j not in res or res[j].get("zscale") or x["d"] < 2:
            continue
        s = dict(x)
        s.update(kind=kind, strategy=strat_of[id(x)][0], grid=None, origin=f"exact#{j}")
        scns.append(s)
    n_from_exact = len(scns)
    n_float = 10 if quick else 80
    plan = []
    for kind in ("general", "decoupled", "scalarjac"):
        for n in range(n_float):
            q = 1 + (n % 4)
            k = 2 if (q >= 2 and n % 5 == 4) else 1
            plan.append(dict(kind=kind, q=q, d=2 if n % 3 else 3, k=k, nsteps=3 + (n % 4), cal=kalman.CALS[(n + len(kind)) % 5], strategy=("filter", "fixedinterval")[(n // 2) % 2]))
    for p in plan:
        s = kalman.gen_scenario(rng, **p)
        if s is not None:
            s["origin"] = "float"
            scns.append(s)
    jobs = [dict(kind="relational", scn=s) for s in scns]
    outs = kalman.run_jobs(jobs, lambda job: _scn_key(job["scn"]))
    ndeg = 0
    for n, (s, bad) in enumerate(zip(scns, outs)):
        if any(w == "@@degenerate" for w, _ in bad):
            ndeg += 1
            continue
        rep.traces += 1
        rep.add_case(("relational", n))
        if s["origin"] == "float":
            rep.sample({"family": "relational", **{k: v for k, v in kalman.describe(s).items() if k not in ("m0",)}}, cap=10)
        for what, detail in bad:
            rep.violation(
                f"impl:agree:{s['kind']}:{s['cal']}:{what}",
                f"{s['kind']} problem q={s['q']} d={s['d']} order={s['k']} {s['cal']} {s['strategy']} steps={len(s['grid']) - 1 if s.get('grid') else s['nsteps']}: {what} ({detail})",
                {"scenario": kalman.describe(s)},
            )
    rep.extra.update(
        exact_instances=len(insts), exact_dropped_32bit_or_singular=len(dropped), exact_replayed=n_exact,
        relational_from_exact=n_from_exact, relational_float=len(scns) - n_from_exact, relational_degenerate_skipped=ndeg,
        exact_two_step_fit=sum(1 for j in res if insts[j]["nsteps"] == 2), exact_two_step_total=sum(1 for x in insts if x["nsteps"] == 2),
    )
    _adaptive_dense_vs_isotropic(rep, tier)
    rep.assumptions = [
        "exact arithmetic: q <= 2, d <= 2, one or two steps, h in {1, 1/2, 2}; instances whose rationals leave 32 bits are dropped (most two-step instances with q = 2, d = 2); orders 3-4 and 3-6 steps are compared between the implementations only (float64, 1e-9 relative)",
        "TS0 statements are replayed with the default (unit) base scales as in the property; scenarios with polynomial solutions (zero residual, hence zero dynamic scale and a singular predicted covariance) are skipped for the dynamic solver",
        "adaptive runs of the dense/isotropic pair are not replayed here (fixed grids only); the fixed-point smoother is not used on fixed grids",
    ]
    return rep.finish()


def _adaptive_dense_vs_isotropic(rep, tier):
    """adaptive runs of the dense / isotropic pair: with zeroth-order linearisation the accepted step sequences must
    coincide and the outputs agree, for every calibration mode, strategy, error estimator and error norm"""
    import warnings

    import jax.numpy as jnp
    import numpy as np

    from harness import realruns
    from probdiffeq import ivpsolve
    from probdiffeq import probdiffeq as pdq

    def vf(u, *, t):
        return jnp.asarray([u[1] * u[2], -u[0] * u[2], -0.5 * u[0] * u[1]]) + 0.1 * jnp.sin(t)

    u0 = jnp.asarray([0.3, 0.8, 1.0])
    ode = pdq.ode(vf, jacobian=pdq.jacobian_materialize())
    tc, _ = pdq.jetexpand_ode_padded_scan(num=3)(ode, (u0,), t=0.0)
    norms = {"scale_then_rms": pdq.error_norm_scale_then_rms, "rms_then_scale": pdq.error_norm_rms_then_scale}
    combos = []
    for sv in ("solver", "mle", "dynamic"):
        for strat in ("filter", "fixedpoint"):
            for est in ("residual", "state"):
                for nm in norms:
                    combos.append((sv, strat, est, nm))
    if tier == "quick":
        combos = combos[::6] + [("mle", "filter", "residual", "rms_then_scale"), ("dynamic", "fixedpoint", "state", "rms_then_scale")]
    for sv, strat, est, nm in combos:
        sols = {}
        for ssm_name in ("dense", "iso"):
            ssm = realruns.SSMS[ssm_name]()
            prior = ssm.prior_wiener_integrated(tc)
            constraint = ssm.constraint_ode_ts0(ode)
            solver = realruns.make_solver(sv, strat, constraint)
            mk = pdq.error_residual_std if est == "residual" else pdq.error_state_std
            err = mk(constraint=constraint, error_norm=norms[nm]())
            with warnings.catch_warnings():
                warnings.simplefilter("ignore")
                sols[ssm_name] = ivpsolve.solve_adaptive_save_at(solver=solver, error=err)(
                    prior, save_at=jnp.asarray([0.0, 0.5, 1.3, 2.0]), atol=1e-4, rtol=1e-3, dt0=0.05)
        a, b = sols["dense"], sols["iso"]
        rep.traces += 1
        rep.add_case(("adaptive-dense-vs-iso", sv, strat, est, nm))
        key = f"impl:agree:adaptive:{sv}:{strat}:{est}:{nm}:dense==iso"
        if not np.array_equal(np.asarray(a.num_steps), np.asarray(b.num_steps)):
            rep.violation(key + ":step-sequence", f"accepted step counts differ: dense {np.asarray(a.num_steps)} vs isotropic {np.asarray(b.num_steps)}", {})
            continue
        if realruns.rel(realruns.flat(a.u.mean), realruns.flat(b.u.mean)) > 1e-8:
            rep.violation(key + ":mean", f"means differ by {realruns.rel(realruns.flat(a.u.mean), realruns.flat(b.u.mean)):.2e}", {})
        if realruns.rel(realruns.flat(a.output_scale), realruns.flat(b.output_scale)) > 1e-8:
            rep.violation(key + ":output_scale", "estimated scales differ", {})


def replay(rep_obj) -> int:
    """re-run the failing instance / scenario of a stored replay"""
    from fractions import Fraction as F

    from harness import kalman

    r = rep_obj.get("replay") or {}
    print(rep_obj.get("what"))

    def undo(d):
        out = dict(d)
        for k in ("t0", "h", "eps", "damp"):
            out[k] = F(out[k])
        out["lam"] = [F(x) for x in out["lam"]]
        out["m0"] = [F(x) for x in out["m0"]]
        return out

    if "scenario" in r:
        s = undo(r["scenario"])
        bad = kalman.check_relational(s)
        print(bad)
        return 1 if bad else 0
    if "instance" in r:
        x = undo(r["instance"])
        res, dropped, *_ = kalman.eval_exact([x])
        if 0 not in res:
            print("instance not representable")
            return 2
        bad = kalman.check_exact(x, res[0])
        print(bad)
        return 1 if bad else 0
    return 1
