"""C19 - constrained least-squares points are feasible, optimal, exact if affine.

TLC: GaussNewton.tla, the iteration of taylor_points.lstsq_constrained_gauss_newton as an explicit state machine
(x, fx, dx, k) over exact rationals - initial state (x0, g(x0), ones, 0), the three-way guard on squared norms,
one Gauss-Newton step per transition, the returned statistics - one behaviour per instance.  Invariants on every
state: affine => Gaussian conditional mean after one step, fx = 0, loop stops with iters = 1; x - m in
range(L L^T J^T) at every iterate; reported statistics are the last state; budget respected; a returned point is
feasible to the tolerance or the budget is exhausted and reported so.
Guard-band family (two phases): TLC first runs the exact iteration of quadratic instances under a tiny tolerance and
exports |fx_k|^2, |dx_k|^2; from these an integer T (tol = 1/T) is chosen per iterate so that |fx_k|^2 lies strictly
inside (K/T^2, D/T^2), or |dx_k|^2 just above / just below D/T^2 with the constraint clause undecided, every guard of
the prefix >= 1e-3 away from its threshold; the resulting instances are model-checked and replayed like all others, so
a wrong count or a wrong quantity in any clause of the loop guard changes an observed guard value.
bind: every behaviour is replayed into the real routine with a recording Python loop injected through its
`while_loop=` parameter (iterate by iterate, guard by guard), into the same routine with the library's own loop
under jit, and into taylor_point_maximum_a_posteriori used as `taylor_point=` of
state_space_model_dense().constraint_residual(...) followed by one filter update on data 0.
"""

from __future__ import annotations

import collections
import random
from fractions import Fraction as F

from harness import gn
from harness.report import Report


def _instances(tier, seed):
    rng = random.Random(1900 + seed)
    quick = tier == "quick"
    insts = []
    # every (D, K) x kind x covariance-factor class at least once (twice in the thorough tier)
    for _ in range(1 if quick else 5):
        for D in (2, 3, 4):
            for K in range(1, D):
                for kind in ("affine", "quad"):
                    for lmode in gn.LMODES:
                        insts.append(gn.make_instance(rng, kind=kind, D=D, K=K, lmode=lmode))
    # unconstrained random draws
    for _ in range(300 if quick else 5000):
        insts.append(gn.make_instance(rng))
    # small, nearly feasible quadratic problems: the exact behaviours that take 2..4 steps in 32 bits
    for _ in range(250 if quick else 3000):
        insts.append(gn.make_instance(rng, kind="quad", D=2, K=1, near=True, maxiter=rng.choice([2, 3, 4, 4]), lmode=rng.choice(["identity", "diag", "tril", "sing_zero_row", "sing_col"])))
    # the same problem under every budget and both tolerances (budget exhaustion must be reported as such)
    for _ in range(12 if quick else 300):
        base = gn.make_instance(rng, kind="quad", D=rng.choice([2, 2, 3]), K=1, near=True)
        for maxiter in (1, 2, 3, 4):
            for T in gn.TOLS:
                insts.append(dict(base, maxiter=maxiter, T=T))
    # affine problems with few rows on four variables, replayed a second time with one row scaled by 2^-27 (see run)
    for _ in range(10 if quick else 60):
        insts.append(dict(gn.make_instance(rng, kind="affine", D=4, K=2, lmode="tril", maxiter=4, x0_is_mean=True, T=gn.TOLS[-1]), rowscale=True))
    return insts


def _row_scaled(rep, inst, sp):
    """the same affine constraint with its second row multiplied by 2^-27 has the same solution set, hence the same conditional
    mean, but J L is ill-conditioned (and well inside double precision): the routine must still return TLC's exact point"""
    import numpy as np

    ret = sp.get("ret")
    if ret is None or ret["outcome"] != "feasible":
        return
    e = [F(1), F(1, 2**27)]
    # (tolerance 2^-40: the stopping rule reads the SCALED residual, which is about 2^-27 for a violated second row)
    scaled = dict(inst, A=[[F(v) * e[k] for v in row] for k, row in enumerate(inst["A"])], b=[F(v) * e[k] for k, v in enumerate(inst["b"])], T=2**40)
    x, stats, _rec = gn.run_real(scaled)
    want = np.array([float(v) for v in ret["x"]])
    A = np.array([[float(v) for v in row] for row in inst["A"]])
    b = np.array([float(v) for v in inst["b"]])
    rep.traces += 1
    rep.add_case(("gn-rowscaled", tuple(map(str, inst["b"])), tuple(map(str, inst["m"]))))
    err = float(np.max(np.abs(x - want)) / max(1.0, float(np.max(np.abs(want)))))
    feas = float(np.max(np.abs(A @ x - b)))
    if not (np.all(np.isfinite(x)) and err <= 1e-6 and feas <= 1e-6):
        rep.violation("impl:affine:row-scaled:return.x", f"affine D=4 K=2 with row 2 scaled by 2^-27: returned point deviates from the exact conditional mean by {err:.2e} (unscaled residual {feas:.2e}, iters={int(stats['iters'])})",
                      {"instance": gn.to_json(inst)})


def _band_family(tier, seed, rep):
    """phase 1 (exact iteration under tol = 2^-20, TLC) -> phase 2 (tolerances placed around the exact norms)"""
    rng = random.Random(7100 + seed)
    quick = tier == "quick"
    want = {"fx_band": 70 if quick else 700, "dx_above": 30 if quick else 300, "dx_below": 30 if quick else 300}
    # keep sampling (a few rounds) until every band kind is populated; the "stalled" band is hit by ~1.5% of the bases only
    floor = {"fx_band": 40, "dx_above": 10, "dx_below": 6} if quick else {"fx_band": 700, "dx_above": 300, "dx_below": 80}
    got = {k: [] for k in want}

    def regular():
        if rng.random() < 0.5:
            return gn.make_instance(rng, kind="quad", D=2, K=1, near=True, maxiter=4, T=gn.T_PHASE1, lmode=rng.choice(["identity", "diag", "tril", "sing_zero_row", "sing_col"]))
        return gn.make_instance(rng, kind="quad", near=rng.random() < 0.7, maxiter=4, T=gn.T_PHASE1)

    def strong():
        # residual and increment of comparable size after a step (needed for the increment bands, tol = 1/2 .. 1/9)
        return gn.make_instance(rng, kind="quad", strong=True, near=True, mrange=1, maxiter=4, T=gn.T_PHASE1, D=rng.choice([2, 2, 3, 4]))

    for rnd in range(4 if quick else 5):
        if rnd == 0:
            bases = [regular() for _ in range(200 if quick else 1500)] + [strong() for _ in range(300 if quick else 1500)]
        else:
            bases = [strong() for _ in range(300 if quick else 1500)]
        res, states, gen, fails = gn.run_spec([gn.tla_instance(b) for b in bases], batch=50)
        rep.states += states
        rep.transitions += gen
        for f in fails:
            j = f["instance"]
            rep.violation(f"spec:GaussNewton:{f['violated']}", f"GaussNewton.tla invariant {f['violated']} violated by the specified iteration itself (guard-band phase 1)", {"instance": gn.to_json(bases[j]) if j is not None else None, "tlc_tail": f["tlc_tail"]})
        for j, base in enumerate(bases):
            if j in res and 0 in res[j]["states"]:
                for b in gn.band_instances(rng, base, res[j]):
                    if len(got[b["band"]]) < want[b["band"]]:
                        got[b["band"]].append(b)
        if all(len(got[k]) >= floor[k] for k in want):
            break
    return [b for k in gn.BAND_KINDS for b in got[k]]


def _record(rep, inst, j, bad):
    for key, detail in bad:
        rep.violation(
            f"impl:{inst['kind']}:{key}",
            f"{inst['kind']} D={inst['D']} K={inst['K']} L={inst['lmode']} tol=1/{inst['T']} maxiter={inst['maxiter']}: {key} {detail}",
            {"instance": gn.to_json(inst), "index": j},
        )


def run(tier: str, seed: int) -> int:
    rep = Report("C19", tier, seed)
    rep.rule = (
        "a case is one instance (constraint, mean, covariance factor, start, tolerance, budget) whose exact behaviour is replayed "
        "into the real routine iterate by iterate; distinct non-trivial = instances on which at least one Gauss-Newton step "
        "(two states) was compared"
    )
    insts = _instances(tier, seed) + _band_family(tier, seed, rep)
    res, states, gen, fails = gn.run_spec([gn.tla_instance(i) for i in insts], batch=25 if tier == "quick" else 60)
    rep.states += states
    rep.transitions += gen
    for f in fails:
        j = f["instance"]
        rep.violation(
            f"spec:GaussNewton:{f['violated']}",
            f"GaussNewton.tla invariant {f['violated']} violated by the specified iteration itself",
            {"instance": gn.to_json(insts[j]) if j is not None else None, "index": j, "tlc_tail": f["tlc_tail"]},
        )
    stat = collections.Counter()
    depth = collections.Counter()
    worst = 0.0
    band_ok = 0
    for j, inst in enumerate(insts):
        sp = res.get(j)
        if sp is None or 0 not in sp["states"]:
            stat["no_export"] += 1
            continue
        bad, info = gn.check_instance(inst, sp)
        rep.traces += 1
        rep.add_case(("gn", j) if info["compared_states"] >= 2 else None)
        rep.sample(gn.to_json(inst), cap=4)
        depth[info["compared_states"] - 1] += 1
        stat["states_compared"] += info["compared_states"]
        worst = max(worst, info["max_relerr"])
        for k in ("returned", "borderline", "map", "filter_update", "range_checked"):
            stat[k] += int(info[k])
        if "band" in inst:
            stat[f"band_generated:{inst['band']}"] += 1
            if inst["band_k"] in info["guards_compared"]:  # the banded guard evaluated in 32 bits and was compared
                stat[f"band_evaluated:{inst['band']}"] += 1
                band_ok += 1
        ret = sp["ret"]
        if ret is None:
            stat["behaviour_truncated(32bit_or_rank_deficient_solve)"] += 1
        else:
            stat[f"outcome:{inst['kind']}:{ret['outcome']}"] += 1
            if ret["outcome"] == "feasible" and any(v != 0 for v in ret["final_constraint"]):
                stat["feasible_to_tolerance_with_nonzero_residual"] += 1
            if inst["lmode"].startswith("sing"):
                stat["returned_with_singular_factor"] += 1
        _record(rep, inst, j, bad)
        if inst.get("rowscale"):
            _row_scaled(rep, inst, sp)
    rep.extra["instances"] = len(insts)
    rep.extra["guard_band_instances"] = band_ok
    if band_ok < 40 and not rep.violations:  # (a routine that deviates at the guards is a verdict, not a vacuous run)
        raise RuntimeError(f"guard-band family too small: {band_ok} instances evaluated (need >= 40)")
    rep.extra["gauss_newton_steps_compared_histogram"] = {str(k): v for k, v in sorted(depth.items())}
    rep.extra["counts"] = dict(sorted(stat.items()))
    rep.extra["largest_relative_deviation_float64_vs_exact"] = worst
    rep.assumptions = [
        "lstsq(JL, r) is specified as the minimum-norm solution (JL)^T ((JL)(JL)^T)^{-1} r; instances (and iterates) where (JL)(JL)^T is singular are not modelled - the behaviour is cut there and only its prefix is compared",
        "32-bit exact rationals: a behaviour is cut where a value leaves the range (denominators square at every step), so most exact behaviours have 1..2 steps, few have 3..4; budgets up to 50 and D up to 10 are not covered",
        "float64 against exact rationals at 1e-9 relative; a guard evaluation whose exact squared norm is within 1e-6 (relative) of the threshold is not judged",
        "optimality at 0 iterations is claimed only for x0 = mean (both call sites of the library); a feasible start x0 != mean is returned unchanged by the routine and by the specification",
        "constraints g(x) = A x - b + x^T Q x with integer A, small Q (entries 0, +-1, +-1/4, +-1/16); tolerances 2^-10, 2^-20 and, in the guard-band family, 1/T for integers T placed around the exact norms of the iterates; budgets 1..4",
        "the third exit of the guard (increment below tolerance, residual above) is required not to occur for tol <= 2^-10 only; under the coarse tolerances of the increment bands it is a truthfully reported outcome ('stalled')",
    ]
    return rep.finish()


def replay(rep_obj) -> int:
    print(rep_obj.get("what"))
    r = rep_obj.get("replay") or {}
    if not r.get("instance"):
        return 1
    inst = gn.from_json(r["instance"])
    res, _, _, fails = gn.run_spec([gn.tla_instance(inst)], batch=1, parallel=1)
    rc = 0
    for f in fails:
        print(f"TLC: invariant {f['violated']} violated")
        print(f["tlc_tail"])
        rc = 1
    if 0 in res:
        bad, info = gn.check_instance(inst, res[0])
        for st in sorted(res[0]["states"]):
            s = res[0]["states"][st]
            print(f"spec state k={st}: x={s['x']} fx={s['fx']} dx={s['dx']} cont={s['cont']} blocked={s['blocked']}")
        print("spec return:", res[0]["ret"])
        _, stats, rec = gn.run_real(inst)
        for q in rec:
            print(f"real state i={q['i']}: x={q['x'].tolist()} fx={q['fx'].tolist()} dx={q['dx'].tolist()} cont={q['cont']}")
        print("real stats:", {k: v.tolist() for k, v in stats.items()})
        for key, detail in bad:
            print(f"DIVERGENCE {key}: {detail}")
            rc = 1
    return rc
