"""C15 - results are invariant under pytree structure, permutation, jit and vmap.

There is no separate model: the claim is that the SAME specifications are conformed to in every execution mode.
(i)  L0: TLC behaviours of AdaptiveLoop.tla are replayed through the real adaptive loop eagerly, under jit, and under
     vmap over batches whose members have different accept/reject scripts and very different step counts; every batch
     member must reproduce its own TLC behaviour (emitted solutions, final state, step counts).
(ii) L1: the operation log of the real solver code on the tracing SSM must be identical with and without jit (and is
     validated by TLC once).
(iii) real SSMs: nested dict / tuple / namedtuple states with leaves of rank 0..3 versus the flattened problem, permuted
     components, jit vs eager, vmap vs one-at-a-time (adaptive solves whose members take different numbers of steps),
     fixed and adaptive routines, filter and smoothers, three factorisations; output structure (caller's tree, leading
     time axis of the requested length).
"""

from __future__ import annotations

import collections
import random
import warnings
from fractions import Fraction as F

import jax
import jax.numpy as jnp
import numpy as np

from checks import l1common
from harness import l0, l1, realruns, scripted, tlc
from harness.report import Report
from probdiffeq import ivpsolve
from probdiffeq import probdiffeq as pdq


# ------------------------------------------------------------------ (i) L0 under vmap
def _l0_modes(rep, tier, seed):
    rng = random.Random(seed)
    plans = [("ties", "flat", "I_7_8", False, 1), ("dense", "valley", "PI_7_8", True, F(1, 4))]
    if tier == "thorough":
        plans += [("mixed", "tight_then_loose", "I_1_2", False, 4), ("sparse", "valley", "I_1", True, F(1, 4)), ("remainder", "loose_then_tight", "PI_3_4", False, 1)]
    for lay, prof, ctrl, clip, dt0 in plans:
        cfg = l0.make_config(lay, prof, ctrl, clip, dt0, max_att=12)
        wd = tlc.make_workdir()
        try:
            g1, b1 = l0.generate(wd, dict(cfg, MaxAtt=7), "g")
            g2, b2 = l0.generate(wd, dict(cfg, MaxAtt=14), "s", simulate_num=200 if tier == "quick" else 800, seed=seed + 3)
        finally:
            tlc.cleanup(wd)
        rep.states += g1.distinct + g2.distinct
        rep.transitions += g1.generated + g2.generated
        behs = [b for b in b1 + b2 if b["complete"]]
        if not behs:
            continue
        behs.sort(key=lambda b: len(b["hist"]))
        # a batch mixing the shortest and the longest histories (step counts differ by large factors)
        nb = 16 if tier == "quick" else 64
        picks = behs[: nb // 2] + behs[-(nb // 2):]
        solver = scripted.ScriptedSolver(None)
        err = scripted.ScriptedError(None, default_ep=2.0)
        ctrl_real = l0.real_control(cfg)
        save_at = jnp.asarray([c / l0.UNIT for c in cfg["Ckpts"]])
        solve = ivpsolve.solve_adaptive_save_at(solver=solver, error=err, control=ctrl_real, clip_dt=cfg["Clip"], while_loop=scripted.bounded_while_loop(300))

        def run(table):
            return solve(0.0, save_at=save_at, atol=table, rtol=0.0, dt0=cfg["Dt0"] / l0.UNIT, eps=cfg["Eps"] / l0.UNIT)

        tables = [tuple(jnp.asarray(x) for x in l0.script_table(b)) for b in picks]
        stacked = tuple(jnp.stack([t[k] for t in tables]) for k in range(3))
        modes = {
            "vmap": lambda: jax.vmap(run)(stacked),
            "jit(vmap)": lambda: jax.jit(jax.vmap(run))(stacked),
        }
        rp = l0.Replayer(cfg)
        rp.log.enabled = False
        counts = [sum(1 for h in b["hist"] if h["ev"] == "attempt") for b in picks]
        rep.extra.setdefault("vmap_attempt_count_ratio", []).append(max(counts) / max(1, min(counts)))
        for mname, fn in modes.items():
            res = jax.tree_util.tree_map(np.asarray, fn())
            for j, b in enumerate(picks):
                member = jax.tree_util.tree_map(lambda x: x[j], res)
                diffs = _compare_outputs(cfg, b, member)
                rep.traces += 1
                rep.add_case((cfg["_name"], mname, repr(b["hist"])))
                if diffs:
                    rep.violation(f"impl:l0:{mname}:{diffs[0].split(':')[0]}", f"{cfg['_name']} batch member {j}: {diffs[0][:400]}", {"config": cfg["_name"], "behaviour": b})
        rep.sample({"config": cfg["_name"], "batch": len(picks), "attempts_per_member": counts}, cap=3)


def _compare_outputs(cfg, beh, res):
    diffs = []
    init = l0._svec(dict(t=cfg["Ckpts"][0], n=0, kind=0, a=cfg["Ckpts"][0], b=cfg["Ckpts"][0], src=0))
    want = [init] + [l0._svec(o) for o in beh["out"]]
    got = np.stack([np.atleast_1d(getattr(res["all"], f)) for f in scripted.FIELDS], axis=-1).tolist()
    if not l0._eq(want, got):
        diffs.append(f"emitted solutions: spec {want} != impl {got}")
    got_sf = np.stack([np.atleast_1d(getattr(res["last"], f)) for f in scripted.FIELDS], axis=-1).tolist()[0]
    if not l0._eq(l0._svec(beh["sf"]), got_sf):
        diffs.append(f"final step_from: spec {l0._svec(beh['sf'])} != impl {got_sf}")
    return diffs


# ------------------------------------------------------------------ (ii) L1: jit vs eager logs
def _l1_modes(rep, tier, seed):
    cfg = l0.make_config("ties", "flat", "I_1", False, 1, max_att=8)
    res, behs = l1common.behaviours(cfg, 2 if tier == "quick" else 6, seed)
    combos = [("mle", "fixedpoint", True), ("dynamic", "filter", False)]
    if tier == "thorough":
        combos += [("solver", "fixedpoint", False), ("mle", "filter", False), ("dynamic_relin", "fixedpoint", True)]
    traces = []
    for sv, strat, initc in combos:
        rj = l1.L1Runner(cfg, sv, strat, initc, "save_at", jit=True)
        re = l1.L1Runner(cfg, sv, strat, initc, "save_at", jit=False)
        for b in behs:
            tj, _ = rj.run(b)
            with jax.disable_jit():
                te, _ = re.run(b)
            rep.traces += 1
            rep.add_case(("l1-jit-vs-eager", sv, strat, initc, repr(tj["hdr"]["steps"])))
            if tj["hdr"] != te["hdr"] or tj["ev"] != te["ev"]:
                k = next((i for i, (a, c) in enumerate(zip(tj["ev"], te["ev"])) if a != c), min(len(tj["ev"]), len(te["ev"])))
                rep.violation(f"impl:l1:jit-vs-eager:{sv}:{strat}", f"operation logs differ at event {k}", {"jit": tj["ev"][max(0, k - 2): k + 2], "eager": te["ev"][max(0, k - 2): k + 2]})
            traces.append(tj)
    ver, st, gen = l1.validate_parallel(traces)
    rep.states += st
    rep.transitions += gen
    for v in ver:
        if not v["ok"]:
            rep.violation(f"impl:l1:trace:{l1common.why_class(v['why'])}", v["why"], {})


# ------------------------------------------------------------------ (iii) real SSMs
Pair = collections.namedtuple("Pair", ["x", "y"])


def _lv_flat(u, *, t):
    a, b, c, d = 0.5, 0.05, 0.5, 0.05
    return jnp.asarray([a * u[0] - b * u[0] * u[1], -c * u[1] + d * u[0] * u[1], -0.3 * u[2] + 0.1 * u[0], 0.2 * jnp.sin(t) - 0.1 * u[3]])


STRUCTS = {
    "dict": (lambda v: {"prey": v[0], "pred": v[1], "rest": v[2:]}, lambda t: jnp.concatenate([jnp.atleast_1d(t["prey"]), jnp.atleast_1d(t["pred"]), t["rest"]])),
    "tuple": (lambda v: (v[:2], (v[2], v[3])), lambda t: jnp.concatenate([t[0], jnp.stack([t[1][0], t[1][1]])])),
    "namedtuple": (lambda v: Pair(x=v[:1], y=v[1:].reshape(3, 1)), lambda t: jnp.concatenate([t.x, t.y.reshape(-1)])),
    "rank3": (lambda v: {"a": v.reshape(2, 1, 2)}, lambda t: t["a"].reshape(-1)),
}


def _solve(ssm_name, vf, u0, *, strategy, routine, solver_name="mle", jit=False, num=3, ts="ts0", jac=None):
    ode = pdq.ode(vf, jacobian=jac or pdq.jacobian_materialize())
    tc, _ = pdq.jetexpand_ode_padded_scan(num=num)(ode, (u0,), t=0.0)
    ssm = realruns.SSMS[ssm_name]()
    prior = ssm.prior_wiener_integrated(tc)
    constraint = ssm.constraint_ode_ts0(ode) if ts == "ts0" else ssm.constraint_ode_ts1(ode)
    solver = realruns.make_solver(solver_name, strategy, constraint)
    with warnings.catch_warnings():
        warnings.simplefilter("ignore")
        if routine == "fixed":
            fn = lambda p: ivpsolve.solve_fixed_grid(solver=solver)(p, grid=jnp.linspace(0.0, 1.0, 9))  # noqa: E731
        else:
            err = pdq.error_residual_std(constraint=constraint)
            fn = lambda p: ivpsolve.solve_adaptive_save_at(solver=solver, error=err)(p, save_at=jnp.asarray([0.0, 0.4, 0.7, 1.0]), atol=1e-4, rtol=1e-3, dt0=0.05)  # noqa: E731
        return (jax.jit(fn) if jit else fn)(prior)


def _coupled(u, *, t):
    """strongly coupled (full Jacobian) problem for the permutation check under first-order linearisation"""
    return jnp.asarray([-u[0] * u[1] + 0.5 * u[2], u[0] * u[1] - 0.7 * u[3] * u[1], 0.8 * u[3] - 0.3 * u[2] * u[0] + 0.1 * jnp.sin(t), -0.5 * u[3] + 0.4 * u[1] * u[2]])


def _solve_coupled(ssm_name, vf, u0, strategy):
    """loose tolerances: a component-order dependence of the error estimate moves the accepted steps visibly"""
    ode = pdq.ode(vf, jacobian=pdq.jacobian_materialize())
    tc, _ = pdq.jetexpand_ode_padded_scan(num=3)(ode, (u0,), t=0.0)
    ssm = realruns.SSMS[ssm_name]()
    prior = ssm.prior_wiener_integrated(tc)
    constraint = ssm.constraint_ode_ts1(ode)
    solver = realruns.make_solver("mle", strategy, constraint)
    err = pdq.error_residual_std(constraint=constraint)
    with warnings.catch_warnings():
        warnings.simplefilter("ignore")
        return ivpsolve.solve_adaptive_save_at(solver=solver, error=err)(prior, save_at=jnp.asarray([0.0, 0.8, 1.7, 3.0]), atol=1e-2, rtol=1e-1, dt0=0.05)


def _real_modes(rep, tier, seed):
    v0 = jnp.asarray([2.0, 1.0, 0.5, 0.25])
    ssms = ["dense", "iso", "bd"]
    combos = [("filter", "fixed"), ("fixedinterval", "fixed"), ("filter", "adaptive"), ("fixedpoint", "adaptive")]
    structs = list(STRUCTS) if tier == "thorough" else ["dict", "namedtuple", "rank3"]
    for ssm_name in ssms:
        for strategy, routine in combos if tier == "thorough" else combos[(ssms.index(ssm_name)) % 2::2] + combos[:1]:
            ref = _solve(ssm_name, _lv_flat, v0, strategy=strategy, routine=routine)
            ref_mean, ref_std = realruns.flat(ref.u.mean[0]), np.asarray(ref.t)
            n_t = ref.t.shape[0]
            # pytree structures
            for sname in structs:
                to_tree, to_flat = STRUCTS[sname]

                def vf_tree(u, *, t, to_tree=to_tree, to_flat=to_flat):
                    return to_tree(_lv_flat(to_flat(u), t=t))

                sol = _solve(ssm_name, vf_tree, to_tree(v0), strategy=strategy, routine=routine)
                rep.traces += 1
                rep.add_case(("pytree", ssm_name, strategy, routine, sname))
                key = f"impl:pytree:{sname}:{ssm_name}:{strategy}:{routine}"
                want_struct = jax.tree_util.tree_structure(to_tree(v0))
                for name, tree in (("mean", sol.u.mean[0]), ("std", sol.u.std[0])):
                    if jax.tree_util.tree_structure(tree) != want_struct and not (name == "std" and ssm_name == "iso"):
                        rep.violation(key + f":{name}-structure", f"u.{name}[0] has structure {jax.tree_util.tree_structure(tree)}, caller's is {want_struct}", {})
                lead = {np.shape(x)[0] for x in jax.tree_util.tree_leaves(sol.u.mean[0])}
                if lead != {n_t}:
                    rep.violation(key + ":time-axis", f"leading axes {lead}, expected {n_t}", {})
                got = np.stack([np.asarray(to_flat(jax.tree_util.tree_map(lambda x, k=k: x[k], sol.u.mean[0]))) for k in range(n_t)])
                want = np.asarray(ref.u.mean[0])
                if ssm_name != "bd" or True:
                    if realruns.rel(got, want) > 1e-9:
                        rep.violation(key + ":mean", f"pytree solve differs from the flat solve by {realruns.rel(got, want):.2e}", {})
                if not np.array_equal(np.asarray(sol.num_steps), np.asarray(ref.num_steps)):
                    rep.violation(key + ":steps", "different step counts", {})
            # permutation of components
            perm = np.asarray([2, 0, 3, 1])
            inv = np.argsort(perm)

            def vf_perm(u, *, t):
                return _lv_flat(u[inv], t=t)[perm]

            solp = _solve(ssm_name, vf_perm, v0[perm], strategy=strategy, routine=routine)
            rep.traces += 1
            rep.add_case(("perm", ssm_name, strategy, routine))
            if realruns.rel(np.asarray(solp.u.mean[0])[:, inv], np.asarray(ref.u.mean[0])) > 1e-9:
                rep.violation(f"impl:permutation:{ssm_name}:{strategy}:{routine}:mean", f"permuting components does not permute the solution ({realruns.rel(np.asarray(solp.u.mean[0])[:, inv], np.asarray(ref.u.mean[0])):.2e})", {})
            # jit
            solj = _solve(ssm_name, _lv_flat, v0, strategy=strategy, routine=routine, jit=True)
            rep.traces += 1
            rep.add_case(("jit", ssm_name, strategy, routine))
            if realruns.rel(realruns.flat(solj.u.mean), realruns.flat(ref.u.mean)) > 1e-9 or realruns.rel(realruns.flat(solj.u.std), realruns.flat(ref.u.std)) > 1e-7:
                rep.violation(f"impl:jit:{ssm_name}:{strategy}:{routine}", "jit changes the result", {})
            if not np.array_equal(np.asarray(solj.num_steps), np.asarray(ref.num_steps)):
                rep.violation(f"impl:jit:{ssm_name}:{strategy}:{routine}:steps", "jit changes the step counts", {})
    # permutation under FIRST-order linearisation (coupled Jacobian): adaptive runs, where a component-order dependence of
    # the error estimate changes the accepted steps
    perm = np.asarray([2, 0, 3, 1])
    inv = np.argsort(perm)
    for ssm_name in ("dense", "bd"):
        for strategy in (("filter",) if tier == "quick" else ("filter", "fixedpoint")):
            ref = _solve_coupled(ssm_name, _coupled, v0, strategy)
            solp = _solve_coupled(ssm_name, lambda u, *, t: _coupled(u[inv], t=t)[perm], v0[perm], strategy)
            rep.traces += 1
            rep.add_case(("perm-ts1", ssm_name, strategy))
            if not np.array_equal(np.asarray(solp.num_steps), np.asarray(ref.num_steps)):
                rep.violation(f"impl:permutation:{ssm_name}:{strategy}:adaptive-ts1:steps", f"permuting components changes the accepted steps: {np.asarray(solp.num_steps)} vs {np.asarray(ref.num_steps)}", {})
            else:
                em = realruns.rel(np.asarray(solp.u.mean[0])[:, inv], np.asarray(ref.u.mean[0]))
                es = realruns.rel(np.asarray(solp.u.std[0])[:, inv], np.asarray(ref.u.std[0]))
                if em > 1e-9 or es > 1e-7:
                    rep.violation(f"impl:permutation:{ssm_name}:{strategy}:adaptive-ts1:values", f"permuting components does not permute the TS1 solution: mean {em:.2e}, std {es:.2e}", {})
    # vmap over initial values / stiffness: members need very different numbers of steps
    for ssm_name in ssms:
        for strategy in ("filter", "fixedpoint"):
            if tier == "quick" and (ssms.index(ssm_name) + (strategy == "filter")) % 2:
                continue
            scales = jnp.asarray([0.05, 1.0, 6.0])

            def solve_one(s, ssm_name=ssm_name, strategy=strategy):
                def vf(u, *, t):
                    return s * jnp.asarray([u[1], -25.0 * u[0]]) * (1.0 + 0.0 * t)

                ode = pdq.ode(vf, jacobian=pdq.jacobian_materialize())
                tc, _ = pdq.jetexpand_ode_padded_scan(num=3)(ode, (jnp.asarray([1.0, 0.0]),), t=0.0)
                ssm = realruns.SSMS[ssm_name]()
                prior = ssm.prior_wiener_integrated(tc)
                constraint = ssm.constraint_ode_ts0(ode)
                solver = realruns.make_solver("mle", strategy, constraint)
                err = pdq.error_residual_std(constraint=constraint)
                sol = ivpsolve.solve_adaptive_save_at(solver=solver, error=err)(prior, save_at=jnp.asarray([0.0, 0.5, 1.0]), atol=1e-5, rtol=1e-4, dt0=0.01)
                return sol.u.mean[0], sol.u.std[0], sol.num_steps, sol.output_scale, sol.u

            with warnings.catch_warnings():
                warnings.simplefilter("ignore")
                batched = jax.vmap(solve_one)(scales)
                singles = [solve_one(s) for s in scales]
            steps = [int(np.asarray(s[2])[-1]) for s in singles]
            rep.extra.setdefault("vmap_real_step_counts", []).append(steps)
            for j, single in enumerate(singles):
                rep.traces += 1
                rep.add_case(("vmap-real", ssm_name, strategy, j))
                for name, a, b, tol in (("mean", batched[0][j], single[0], 1e-8), ("std", batched[1][j], single[1], 1e-6), ("scale", batched[3][j], single[3], 1e-8)):
                    if realruns.rel(realruns.flat(a), realruns.flat(b)) > tol:
                        rep.violation(f"impl:vmap:{ssm_name}:{strategy}:{name}", f"batch member {j} (steps {steps}) differs from the single solve by {realruns.rel(realruns.flat(a), realruns.flat(b)):.2e}", {})
                if not np.array_equal(np.asarray(batched[2][j]), np.asarray(single[2])):
                    rep.violation(f"impl:vmap:{ssm_name}:{strategy}:steps", f"batch member {j}: step counts {np.asarray(batched[2][j])} vs {np.asarray(single[2])}", {})
            # the batched solution object itself (two leading axes: batch, time): its mean / std read OUTSIDE vmap
            try:
                bm, bs = batched[4].mean[0], batched[4].std[0]
                for j, single in enumerate(singles):
                    rep.traces += 1
                    rep.add_case(("vmap-real-object", ssm_name, strategy, j))
                    for name, a, b, tol in (("mean", bm[j], single[0], 1e-8), ("std", bs[j], single[1], 1e-6)):
                        if np.shape(a) != np.shape(b) or realruns.rel(realruns.flat(a), realruns.flat(b)) > tol:
                            rep.violation(f"impl:vmap:{ssm_name}:{strategy}:batched-solution.{name}", f"u.{name} of the vmapped solution, member {j}: shape {np.shape(a)} vs {np.shape(b)} of the single solve, or values differ", {})
            except Exception as e:  # raised inside the library when reading the batched solution
                rep.violation(f"impl:vmap:{ssm_name}:{strategy}:batched-solution:exception", f"{type(e).__name__}: {str(e)[:200]}", {})


def _jit_reuse(rep, tier):
    """ONE compiled solve applied to priors whose states share the container and the number of entries but not the inner
    structure (leaf shape (2,3) then (3,2); dict fields of swapped shapes): the second call must come back in the
    structure of ITS state and equal the uncompiled solve (a stale cache entry would return the first structure)."""
    grid = jnp.asarray([0.0, 0.25, 0.75, 1.0])

    def vf(u, *, t):
        return jax.tree_util.tree_map(lambda x: -1.5 * x + 0.0 * t, u)

    pairs = [
        ("array(2,3)->(3,2)", jnp.arange(1.0, 7.0).reshape(2, 3), jnp.arange(2.0, 8.0).reshape(3, 2)),
        ("dict-swapped-leaves", {"a": jnp.asarray([1.0, 2.0]), "b": jnp.asarray(3.0)}, {"a": jnp.asarray(0.5), "b": jnp.asarray([1.5, 2.5])}),
    ]
    for ssm_name in ("iso", "bd", "dense"):
        ssm = realruns.SSMS[ssm_name]()
        ode = pdq.ode(vf)
        constraint = ssm.constraint_ode_ts0(ode)
        solver = realruns.make_solver("solver", "filter", constraint)

        def solve(prior):
            sol = ivpsolve.solve_fixed_grid(solver=solver)(prior, grid=grid)
            return sol.u.mean[0], sol.u.std[0]

        for label, ua, ub in pairs:
            jitted = jax.jit(solve)
            outs = {}
            try:
                with warnings.catch_warnings():
                    warnings.simplefilter("ignore")
                    for tag, u0 in (("first", ua), ("second", ub)):
                        tc, _ = pdq.jetexpand_ode_padded_scan(num=2)(ode, (u0,), t=0.0)
                        prior = ssm.prior_wiener_integrated(tc)
                        outs[tag] = (jitted(prior), solve(prior))
            except Exception as e:  # raised inside the library
                rep.violation(f"impl:jit-reuse:{ssm_name}:exception", f"{label}: {type(e).__name__}: {str(e)[:200]}", {})
                continue
            rep.traces += 1
            rep.add_case(("jit-reuse", ssm_name, label))
            (jm, js), (rm, rs) = outs["second"]
            shapes_j = [tuple(np.shape(x)) for x in jax.tree_util.tree_leaves(jm)]
            shapes_r = [tuple(np.shape(x)) for x in jax.tree_util.tree_leaves(rm)]
            if jax.tree_util.tree_structure(jm) != jax.tree_util.tree_structure(rm) or shapes_j != shapes_r:
                rep.violation(f"impl:jit-reuse:{ssm_name}:structure", f"{label}: the compiled solve returns leaf shapes {shapes_j} for a state with leaf shapes {shapes_r}", {})
            elif realruns.rel(realruns.flat(jm), realruns.flat(rm)) > 1e-9 or realruns.rel(realruns.flat(js), realruns.flat(rs)) > 1e-7:
                rep.violation(f"impl:jit-reuse:{ssm_name}:values", f"{label}: the compiled solve differs from the uncompiled one on the second problem", {})


_VMAP_TERMINAL_SCRIPT = r"""
import json, sys, warnings
import jax, jax.numpy as jnp, numpy as np
jax.config.update("jax_enable_x64", True)
from probdiffeq import ivpsolve, probdiffeq as pdq
names = sys.argv[1].split(",")
SSMS = {"dense": pdq.state_space_model_dense, "iso": pdq.state_space_model_isotropic, "bd": pdq.state_space_model_blockdiag}
out = {}
for name in names:
    def solve_one(k, name=name):
        ode = pdq.ode(lambda u, *, t: -k * u + 0.0 * t)
        tc, _ = pdq.jetexpand_ode_padded_scan(num=3)(ode, (jnp.asarray([1.0, 0.5]),), t=0.0)
        ssm = SSMS[name]()
        prior = ssm.prior_wiener_integrated(tc)
        c = ssm.constraint_ode_ts0(ode)
        solver = pdq.solver_mle(strategy=pdq.strategy_filter(), constraint=c)
        err = pdq.error_residual_std(constraint=c)
        sol = ivpsolve.solve_adaptive_terminal_values(solver=solver, error=err)(prior, t0=0.0, t1=1.0, dt0=0.05, atol=1e-6, rtol=1e-5)
        return sol.u.mean[0], sol.u.std[0], sol.num_steps
    ks = jnp.asarray([0.2, 2.0, 12.0])
    with warnings.catch_warnings():
        warnings.simplefilter("ignore")
        singles = [solve_one(k) for k in ks]
        batched = jax.vmap(solve_one)(ks)
    rel = lambda a, b: float(np.max(np.abs(np.asarray(a) - np.asarray(b))) / (1e-300 + np.max(np.abs(np.asarray(b)))))
    out[name] = {"steps_single": [int(np.asarray(s[2]).reshape(-1)[-1]) for s in singles], "steps_vmap": [int(x) for x in np.asarray(batched[2]).reshape(len(ks), -1)[:, -1]],
                 "mean": max(rel(batched[0][j], singles[j][0]) for j in range(len(ks))), "std": max(rel(batched[1][j], singles[j][1]) for j in range(len(ks)))}
print("@@RESULT " + json.dumps(out))
"""


def _vmap_terminal(rep, tier):
    """vmap over solve_adaptive_terminal_values (clip_dt on by default) with members that need very different numbers
    of steps; run in a child process under a watchdog because a batched while-loop that never ends cannot be interrupted
    from Python"""
    import json
    import os
    import subprocess
    import sys

    names = "dense" if tier == "quick" else "dense,iso,bd"
    repo = os.environ.get("VERIF_REPO", "/repo")
    env = dict(os.environ, PYTHONPATH=repo, JAX_PLATFORMS="cpu")
    budget = 420
    try:
        p = subprocess.run([sys.executable, "-c", _VMAP_TERMINAL_SCRIPT, names], capture_output=True, text=True, timeout=budget, env=env)
    except subprocess.TimeoutExpired:
        rep.traces += 1
        rep.add_case(("vmap-terminal", names, "timeout"))
        rep.violation("impl:vmap:terminal_values:does-not-terminate",
                      f"jax.vmap(solve_adaptive_terminal_values) over three members with different step counts did not return within {budget} s (each member alone solves in seconds)", {"models": names})
        return
    line = [ln for ln in p.stdout.splitlines() if ln.startswith("@@RESULT ")]
    if not line:
        if "probdiffeq/" in p.stderr and "Traceback" in p.stderr:
            rep.violation("impl:vmap:terminal_values:exception", p.stderr.strip().splitlines()[-1][:300], {"stderr_tail": p.stderr[-2000:]})
            return
        raise RuntimeError("vmap-terminal child failed: " + p.stderr[-1500:])
    res = json.loads(line[0][len("@@RESULT "):])
    for name, r in res.items():
        rep.traces += 1
        rep.add_case(("vmap-terminal", name))
        rep.extra.setdefault("vmap_terminal_step_counts", {})[name] = r["steps_single"]
        if r["steps_single"] != r["steps_vmap"]:
            rep.violation(f"impl:vmap:terminal_values:{name}:steps", f"step counts {r['steps_vmap']} under vmap vs {r['steps_single']} one at a time", {})
        elif r["mean"] > 1e-8 or r["std"] > 1e-6:
            rep.violation(f"impl:vmap:terminal_values:{name}:values", f"vmapped terminal values differ from the single solves: mean {r['mean']:.2e}, std {r['std']:.2e}", {})


def run(tier: str, seed: int) -> int:
    rep = Report("C15", tier, seed)
    rep.rule = (
        "a case is one (behaviour or problem, execution mode) pair: a TLC behaviour replayed as a member of a vmapped batch, an "
        "operation log recorded with and without jit, or a real solve in a pytree structure / permutation / jit / vmap compared "
        "with the plain solve; distinct = distinct (configuration, mode, history or structure); every case is non-trivial"
    )
    _l0_modes(rep, tier, seed)
    _l1_modes(rep, tier, seed)
    _real_modes(rep, tier, seed)
    _jit_reuse(rep, tier)
    _vmap_terminal(rep, tier)
    rep.assumptions = [
        "conformance sampling over execution modes, not a proof about JAX's transformations",
        "NaNs in non-selected branches are invisible in forward values by construction",
    ]
    return rep.finish()
