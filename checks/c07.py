"""C07 - the acceptance quantity equals the documented local error estimate.

TLC: TraceProbSolver.ErrnormExpect: the number returned by the real estimator must be built from the std of the
observed *mean-only, unit-scale* extrapolation of the previous state (residual estimator: rescaled by its own whitened
RMS; state estimator: the conditional std of the selected Taylor coefficient times that RMS), with the cached or the
re-evaluated linearisation exactly as configured, referenced to max(|u_prev|, |u_new|); TLC exports the squared norm
as an exact rational from the scripted scalars (dt^n/n!, both norms, error-per-unit-step, derivative index).
bind: the real error_residual_std / error_state_std and both norm functions run on tracing-SSM states produced by the
real solvers; error_power^(-2(q+1)) compared with TLC's rational; base-scale invariance replayed on the real SSMs.
"""

from __future__ import annotations

import concurrent.futures as cf

import jax.numpy as jnp
import numpy as np

from harness import l1, l1_err, realruns
from harness.report import Report
from probdiffeq import probdiffeq as pdq

RATE = 3  # Taylor coefficients of the tracing prior


def run(tier: str, seed: int) -> int:
    rep = Report("C07", tier, seed)
    rep.rule = (
        "a case is one estimate_error_norm call of a real estimator configuration (estimator x norm x cached/re-linearised "
        "x per-unit-step x derivative index x residual order x solver x strategy) on tracing-SSM states; distinct = distinct "
        "configuration and step; non-trivial = every case (two consecutive steps per configuration)"
    )
    cfgs = l1_err.configs(tier, seed)
    traces, obs = [], []
    kept = []
    for c in cfgs:
        try:
            tr, eps = l1_err.run_config(c)
        except Exception as e:  # the real estimator / solver raised on a legal configuration
            label = f"{c['kind']}:{'rms_then_scale' if c['norm'] else 'scale_then_rms'}:relin={int(c['relin'])}:perunit={int(c['perunit'])}"
            rep.traces += 1
            rep.violation(f"impl:errnorm:{label}:exception", f"{c['solver']}/{c['strategy']} resorder={c['resorder']} didx={c['didx']}: {type(e).__name__}: {str(e)[:200]}",
                          {"config": {k: str(x) for k, x in c.items()}})
            continue
        kept.append(c)
        traces.append(tr)
        obs.append(eps)
    cfgs = kept
    chunks = [list(range(i, min(i + 10, len(traces)))) for i in range(0, len(traces), 10)]
    dropped = 0
    with cf.ThreadPoolExecutor(max_workers=8) as ex:
        results = list(ex.map(lambda idx: l1.validate([traces[i] for i in idx]), chunks))
    for idx, (ver, res) in zip(chunks, results):
        rep.states += res.distinct
        rep.transitions += res.generated
        exp = [o for t, o in res.prints if t == "ERRNORM"]
        for local, gi in enumerate(idx):
            c, v = cfgs[gi], ver[local]
            label = f"{c['kind']}:{'rms_then_scale' if c['norm'] else 'scale_then_rms'}:relin={int(c['relin'])}:perunit={int(c['perunit'])}"
            rep.traces += 1
            if not v["ok"]:
                rep.violation(f"impl:errnorm:{label}:{l1.__name__ and v['why'].split(':')[0]}:{'-'.join(v['why'].split(':')[-1].split()[:5])}",
                              f"{c['solver']}/{c['strategy']} resorder={c['resorder']} didx={c['didx']}: {v['why']}", {"config": {k: str(x) for k, x in c.items()}})
                continue
            mine = sorted([e for e in exp if e["tid"] == local + 1], key=lambda e: e["at"])
            seen_at = set()
            mine = [e for e in mine if not (e["at"] in seen_at or seen_at.add(e["at"]))]
            for step, (e, ep) in enumerate(zip(mine, obs[gi])):
                if e["n2"][1] == 0:
                    dropped += 1
                    continue
                want = e["n2"][0] / e["n2"][1]
                got = ep ** (-2 * RATE)
                rep.add_case((gi, step))
                rep.sample({"config": {k: str(x) for k, x in c.items()}, "expected_norm_squared": f"{e['n2'][0]}/{e['n2'][1]}", "observed_error_power": ep}, cap=5)
                if abs(got - want) > 1e-9 * max(1.0, abs(want)) and abs(got - want) > 1e-9 * abs(want):
                    rep.violation(f"impl:errnorm:{label}:value", f"{c['solver']}/{c['strategy']} resorder={c['resorder']} didx={c['didx']} step {step}: "
                                  f"error_power^(-2(q+1)) = {got!r} but the documented estimate is {want!r}", {"config": {k: str(x) for k, x in c.items()}})
    rep.extra["estimates_dropped_for_32bit_overflow"] = dropped
    _invariance(rep, tier)
    _second_order_ts0_vs_ts1(rep)
    rep.assumptions = [
        "scripted std / mean / RMS values (harness/tracing.py) make the estimate an exact rational; their numerical values are decided under C08",
    ]
    return rep.finish()


def _second_order_ts0_vs_ts1(rep):
    """second-order ODE whose right-hand side ignores the state: the zeroth- and the first-order linearisation are the
    same affine model, so the residual-based acceptance quantity must coincide (in particular its dt^n / n! scaling with
    n = differential order, per unit step n + 1) - in all three factorisations"""
    u0, du0 = jnp.asarray([0.5, -1.0]), jnp.asarray([1.0, 0.25])
    for ssm_name in ("dense", "iso", "bd"):
        ssm = realruns.SSMS[ssm_name]()
        ode = pdq.ode_order_two(lambda u, du, /, *, t: jnp.asarray([jnp.sin(t) + 1.0, -0.5 * t]) + 0.0 * u + 0.0 * du, jacobian=pdq.jacobian_materialize())
        tc, _ = pdq.jetexpand_ode_padded_scan(num=2)(ode, (u0, du0), t=0.0)
        for perunit in (False, True):
            vals = {}
            for ts in ("ts0", "ts1"):
                prior = ssm.prior_wiener_integrated(tc)
                constraint = ssm.constraint_ode_ts0(ode) if ts == "ts0" else ssm.constraint_ode_ts1(ode)
                solver = realruns.make_solver("solver", "filter", constraint)
                est = pdq.error_residual_std(constraint=constraint, error_per_unit_step=perunit)
                s0 = solver.init(jnp.asarray(0.0), prior, damp=0.0)
                s1 = solver.step(state=s0, dt=0.25, damp=0.0)
                s2 = solver.step(state=s1, dt=0.25, damp=0.0)
                ep, _ = est.estimate_error_norm(est.init_error(), previous=s1, proposed=s2, dt=0.25, atol=1e-3, rtol=1e-2, damp=0.0)
                vals[ts] = float(ep)
            rep.traces += 1
            rep.add_case(("second-order-ts0-vs-ts1", ssm_name, perunit))
            if not (np.isfinite(vals["ts0"]) and abs(vals["ts0"] - vals["ts1"]) <= 1e-9 * abs(vals["ts1"])):
                rep.violation(f"impl:errnorm:residual:second-order:ts0-vs-ts1:{ssm_name}", f"per_unit_step={perunit}: error power {vals['ts0']} with TS0 but {vals['ts1']} with TS1 on a state-independent second-order right-hand side", {})


def _invariance(rep, tier):
    """the acceptance quantity does not depend on the prior's base output scale (real SSMs, c = 2^k)"""
    combos = [("logistic", "dense", "ts1"), ("logistic", "iso", "ts0"), ("vdp2", "bd", "ts0")]
    for prob, ssm_name, ts in combos:
        for kind in ("residual", "state"):
            vals = {}
            for k in (0, -4, 6):
                c = 2.0**k
                base = jnp.asarray(c) if ssm_name == "iso" else c * jnp.ones((2,))
                ssm, ode, prior, constraint = realruns.setup(prob, ssm_name, 3 if prob == "logistic" else 2, ts=ts, output_scale=base)
                solver = realruns.make_solver("solver", "filter", constraint)
                est = (pdq.error_residual_std if kind == "residual" else pdq.error_state_std)(constraint=constraint)
                s0 = solver.init(jnp.asarray(0.0), prior, damp=0.0)
                s1 = solver.step(state=s0, dt=0.125, damp=0.0)
                ep, _ = est.estimate_error_norm(est.init_error(), previous=s0, proposed=s1, dt=0.125, atol=1e-3, rtol=1e-2, damp=0.0)
                vals[k] = float(ep)
            rep.traces += 1
            rep.add_case(("invariance", prob, ssm_name, kind))
            for k in (-4, 6):
                if abs(vals[k] - vals[0]) > 1e-9 * abs(vals[0]):
                    rep.violation(f"impl:errnorm:{kind}:base-scale-invariance:{ssm_name}", f"{prob}/{ssm_name}/{ts}: error power {vals[k]} for c=2^{k} vs {vals[0]}", {})
