"""CLI: ./check <ID> --tier quick|thorough [--replay FILE]

exit 0: property held on everything explored (KNOWN-FINDING lines may be printed)
exit 1: VIOLATION property=<id> replay=<path>
exit 2: machinery failure (never a verdict)
"""

import argparse
import importlib
import json
import os
import sys
import traceback


def generic_replay(mod, rep):
    """Checks are deterministic functions of (tree, tier, seed): re-run the check with the recorded tier and seed and
    report whether the recorded violation key occurs again on the current tree."""
    from harness import report

    tier, seed = rep.get("tier", "quick"), int(rep.get("seed", 0))
    print(f"replaying {rep.get('key')} by re-running the check with tier={tier} seed={seed}")
    mod.run(tier, seed)
    again = rep.get("key") in report.LAST["keys"] or rep.get("key") in report.LAST["known"]
    if again:
        print(f"VIOLATION property={rep.get('property')} replay=<given>  (the recorded violation occurs again)")
        return 1
    print("the recorded violation does not occur on the current tree")
    return 0


def main():
    ap = argparse.ArgumentParser()
    ap.add_argument("pid")
    ap.add_argument("--tier", default=os.environ.get("VERIF_TIER", "quick"), choices=["quick", "thorough"])
    ap.add_argument("--replay", default=None)
    ap.add_argument("--selftest", action="store_true")
    args = ap.parse_args()
    seed = int(os.environ.get("VERIF_SEED", "0"))
    mod = importlib.import_module(f"checks.{args.pid.lower()}")
    try:
        if args.replay:
            with open(args.replay) as f:
                rep = json.load(f)
            if hasattr(mod, "replay_exact"):
                rc = mod.replay_exact(rep)
            elif hasattr(mod, "replay"):
                rc = mod.replay(rep)
            else:
                rc = generic_replay(mod, rep)
        elif args.selftest:
            rc = mod.selftest(seed)
        else:
            rc = mod.run(args.tier, seed)
    except Exception as exc:
        traceback.print_exc()
        # an exception raised INSIDE the library under test on an input the specification allows is a verdict about
        # the library (it crashed where the property promises a result), not a failure of the machinery
        tb = traceback.extract_tb(exc.__traceback__)
        # innermost frame that is neither third-party (jax / numpy internals the library called into) nor the interpreter
        own = [f for f in tb if "/site-packages/" not in f.filename and not f.filename.startswith("<")]
        inner = own[-1] if own else None
        if inner is not None and "/probdiffeq/" in inner.filename.replace("\\", "/") and "/verif/" not in inner.filename:
            from harness.report import Report

            rep = Report(args.pid, args.tier, seed)
            rep.rule = "the check was aborted by an exception raised inside the library under test"
            rep.evaluations, rep.states, rep.transitions = 1, 1, 1
            rep.distinct = {"exception", "abort"}
            rep.violation(f"impl:exception:{os.path.basename(inner.filename)}:{inner.name}",
                          f"{type(exc).__name__}: {str(exc)[:300]} (raised in {inner.filename}:{inner.lineno})",
                          {"traceback": traceback.format_exc()[-3000:]})
            sys.exit(rep.finish())
        print(f"MACHINERY-FAILURE property={args.pid}")
        sys.exit(2)
    sys.exit(rc)


if __name__ == "__main__":
    main()
