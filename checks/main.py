"""CLI: ./check <ID> --tier quick|thorough [--replay FILE]

exit 0: property held on everything explored (KNOWN-FINDING lines may be printed)
exit 1: VIOLATION property=<id> replay=<path>
exit 2: machinery failure (never a verdict)
"""

import argparse
import importlib
import json
import os
import sys
import traceback


def main():
    ap = argparse.ArgumentParser()
    ap.add_argument("pid")
    ap.add_argument("--tier", default=os.environ.get("VERIF_TIER", "quick"), choices=["quick", "thorough"])
    ap.add_argument("--replay", default=None)
    ap.add_argument("--selftest", action="store_true")
    args = ap.parse_args()
    seed = int(os.environ.get("VERIF_SEED", "0"))
    mod = importlib.import_module(f"checks.{args.pid.lower()}")
    try:
        if args.replay:
            with open(args.replay) as f:
                rep = json.load(f)
            rc = mod.replay(rep)
        elif args.selftest:
            rc = mod.selftest(seed)
        else:
            rc = mod.run(args.tier, seed)
    except Exception:  # machinery failure
        traceback.print_exc()
        print(f"MACHINERY-FAILURE property={args.pid}")
        sys.exit(2)
    sys.exit(rc)


if __name__ == "__main__":
    main()
