"""C04 - output-scale calibration is the documented estimator and is scale-equivariant.

TLC: TraceProbSolver: with scripted whitened-residual RMS values r_j = 1 + id_j/1024 (unique per observed term) the
reported MLE scale must satisfy scale^2 * 1024^2 = sum_j (1024 + id_j)^2 / (N_data * N_steps) exactly over the data
of the *accepted* steps (including the initial-constraint datum; N_steps = 1 without the asymptotic correction);
every marginal and conditional of the returned posterior carries the calibration tag exactly once; dynamic mode: the
scale of step k is the RMS of the observation of the unit-scale mean-only extrapolation from the previous posterior,
is used by that step's transition (also in interpolation) and is reported per output; uncalibrated: one.
bind: operation logs of the real solvers on the tracing SSM (all strategies and drivers) validated by TLC;
equivariance replays on the real SSMs with base scales c = 2^k.
"""

from __future__ import annotations

import warnings
from fractions import Fraction as F

import jax.numpy as jnp
import numpy as np

from checks import l1common
from harness import l0, realruns
from harness.report import Report
from probdiffeq import ivpsolve
from probdiffeq import probdiffeq as pdq


def _plan(tier):
    plan = []
    n = 4 if tier == "quick" else 25
    combos = [("mle", "filter"), ("mle", "fixedpoint"), ("mle_nocorr", "filter"), ("dynamic", "fixedpoint"), ("dynamic_relin", "filter"), ("solver", "fixedpoint")]
    if tier == "thorough":
        combos += [("mle_nocorr", "fixedpoint"), ("dynamic", "filter"), ("dynamic_relin", "fixedpoint"), ("solver", "filter")]
    cfgs = [l0.make_config("ties", "valley", "I_7_8", False, 1, max_att=8), l0.make_config("dense", "tight_then_loose", "I_1", True, 1, max_att=8)]
    for i, (sv, strat) in enumerate(combos):
        for cfg in cfgs if tier == "thorough" else [cfgs[i % 2]]:
            plan.append(dict(cfg=cfg, solver=sv, strategy=strat, initc=(i % 2 == 0), mode="save_at", n=n))
    # several checkpoints inside one accepted step (dt0 >> spacing, no clipping): the scale used and reported at every
    # checkpoint of the step must be the one of the step that steps over them
    cfgD = l0.make_config("dense", "flat", "I_7_8", False, 4, max_att=8)
    plan.append(dict(cfg=cfgD, solver="dynamic", strategy="filter", initc=False, mode="save_at", n=n))
    plan.append(dict(cfg=cfgD, solver="dynamic_relin" if tier == "thorough" else "mle", strategy="fixedpoint", initc=False, mode="save_at", n=n))
    for sv in ("mle", "mle_nocorr", "dynamic", "solver"):
        plan.append(dict(cfg=l1common.grid_cfg(l1common.GRIDS["nonuniform"], "nonuniform"), solver=sv, strategy="fixedinterval", initc=(sv == "mle"), mode="fixed_grid", n=1,
                         offgrid=(l0.u(F(5, 8)),)))
    cfgE = l0.make_config("mixed", "flat", "I_7_8", False, 1, mode="every_step", max_att=8)
    plan.append(dict(cfg=cfgE, solver="mle", strategy="fixedinterval", initc=False, mode="every_step", n=n, offgrid=(l0.u(F(9, 8)),)))
    plan.append(dict(cfg=cfgE, solver="dynamic", strategy="filter", initc=True, mode="every_step", n=n, offgrid=(l0.u(F(9, 8)),)))
    return plan


def _equivariance(rep, tier):
    """base scale c*sigma: means / accepted steps / calibrated covariances unchanged, MLE scale divided by c, uncalibrated std times c"""
    ks = [-3, 20] if tier == "quick" else [-20, -3, 1, 5, 20]
    combos = [("logistic", "dense", "ts1"), ("logistic", "iso", "ts0"), ("vdp2", "bd", "ts0")]
    if tier == "thorough":
        combos += [("logistic", "bd", "ts1"), ("vdp2", "dense", "ts1"), ("vdp2", "iso", "ts0")]
    for prob, ssm_name, ts in combos:
        d = 2
        for sv in ("solver", "mle", "dynamic"):
            for strat, routine in (("filter", "adaptive"), ("fixedinterval", "fixed")):
                sols = {}
                for k in [0, *ks]:
                    c = 2.0**k
                    base = jnp.asarray(c) if ssm_name == "iso" else c * jnp.ones((d,))
                    ssm, ode, prior, constraint = realruns.setup(prob, ssm_name, 3 if prob == "logistic" else 2, ts=ts, output_scale=base)
                    solver = realruns.make_solver(sv, strat, constraint)
                    with warnings.catch_warnings():
                        warnings.simplefilter("ignore")
                        if routine == "fixed":
                            sols[k] = ivpsolve.solve_fixed_grid(solver=solver)(prior, grid=jnp.linspace(0.0, 1.0, 7))
                        else:
                            err = pdq.error_residual_std(constraint=constraint)
                            solve = ivpsolve.solve_adaptive_save_at(solver=solver, error=err)
                            sols[k] = solve(prior, save_at=jnp.asarray([0.0, 0.3, 1.0]), atol=1e-3, rtol=1e-3, dt0=0.1)
                ref = sols[0]
                for k in ks:
                    c = 2.0**k
                    s = sols[k]
                    rep.traces += 1
                    rep.add_case(("equivariance", prob, ssm_name, ts, sv, strat, k))
                    tag = f"{prob}/{ssm_name}/{ts}/{sv}/{strat}/c=2^{k}"
                    key = f"impl:equivariance:{routine}:{strat}:{sv}"
                    if not np.array_equal(np.asarray(s.num_steps), np.asarray(ref.num_steps)):
                        rep.violation(key + ":steps", f"{tag}: accepted step sequence changed: {np.asarray(s.num_steps)} vs {np.asarray(ref.num_steps)}", {})
                        continue
                    if realruns.rel(realruns.flat(s.u.mean), realruns.flat(ref.u.mean)) > 1e-9:
                        rep.violation(key + ":mean", f"{tag}: posterior means changed by {realruns.rel(realruns.flat(s.u.mean), realruns.flat(ref.u.mean)):.2e}", {})
                    std_s, std_r = realruns.flat(s.u.std), realruns.flat(ref.u.std)
                    sc_s, sc_r = np.asarray(s.output_scale, dtype=np.float64), np.asarray(ref.output_scale, dtype=np.float64)
                    if sv == "dynamic":  # entry 0 belongs to the initial state (no step yet): it is the constant 1
                        sc_s, sc_r = sc_s[1:], sc_r[1:]
                    sc_s, sc_r = sc_s.reshape(-1), sc_r.reshape(-1)
                    if sv == "solver":
                        if realruns.rel(std_s, c * std_r) > 1e-7:
                            rep.violation(key + ":std", f"{tag}: uncalibrated std is not c times the reference ({realruns.rel(std_s, c * std_r):.2e})", {})
                    else:
                        if realruns.rel(std_s, std_r) > 1e-7:
                            rep.violation(key + ":std", f"{tag}: calibrated std changed ({realruns.rel(std_s, std_r):.2e})", {})
                        if realruns.rel(sc_s * c, sc_r) > 1e-9:
                            rep.violation(key + ":scale", f"{tag}: estimated scale is not the reference divided by c ({realruns.rel(sc_s * c, sc_r):.2e})", {})


def run(tier: str, seed: int) -> int:
    rep = Report("C04", tier, seed)
    rep.rule = (
        "a case is one (history, calibration mode, strategy, driver) run of the real code on the tracing SSM validated by "
        "TLC (exact rational check of the reported scale), or one equivariance replay (problem, SSM, mode, c = 2^k) on a real "
        "SSM; distinct = distinct configuration + accepted step sequence / replay tuple; non-trivial = at least two accepted steps"
    )
    l1common.run_plan(rep, _plan(tier), seed, "calibration")
    _equivariance(rep, tier)
    rep.assumptions = [
        "scripted residual RMS values make the quasi-MLE an exact rational; the numerical value of a whitened residual RMS is decided under C08",
        "equivariance replays use powers of two (exact in floating point) and compare at 1e-7..1e-9",
    ]
    return rep.finish()
