"""C12 - marginal-likelihood losses equal the exact Gaussian log-density of the data.

TLC: MarkovSeqExact.tla: joint mean/covariance of the backward Markov sequence, covariance of the observed coordinates
plus noise, its determinant and the Mahalanobis form as exact rationals (law: symmetric joint).
bind: loss_lml_timeseries (sum and time-average) and loss_lml_terminal_values on MarkovSequences built from the integer
pieces for the dense / isotropic / block-diagonal models, compared
with -1/2 maha - 1/2 log det - k/2 log 2 pi.
"""

from __future__ import annotations

import random

import jax
import jax.numpy as jnp
import numpy as np

from harness import exact, markov
from checks import l1common
from harness.report import Report
from probdiffeq import probdiffeq as pdq
from probdiffeq._probdiffeq import estimators_and_losses as eal


def run(tier: str, seed: int) -> int:
    rep = Report("C12", tier, seed)
    rep.rule = (
        "a case is one integer Markov sequence (2-3 output times, n <= 2 coefficients, d <= 2, observed coefficient index, "
        "per-time / per-dimension noise, data) x factorisation x loss variant; distinct = distinct instance; non-trivial = K >= 1"
    )
    rng = random.Random(5000 + seed)
    n_per = 25 if tier == "quick" else 200
    insts = []
    for kind in ("dense", "iso", "bd"):
        for j in range(n_per):
            # dense: every other terminal-value instance and every fourth time series has cross-dimension coupling for sure
            insts.append(markov.make_instance(rng, kind, K=(0 if j % 5 == 0 else None), zero_init=(j % 7 == 3), force_full=(kind == "dense" and j % 4 in (0, 2))))
    res, dropped, st, gen, fail = exact.eval_instances("MarkovSeqExact", [markov.tla_instance(i) for i in insts], invariants=["CheckAndPrint"], batch=10)
    rep.states += st
    rep.transitions += gen
    if fail is not None:
        rep.violation(f"spec:MarkovSeqExact:{fail[0].violated}", "law violated", {"tlc_tail": fail[0].stdout[-2000:]})
    rep.extra["instances_dropped_for_32bit_overflow"] = len(dropped)
    for j, inst in enumerate(insts):
        if j not in res:
            continue
        if j % 50 == 49:
            jax.clear_caches()  # long runs exhaust the process' memory mappings with compiled executables otherwise
        E = res[j]
        if float(E["det"]) <= 0:
            continue
        marg, mseq = markov.build(inst)
        u, std = markov.loss_inputs(inst)
        want = markov.expected_logpdf(E, inst)
        kind, K = inst["kind"], inst["K"]
        rep.traces += 1
        rep.add_case((kind, j) if K >= 1 else None)
        rep.sample({k: (str(v) if k in ("blocks",) else v) for k, v in inst.items() if k not in ("blocks",)} | {"expected": want}, cap=5)

        def cmp(name, got, want_):
            got = float(got)
            if not (abs(got - want_) <= 1e-9 * max(1.0, abs(want_))):
                rep.violation(f"impl:{name}:{kind}", f"{kind} K={K} n={inst['n']} d={inst['d']} idx={inst['idx']} avg={inst['average']}: {name} = {got!r}, exact log-density = {want_!r}",
                              {"instance": {k: str(v) for k, v in inst.items()}})

        if K == 0:
            loss = pdq.loss_lml_terminal_values(tcoeff_index=inst["idx"])
            cmp("loss_lml_terminal_values", loss(u[0], marginals=marg, std=std[0]), want)
        else:
            loss = pdq.loss_lml_timeseries(average_pdfs=inst["average"], tcoeff_index=inst["idx"])
            cmp("loss_lml_timeseries", loss(u, posterior=mseq, std=std), want)
            # terminal-value loss of the same sequence uses the terminal marginal only: checked on its own K = 0 instances
    # wiring: the posterior returned by the real solvers is scored term by term as the chain rule demands (TLC on the tracing SSM)
    l1common.run_consumers(rep, tier, seed, "lml", "lml-wiring")
    rep.assumptions = [
        "the dense embedding of isotropic / block-diagonal pieces is done by the harness (coefficient-major order, law checked under C08)",
        "observed joint covariance at most 4 x 4 (exact inverse by cofactors); entries small integers, scalings in {1/2, 1, 2}",
    ]
    return rep.finish()
