"""C13 - posterior samples are exact affine images of the normal draws.

TLC: MarkovSeqExact.tla: smoothing means at every output time and the joint covariance of the Markov sequence as exact
rationals (reverse sequences from integer pieces; forward prior sequences from the exact IWP transitions of IwpExact).
bind: MarkovSequence.sample with probdiffeq.backend.random.normal replaced by a table lookup keyed by the PRNG key:
all-zero draws must give the smoothing means, unit draws give the columns W of the linear map and W W^T must equal the
joint covariance; the key tree is recomputed with random.split (every draw uses a distinct leaf); sample shapes are
prepended; three factorisations; prior samples on a grid via MarkovSequence.from_grid.
"""

from __future__ import annotations

import random
from fractions import Fraction as F

import jax
import jax.numpy as jnp
import numpy as np

from harness import exact, markov, priors
from checks import l1common
from harness.report import Report
from probdiffeq import probdiffeq as pdq
from probdiffeq._probdiffeq import estimators_and_losses as eal


def _time_order_joint(E, K, N):
    """TLC's joint is in chain order (chain k = time K - k); reorder the blocks to time order"""
    J = exact.to_float(E["joint"])
    out = np.zeros_like(J)
    for a in range(K + 1):
        for b in range(K + 1):
            ca, cb = K - a, K - b
            out[a * N:(a + 1) * N, b * N:(b + 1) * N] = J[ca * N:(ca + 1) * N, cb * N:(cb + 1) * N]
    means = [exact.to_float(E["means"][K - j]) for j in range(K + 1)]
    return np.concatenate(means), out


def _linear_map(mseq_or_marg, K, n, d, key, table, reverse=True):
    """-> (sample with zero draws, W, problem) using prescribed base draws.

    The keys are not predicted: a first eager run records which key every draw is made with (any key discipline is
    fine as long as the K+1 draws use distinct keys); the prescribed draws are then looked up by key."""
    del reverse

    def sample_once():
        if K == 0:
            s = mseq_or_marg.sample_tree(key)
            return markov.flatten_sample([jnp.asarray(x)[None] for x in s], 0, n, d).reshape(-1)
        s = mseq_or_marg.sample(key)
        return markov.flatten_sample(s, K, n, d).reshape(-1)

    # phase 1: record the keys (eagerly, so that every draw inside the scan is a separate call with a concrete key)
    table.keys = jnp.zeros((1, 2), dtype=jnp.uint32)
    table.draws = jnp.zeros((1, 16))
    table.calls, table.seen_keys = [], []
    with jax.disable_jit():
        sample_once()
    sizes = [int(np.prod(c)) for c in table.calls]
    kd = np.stack([np.asarray(k, dtype=np.uint32) for k in table.seen_keys])
    if len(sizes) != K + 1:
        return None, None, f"{len(sizes)} base draws for {K + 1} time points"
    if len({tuple(r) for r in kd.tolist()}) != len(kd):
        return None, None, "two draws use the same key"
    if len(set(sizes)) != 1:
        return None, None, f"base draws of different sizes {sizes}"
    table.keys = jnp.asarray(kd)
    width = 16

    def run(draws):
        table.draws = jnp.asarray(draws)
        return sample_once()

    zero = np.zeros((K + 1, width))
    s0 = run(zero)
    cols = []
    for j in range(K + 1):
        for c in range(sizes[0]):
            dr = zero.copy()
            dr[j, c] = 1.0
            cols.append(run(dr) - s0)
    return s0, np.stack(cols, axis=1), None


def run(tier: str, seed: int) -> int:
    rep = Report("C13", tier, seed)
    rep.rule = (
        "a case is one integer Markov sequence x factorisation (posterior samples) or one prior-on-a-grid sequence; every case "
        "runs 1 + (K+1) * base-dimension sampling calls with prescribed draws; distinct = distinct instance; non-trivial = K >= 1"
    )
    rng = random.Random(6000 + seed)
    n_per = 12 if tier == "quick" else 80
    insts = []
    for kind in ("dense", "iso", "bd"):
        for j in range(n_per):
            inst = markov.make_instance(rng, kind, K=(0 if j % 6 == 0 else rng.randint(1, 2)))
            insts.append(inst)
    res, dropped, st, gen, fail = exact.eval_instances("MarkovSeqExact", [markov.tla_instance(i) for i in insts], invariants=["CheckAndPrint"], batch=8)
    rep.states += st
    rep.transitions += gen
    if fail is not None:
        rep.violation(f"spec:MarkovSeqExact:{fail[0].violated}", "law violated", {"tlc_tail": fail[0].stdout[-2000:]})
    table = markov.DrawTable()
    table.install()
    try:
        for j, inst in enumerate(insts):
            if j not in res:
                continue
            if j % 50 == 49:
                jax.clear_caches()  # long runs exhaust the process' memory mappings with compiled executables otherwise
            kind, K, n, d = inst["kind"], inst["K"], inst["n"], inst["d"]
            N = n * d
            mean_want, joint_want = _time_order_joint(res[j], K, N)
            marg, mseq = markov.build(inst)
            key = jax.random.PRNGKey(100 + j)
            s0, W, problem = _linear_map(mseq if K > 0 else marg, K, n, d, key, table)
            rep.traces += 1
            rep.add_case((kind, j) if K >= 1 else None)
            rep.sample({"kind": kind, "K": K, "n": n, "d": d, "base_draws_per_time": None if W is None else W.shape[1] // (K + 1)}, cap=6)
            info = {"instance": {k: str(v) for k, v in inst.items()}}
            if problem:
                rep.violation(f"impl:sample:{kind}:keys", f"{kind} K={K}: {problem}", info)
                continue
            if not exact.close(s0, mean_want, 1e-9):
                rep.violation(f"impl:sample:{kind}:zero-draws-are-not-the-smoothing-means", f"{kind} K={K} n={n} d={d}: relerr {exact.maxerr(s0, mean_want):.2e}", info)
            if not exact.close(W @ W.T, joint_want, 1e-9):
                rep.violation(f"impl:sample:{kind}:gram-of-the-linear-map-is-not-the-joint-covariance",
                              f"{kind} K={K} n={n} d={d}: relerr {exact.maxerr(W @ W.T, joint_want):.2e}; base draws per time point: {W.shape[1] // (K + 1)}", info)
    finally:
        table.uninstall()

    # sample shapes are prepended; different keys give different samples (unpatched generator)
    for kind in ("dense", "iso", "bd"):
        inst = markov.make_instance(random.Random(1), kind, K=2, n=2, d=2 if kind != "dense" else 1)
        marg, mseq = markov.build(inst)
        for shape in ((), (3,), (2, 3), (1,), (1, 1), (3, 1), (1, 2)):
            s = mseq.sample(jax.random.PRNGKey(7), shape=shape)
            shapes = {tuple(np.shape(x)) for x in jax.tree_util.tree_leaves(s)}
            rep.traces += 1
            rep.add_case(("shape", kind, shape))
            want = {tuple(shape) + (inst["K"] + 1, inst["d"])}
            if shapes != want:
                rep.violation(f"impl:sample:{kind}:shape", f"{kind}: sample(shape={shape}) leaves have shapes {shapes}, expected {want}", {})
            if shape and shapes == want:
                flat = np.asarray(jax.tree_util.tree_leaves(s)[0]).reshape(int(np.prod(shape)), -1)
                if len({tuple(np.round(r, 12)) for r in flat}) != flat.shape[0]:
                    rep.violation(f"impl:sample:{kind}:batch-members-share-draws", f"{kind}: samples of a batch are not distinct", {})

    # prior samples on a grid: forward sequences with the exact IWP transitions (two-stage: IwpExact -> MarkovSeqExact)
    _prior_grid(rep, tier, rng, table)
    rep.extra["instances_dropped_for_32bit_overflow"] = len(dropped)
    # wiring: samples of the solvers' posterior follow the stored backward chain, every draw with its own key (TLC on the tracing SSM)
    l1common.run_consumers(rep, tier, seed, "sample", "sample-wiring")
    rep.assumptions = [
        "base draws are injected by replacing probdiffeq.backend.random.normal in the harness process (table lookup keyed by the PRNG key)",
        "the dense embedding of isotropic / block-diagonal pieces is done by the harness (coefficient-major order, law checked under C08)",
    ]
    return rep.finish()


def _prior_grid(rep, tier, rng, table):
    cases = [("dense", 1, 2, [F(1, 2), F(1)]), ("iso", 1, 2, [F(1), F(1, 2)]), ("bd", 1, 1, [F(2), F(1, 2)]), ("dense", 2, 1, [F(1), F(1)])]
    # decreasing grids (the priors support negative steps: noise factor sqrt(abs(dt)), signed preconditioner): zero
    # draws must reproduce the prior means A(h) m with the polynomial A(h) of IwpExact at negative h
    cases += [("iso", 1, 2, [F(-1, 2), F(-1)]), ("dense", 1, 2, [F(-1), F(-1, 2)]), ("bd", 1, 2, [F(-1, 2), F(-2)])]
    if tier == "thorough":
        cases += [("iso", 2, 2, [F(1, 2), F(1, 2)]), ("bd", 2, 2, [F(1), F(2)]), ("dense", 1, 1, [F(1, 2), F(2), F(1)]),
                  ("iso", 2, 2, [F(-1, 2), F(-1, 2)]), ("bd", 2, 1, [F(-1), F(-1, 2)]), ("dense", 2, 1, [F(-1), F(-1)])]
    for kind, q, d, hs in cases:
        n = q + 1
        lam = [F(1)] * d
        # stage 1: exact transitions from IwpExact
        iw = [dict(kind=kind, q=q, d=d, h1=h, h2=h, sigma=F(1), lam=lam) for h in hs]
        r1, _, st, gen, _ = exact.eval_instances("IwpExact", [priors.iwp_tla(i) for i in iw], invariants=["CheckAndPrint"], batch=4)
        rep.states += st
        rep.transitions += gen
        if len(r1) != len(iw):
            continue
        N = n * d
        eps = F(1, 2)  # inexact initial condition so that the initial marginal has a covariance
        def signed(Q, h):
            return Q if h > 0 else [[-x for x in row] for row in Q]

        conds = [dict(A=r1[k]["A_h1"], b=[F(0)] * N, LQ=[[F(0)]], tl=[F(1)] * N, to=[F(1)] * N, useQd=True, Qd=signed(r1[k]["Q_h1"], hs[k])) for k in range(len(hs))]
        m0 = [F(rng.randint(-2, 2)) for _ in range(N)]
        inst = exact.ratify(dict(m=m0, LP=[[eps if a == b else F(0) for b in range(N)] for a in range(N)], conds=conds,
                                 H=[[F(1) if c == 0 else F(0) for c in range(N)]], noise=[[F(1)]] * (len(hs) + 1), data=[[F(0)]] * (len(hs) + 1)))
        r2, _, st, gen, _ = exact.eval_instances("MarkovSeqExact", [inst], invariants=["CheckAndPrint"], batch=1)
        rep.states += st
        rep.transitions += gen
        if 0 not in r2:
            continue
        K = len(hs)
        means = np.concatenate([exact.to_float(v) for v in r2[0]["means"]])  # forward: chain order = time order
        joint = exact.to_float(r2[0]["joint"])
        ssm = priors._ssm(kind)
        tcoeffs = [jnp.asarray([float(m0[i * d + a]) for a in range(d)]) for i in range(n)]
        prior = ssm.prior_wiener_integrated(tcoeffs, is_exact=False, inexact_eps=float(eps))
        grid = jnp.asarray(np.concatenate([[0.0], np.cumsum([float(h) for h in hs])]))
        mseq = eal.MarkovSequence.from_grid(prior, grid=grid, reverse=False)
        table.install()
        try:
            s0, W, problem = _linear_map(mseq, K, n, d, jax.random.PRNGKey(3), table, reverse=False)
        finally:
            table.uninstall()
        rep.traces += 1
        rep.add_case(("prior-grid", kind, q, d, tuple(hs)))
        if problem:
            rep.violation(f"impl:from_grid:{kind}:keys", problem, {})
            continue
        if not exact.close(s0, means, 1e-9):
            rep.violation(f"impl:from_grid:{kind}:zero-draws-are-not-the-prior-means", f"{kind} q={q} d={d}: relerr {exact.maxerr(s0, means):.2e}", {})
        # backward steps: the library scales Cholesky factors with abs(preconditioner) in all three models, so the
        # cross-covariances between even and odd coefficients keep the sign of the forward process; the properties
        # quantify over h > 0 / positive scalings only (DESIGN.md 11.3, observations), so only the mean map is held
        # to the exact model on decreasing grids
        if all(h > 0 for h in hs) and not exact.close(W @ W.T, joint, 1e-9):
            rep.violation(f"impl:from_grid:{kind}:gram-of-the-linear-map-is-not-the-joint-prior-covariance", f"{kind} q={q} d={d}: relerr {exact.maxerr(W @ W.T, joint):.2e}", {})
