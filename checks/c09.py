"""C09 - prior transitions are the exact discretisation of their SDE and compose.

TLC: IwpExact.tla (Taylor/Pascal transition, Hilbert-type process noise; semigroup, Chapman-Kolmogorov,
linearity, integral definition) and ExpGramExact.tla (nilpotent drifts: finite sums for expm and the Gramian;
Lyapunov identity, semigroup, Chapman-Kolmogorov), evaluated exactly on every instance.
OuExact.tla (integrated OU with scalar rates: spectral projector + nilpotent part, exact up to scalar exponential integrals),
MaternExact.tla (drift = companion matrix of (s+z)^D over all D = given + diffuse coefficients; F = N - zI with N nilpotent,
so transition and Gramian are exact rational matrices times two scalar transcendental factors).
bind: Wiener priors of the three factorisations, dense exponential / integrated-OU / Matern priors (with and without
diffuse derivatives), and gram_util.exp_gram_cholesky with all five Pade/Legendre orders in float64 and float32.
"""

from __future__ import annotations

import random

from harness import exact, matern, priors
from harness.report import Report


def _relief(j, every=15):
    """every replayed instance compiles a handful of fresh XLA executables; a long run exhausts the process' memory
    mappings (LLVM: 'Cannot allocate memory', then a segmentation fault) unless the compilation caches are dropped"""
    if j % every == 0:
        import jax

        jax.clear_caches()


def run(tier: str, seed: int) -> int:
    rep = Report("C09", tier, seed)
    rep.rule = (
        "a case is one (prior family, order/shape, step sizes, scales) instance replayed into one implementation; "
        "distinct = distinct instance x implementation; non-trivial = q >= 1 (IWP) or n >= 3 (exponential)"
    )
    rng = random.Random(2000 + seed)
    n_iwp = 14 if tier == "quick" else 120
    n_mat = 14 if tier == "quick" else 120
    n_pri = 14 if tier == "quick" else 100

    # ---- integrated Wiener process
    iw = []
    for kind in ("dense", "iso", "bd"):
        for q in range(0, 6 if tier == "quick" else 7):
            iw.append(priors.iwp_instance(rng, kind, q=q))
        for _ in range(n_iwp - 6):
            iw.append(priors.iwp_instance(rng, kind))
    res, dropped, st, gen, fail = exact.eval_instances("IwpExact", [priors.iwp_tla(i) for i in iw], invariants=["CheckAndPrint"], batch=8)
    rep.states += st
    rep.transitions += gen
    ndrop = len(dropped)
    if fail is not None:
        rep.violation(f"spec:IwpExact:{fail[0].violated}", "IwpExact law violated", {"tlc_tail": fail[0].stdout[-3000:]})
    for j, inst in enumerate(iw):
        if j not in res:
            continue
        _relief(j)
        bad = priors.check_iwp(inst, res[j])
        rep.traces += 1
        rep.add_case(("iwp", j) if inst["q"] >= 1 else None)
        rep.sample({"family": "iwp", **{k: str(v) for k, v in inst.items()}})
        for op, detail in bad:
            rep.violation(f"impl:iwp:{inst['kind']}:{op}", f"IWP {inst['kind']} q={inst['q']} d={inst['d']} h1={inst['h1']} h2={inst['h2']}: {op} {detail}", {"instance": {k: str(v) for k, v in inst.items()}})

    # ---- nilpotent exponentials: gram_util directly and through the dense exponential priors
    mats = [priors.nilpotent_instance(rng) for _ in range(n_mat)] + [priors.nilpotent_instance(rng, n=5) for _ in range(2 if tier == "quick" else 20)]
    pris = [priors.expprior_instance(rng) for _ in range(n_pri)]
    allm = mats + pris
    res, dropped, st, gen, fail = exact.eval_instances("ExpGramExact", [priors.expgram_tla(i) for i in allm], invariants=["CheckAndPrint"], batch=6)
    rep.states += st
    rep.transitions += gen
    ndrop += len(dropped)
    if fail is not None:
        rep.violation(f"spec:ExpGramExact:{fail[0].violated}", "ExpGramExact law violated", {"tlc_tail": fail[0].stdout[-3000:]})
    for j, inst in enumerate(allm):
        if j not in res:
            continue
        _relief(j)
        if inst["type"] == "matrix":
            bad = priors.check_expgram_matrix(inst, res[j])
            fam = "gram_util"
        else:
            bad = priors.check_expprior(inst, res[j])
            fam = "exp_prior"
        rep.traces += 1
        rep.add_case((fam, j) if inst["n"] * inst.get("d", 1) >= 3 else None)
        rep.sample({"family": fam, **{k: str(v) for k, v in inst.items()}}, cap=8)
        for op, detail in bad:
            rep.violation(f"impl:{fam}:{op}", f"{fam} n={inst['n']}: {op} {detail}", {"instance": {k: str(v) for k, v in inst.items()}})
    # ---- Matern priors (rate z = sqrt(2 nu)/length_scale rational, D = given + diffuse coefficients)
    n_mt = 10 if tier == "quick" else 80
    mts = [matern.instance(rng, D=D) for D in (1, 2, 3, 4)] + [matern.instance(rng) for _ in range(n_mt - 4)]
    res, dropped, st, gen, fail = exact.eval_instances("MaternExact", [matern.to_tla(i) for i in mts], invariants=["CheckAndPrint"], batch=6)
    rep.states += st
    rep.transitions += gen
    ndrop += len(dropped)
    if fail is not None:
        rep.violation(f"spec:MaternExact:{fail[0].violated}", "MaternExact law violated", {"tlc_tail": fail[0].stdout[-3000:]})
    for j, inst in enumerate(mts):
        if j not in res:
            continue
        _relief(j)
        try:
            bad = matern.check(inst, res[j])
        except Exception as e:  # raised inside the library on a legal configuration
            bad = [("exception", f"{type(e).__name__}: {str(e)[:200]}")]
        rep.traces += 1
        rep.add_case(("matern", j) if inst["D"] >= 2 else None)
        rep.sample({"family": "matern", **{k: str(v) for k, v in inst.items()}}, cap=10)
        for op, detail in bad:
            rep.violation(f"impl:matern:{op}", f"Matern prior: {op} {detail}", {"instance": {k: str(v) for k, v in inst.items()}})
    # ---- integrated Ornstein-Uhlenbeck priors with scalar rates (one exact instance per dimension: each has its own rate)
    n_ou = 8 if tier == "quick" else 60
    ous = [matern.ou_instance(rng, n=n) for n in (2, 3, 4)] + [matern.ou_instance(rng) for _ in range(n_ou - 3)]
    flat, owner = [], []
    for k, inst in enumerate(ous):
        for t in matern.ou_tla(inst):
            flat.append(t)
            owner.append(k)
    res, dropped, st, gen, fail = exact.eval_instances("OuExact", flat, invariants=["CheckAndPrint"], batch=8)
    rep.states += st
    rep.transitions += gen
    ndrop += len(dropped)
    if fail is not None:
        rep.violation(f"spec:OuExact:{fail[0].violated}", "OuExact law violated", {"tlc_tail": fail[0].stdout[-3000:]})
    for k, inst in enumerate(ous):
        js = [j for j, o in enumerate(owner) if o == k]
        if not all(j in res for j in js):
            continue
        _relief(k)
        try:
            bad = matern.ou_check(inst, [res[j] for j in js])
        except Exception as e:  # raised inside the library on a legal configuration
            bad = [("exception", f"{type(e).__name__}: {str(e)[:200]}")]
        rep.traces += 1
        rep.add_case(("ou", k))
        rep.sample({"family": "integrated-ou", **{x: str(v) for x, v in inst.items()}}, cap=12)
        for op, detail in bad:
            rep.violation(f"impl:ou:{op}", f"integrated OU prior: {op} {detail}", {"instance": {x: str(v) for x, v in inst.items()}})
    rep.extra["instances_dropped_for_32bit_overflow"] = ndrop
    rep.assumptions = [
        "general drift matrices with non-zero spectrum (OU with a non-diagonal, non-nilpotent rate matrix) have transcendental transitions and are not modelled; scalar / per-dimension OU rates are (OuExact.tla); nilpotent drifts exercise the same code path (scaling, Pade, Legendre, doubling); the Matern drift is a scalar shift of a nilpotent matrix and is modelled exactly up to two scalar factors (exp, regularised incomplete gamma from scipy)",
        "float64 compared at 1e-9 (priors) / 1e-11 (gram_util), float32 at 2e-4",
    ]
    return rep.finish()
