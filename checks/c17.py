"""C17 - Jacobian handlers return exact or exactly-unbiased Jacobian blocks.

TLC: Hutchinson.tla on integer polynomial maps (n_in, d) -> (n_out, d): exact value, dense Jacobian, diagonal blocks
(d, n_out, n_in), trace along d (n_out, n_in); per-probe forward / reverse estimates as the handlers compute them; laws:
mean over all 2^(n_in d) (forward) / 2^(n_out d) (reverse) sign tensors = exact blocks, trace = sum of diagonal blocks;
key machine (split paths) without key reuse for all call sequences up to length 5; input contract.
bind: jacobian_materialize, jacobian_monte_carlo_fwd, jacobian_monte_carlo_rev, all three entry points each; rademacher
replaced by the full enumeration (exact blocks), and call sequences on the real random numbers (key paths, mean over
the drawn probes), shape cases (rejections).
"""

from __future__ import annotations

import random

from harness import exact, tlc
from harness.report import Report

INVARIANTS = ["CheckAndPrint", "KeyMachineLaw"]


def shapes_for(tier, rng):
    """(n_in, n_out, d) with n d <= 6 (quick) / <= 8 and a few 2^9..2^12-probe cases (thorough); rectangular first"""
    lim = 6 if tier == "quick" else 8
    combos = [(ni, no, d) for d in (1, 2, 3) for ni in range(1, 5) for no in range(1, 5) if ni * d <= lim and no * d <= lim]
    rect = [c for c in combos if c[0] != c[1]]
    square = [c for c in combos if c[0] == c[1]]
    if tier == "quick":
        return rect + square
    out = []
    for _ in range(6):
        out += rect + square
    # the corners of the property's quantifier (n <= 4, d <= 3): 512 / 4096 enumerated probes on one side
    out += [(3, 1, 3), (1, 3, 3), (3, 2, 3), (2, 3, 3), (3, 3, 3), (4, 1, 3), (1, 4, 3), (4, 2, 3), (2, 4, 3), (4, 3, 3), (3, 4, 3), (4, 4, 3)]
    return out


def _evaluate(insts, hutch, batch):
    res, dropped, st, gen, fail = exact.eval_instances("Hutchinson", [hutch.to_tla(i) for i in insts], invariants=INVARIANTS, batch=batch, timeout_s=1500, parallel=12)
    return res, dropped, st, gen, fail


def _replay_job(job):
    from harness import hutch

    return hutch.check_instance(*job)


def _replay_all(jobs):
    import concurrent.futures as cf
    import multiprocessing as mp
    import os

    nproc = int(os.environ.get("VERIF_PROCS", min(12, os.cpu_count() or 1)))
    if nproc <= 1 or len(jobs) <= 2:
        return [_replay_job(j) for j in jobs]
    # largest enumerations first (they take longest)
    order = sorted(range(len(jobs)), key=lambda k: -max(jobs[k][0]["nin"], jobs[k][0]["nout"]) * jobs[k][0]["d"])
    out = [None] * len(jobs)
    with cf.ProcessPoolExecutor(max_workers=nproc, mp_context=mp.get_context("spawn")) as ex:
        for k, bad in zip(order, ex.map(_replay_job, [jobs[k] for k in order])):
            out[k] = bad
    return out


def _jsonable(inst):
    return {k: v for k, v in inst.items()}


def run(tier: str, seed: int) -> int:
    from harness import hutch
    import numpy as np

    rep = Report("C17", tier, seed)
    rep.rule = (
        "a case is one polynomial map (shape, coefficient tables, evaluation point, call sequence, shape cases) replayed into "
        "the three handlers x three entry points; distinct = distinct instance; non-trivial = rectangular (n_in != n_out) or d >= 2"
    )
    rng = random.Random(1700 + seed)
    shp = shapes_for(tier, rng)
    insts = [hutch.instance(rng, ni, no, d, n_calls=3 if tier == "quick" else 4, n_shapes=3 if tier == "quick" else 4) for (ni, no, d) in shp]
    # big enumerations last and in batches of their own (TLC time is dominated by them)
    small = [j for j, s in enumerate(shp) if max(s[0], s[1]) * s[2] <= 8]
    big = [j for j, s in enumerate(shp) if max(s[0], s[1]) * s[2] > 8]
    res = {}
    ndrop = 0
    for idxs, batch in ((small, 6 if tier == "quick" else 12), (big, 1)):
        if not idxs:
            continue
        r, dropped, st, gen, fail = _evaluate([insts[j] for j in idxs], hutch, batch)
        rep.states += st
        rep.transitions += gen
        ndrop += len(dropped)
        if fail is not None:
            rep.violation(f"spec:Hutchinson:{fail[0].violated}", "Hutchinson law violated", {"tlc_tail": fail[0].stdout[-3000:]})
        for k, v in r.items():
            res[idxs[k]] = v

    n_rect = 0
    todo = [j for j in range(len(insts)) if j in res]
    for j in todo:
        # machinery cross-check: TLC's polynomial value / Jacobian against plain integer arithmetic
        fx_py, J_py = hutch.python_jacobian(insts[j])
        if not (np.array_equal(fx_py, exact.to_float(res[j]["fx"])) and np.array_equal(J_py, exact.to_float(res[j]["dense"]))):
            raise tlc.MachineryError(f"Hutchinson.tla and the harness disagree on the polynomial of instance {j}")
    # replay into the implementation: op-by-op XLA compilation dominates (every instance has new shapes), so
    # the instances are spread over worker processes
    bads = _replay_all([(insts[j], res[j]) for j in todo])
    for j, bad in zip(todo, bads):
        inst = insts[j]
        rep.traces += 1
        nontrivial = inst["nin"] != inst["nout"] or inst["d"] >= 2
        n_rect += inst["nin"] != inst["nout"]
        rep.add_case(("map", j) if nontrivial else None)
        rep.sample({k: inst[k] for k in ("nin", "nout", "d", "x", "monos", "seed", "num_probes", "jit")} | {"calls": [c["kind"] for c in inst["calls"]], "shapes": inst["shapes"]}, cap=4)
        for hname, entry, q, detail in bad:
            cls = "rect" if inst["nin"] != inst["nout"] else "square"
            rep.violation(
                f"impl:{hname}.{entry}:{q}",
                f"{hname}.{entry} {q} ({cls} n_in={inst['nin']} n_out={inst['nout']} d={inst['d']}): {detail}",
                {"instance": _jsonable(inst)},
            )
    rep.extra["instances_dropped_for_32bit_overflow"] = ndrop
    rep.extra["rectangular_instances"] = int(n_rect)
    rep.extra["max_enumerated_probes"] = max(2 ** (max(s[0], s[1]) * s[2]) for s in shp)
    rep.extra["handlers_x_entry_points"] = 9
    rep.assumptions = [
        "maps are integer polynomials of degree <= 3 evaluated at integer points (a Jacobian handler sees a map only through its value and derivative at the point); values and estimates are integers / dyadic in float64, compared at 1e-12",
        "distinct split paths give distinct keys (checked bitwise on the replayed call sequences, assumed for jax.random in general)",
        "quick: n d <= 6 (64 probes); thorough: n d <= 8 plus the corners up to n = 4, d = 3 (4096 probes); the quantifier's d = 4 is not enumerated",
        "any exception counts as a rejection of a malformed input; accepted inputs must return",
    ]
    return rep.finish()


def replay(rep_obj) -> int:
    """re-evaluate the stored instance with TLC and replay it into the handlers; 1 if it still diverges"""
    from harness import hutch

    print(rep_obj.get("what"))
    inst = (rep_obj.get("replay") or {}).get("instance")
    if inst is None:
        print((rep_obj.get("replay") or {}).get("tlc_tail", ""))
        return 1
    res, _dropped, _st, _gen, fail = _evaluate([inst], hutch, 1)
    if fail is not None:
        print(fail[0].stdout[-3000:])
        return 1
    bad = hutch.check_instance(inst, res[0])
    for hname, entry, q, detail in bad:
        print(f"  impl:{hname}.{entry}:{q}: {detail}")
    return 1 if bad else 0
