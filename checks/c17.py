"""C17 - Jacobian handlers return exact or exactly-unbiased Jacobian blocks.

TLC: Hutchinson.tla on integer polynomial maps (n_in, d) -> (n_out, d): exact value, dense Jacobian, diagonal blocks
(d, n_out, n_in), trace along d (n_out, n_in); per-probe forward / reverse estimates as the handlers compute them; laws:
mean over all 2^(n_in d) (forward) / 2^(n_out d) (reverse) sign tensors = exact blocks, trace = sum of diagonal blocks;
key machine (split paths) without key reuse for all call sequences up to length 5; input contract.
bind: jacobian_materialize, jacobian_monte_carlo_fwd, jacobian_monte_carlo_rev, all three entry points each; rademacher
replaced by the full enumeration (exact blocks), and call sequences on the real random numbers (key paths, mean over
the drawn probes), shape cases (rejections).
"""

from __future__ import annotations

import random

from harness import exact, tlc
from harness.report import Report

INVARIANTS = ["CheckAndPrint", "KeyMachineLaw"]


def shapes_for(tier, rng):
    """(n_in, n_out, d), n <= 4, d <= 4 (the property's quantifier); bits = max(n_in, n_out) d = log2 of the enumeration"""
    combos = [(ni, no, d) for d in (1, 2, 3, 4) for ni in range(1, 5) for no in range(1, 5)]
    bits = lambda c: max(c[0], c[1]) * c[2]  # noqa: E731
    small = [c for c in combos if bits(c) <= 8]  # 40 shapes, 24 of them rectangular, <= 256 probes
    small = [c for c in small if c[0] != c[1]] + [c for c in small if c[0] == c[1]]
    if tier == "quick":
        return small + [(4, 2, 3), (2, 3, 4)]  # two 4096-probe cases
    out = []
    for _ in range(7):
        out += small
    # every remaining shape of the quantifier once: 2^9 .. 2^12 probes, and the seven 2^16-probe shapes (n = d = 4)
    out += [c for c in combos if bits(c) > 8]
    return out


def _evaluate(insts, hutch, batch):
    res, dropped, st, gen, fail = exact.eval_instances("Hutchinson", [hutch.to_tla(i) for i in insts], invariants=INVARIANTS, batch=batch, timeout_s=1500, parallel=12)
    return res, dropped, st, gen, fail


def _replay_job(job):
    from harness import hutch

    stats = {}
    bad = hutch.check_instance(*job, stats=stats)
    return bad, stats


def _replay_all(jobs):
    import concurrent.futures as cf
    import multiprocessing as mp
    import os

    nproc = int(os.environ.get("VERIF_PROCS", min(12, os.cpu_count() or 1)))
    if nproc <= 1 or len(jobs) <= 2:
        return [_replay_job(j) for j in jobs]
    # largest enumerations first (they take longest)
    order = sorted(range(len(jobs)), key=lambda k: -max(jobs[k][0]["nin"], jobs[k][0]["nout"]) * jobs[k][0]["d"])
    out = [None] * len(jobs)
    with cf.ProcessPoolExecutor(max_workers=nproc, mp_context=mp.get_context("spawn")) as ex:
        for k, bad in zip(order, ex.map(_replay_job, [jobs[k] for k in order])):
            out[k] = bad
    return out


def _jsonable(inst):
    return {k: v for k, v in inst.items()}


def run(tier: str, seed: int) -> int:
    from harness import hutch
    import numpy as np

    rep = Report("C17", tier, seed)
    rep.rule = (
        "a case is one polynomial map (shape, coefficient tables, evaluation point, call sequence, shape cases) replayed into "
        "the three handlers x three entry points; distinct = distinct instance; non-trivial = rectangular (n_in != n_out) or d >= 2"
    )
    rng = random.Random(1700 + seed)
    shp = shapes_for(tier, rng)
    insts = [hutch.instance(rng, ni, no, d, n_calls=3 if tier == "quick" else 4, n_shapes=3 if tier == "quick" else 4) for (ni, no, d) in shp]
    # big enumerations last and in batches of their own (TLC time is dominated by them)
    small = [j for j, s in enumerate(shp) if max(s[0], s[1]) * s[2] <= 8]
    big = sorted((j for j, s in enumerate(shp) if max(s[0], s[1]) * s[2] > 8), key=lambda j: -max(shp[j][0], shp[j][1]) * shp[j][2])
    res = {}
    ndrop = 0
    for idxs, batch in ((big, 1), (small, 5 if tier == "quick" else 12)):
        if not idxs:
            continue
        r, dropped, st, gen, fail = _evaluate([insts[j] for j in idxs], hutch, batch)
        rep.states += st
        rep.transitions += gen
        ndrop += len(dropped)
        if fail is not None:
            rep.violation(f"spec:Hutchinson:{fail[0].violated}", "Hutchinson law violated", {"tlc_tail": fail[0].stdout[-3000:]})
        for k, v in r.items():
            res[idxs[k]] = v

    n_rect = 0
    todo = [j for j in range(len(insts)) if j in res]
    for j in todo:
        # machinery cross-check: TLC's polynomial value / Jacobian against plain integer arithmetic
        fx_py, J_py = hutch.python_jacobian(insts[j])
        if not (np.array_equal(fx_py, exact.to_float(res[j]["fx"])) and np.array_equal(J_py, exact.to_float(res[j]["dense"]))):
            raise tlc.MachineryError(f"Hutchinson.tla and the harness disagree on the polynomial of instance {j}")
    # replay into the implementation: op-by-op XLA compilation dominates (every instance has new shapes), so
    # the instances are spread over worker processes
    bads = _replay_all([(insts[j], res[j]) for j in todo])
    totals = {}
    for j, (bad, stats) in zip(todo, bads):
        inst = insts[j]
        for k, v in stats.items():
            totals[k] = totals.get(k, 0) + v
        rep.traces += 1
        nontrivial = inst["nin"] != inst["nout"] or inst["d"] >= 2
        n_rect += inst["nin"] != inst["nout"]
        rep.add_case(("map", j) if nontrivial else None)
        rep.sample({k: inst[k] for k in ("nin", "nout", "d", "x", "monos", "seed", "num_probes", "jit")} | {"calls": [c["kind"] for c in inst["calls"]], "shapes": inst["shapes"]}, cap=4)
        for hname, entry, q, detail in bad:
            cls = "rect" if inst["nin"] != inst["nout"] else "square"
            rep.violation(
                f"impl:{hname}.{entry}:{q}",
                f"{hname}.{entry} {q} ({cls} n_in={inst['nin']} n_out={inst['nout']} d={inst['d']}): {detail}",
                {"instance": _jsonable(inst)},
            )
    rep.extra["instances_dropped_for_32bit_overflow"] = ndrop
    rep.extra["rectangular_instances"] = int(n_rect)
    rep.extra["max_enumerated_probes"] = max(2 ** (max(s[0], s[1]) * s[2]) for s in shp)
    rep.extra["handlers_x_entry_points"] = 9
    rep.extra["sign_tensors_enumerated_by_tlc"] = sum(2 ** (insts[j]["nin"] * insts[j]["d"]) + 2 ** (insts[j]["nout"] * insts[j]["d"]) for j in todo)
    rep.extra["key_machine_call_sequences_checked_by_tlc"] = sum(3**n for n in range(6))  # KeyMachineLaw, all sequences up to length 5
    rep.extra["implementation_calls"] = totals
    rep.assumptions = [
        "maps are integer polynomials of degree <= 3 evaluated at integer points (a Jacobian handler sees a map only through its value and derivative at the point); values and estimates are integers / dyadic in float64, compared at 1e-12",
        "distinct split paths give distinct keys (checked bitwise on the replayed call sequences, assumed for jax.random in general)",
        "quick: every shape with max(n_in, n_out) d <= 8 once plus two 4096-probe shapes; thorough: those seven times with fresh coefficients and every other shape of n_in, n_out, d <= 4 once (up to 2^16 enumerated probes)",
        "any exception counts as a rejection of a malformed input; accepted inputs must return",
    ]
    return rep.finish()


def replay(rep_obj) -> int:
    """re-evaluate the stored instance with TLC and replay it into the handlers; 1 if it still diverges"""
    from harness import hutch

    print(rep_obj.get("what"))
    inst = (rep_obj.get("replay") or {}).get("instance")
    if inst is None:
        print((rep_obj.get("replay") or {}).get("tlc_tail", ""))
        return 1
    res, _dropped, _st, _gen, fail = _evaluate([inst], hutch, 1)
    if fail is not None:
        print(fail[0].stdout[-3000:])
        return 1
    bad = hutch.check_instance(inst, res[0])
    for hname, entry, q, detail in bad:
        print(f"  impl:{hname}.{entry}:{q}: {detail}")
    return 1 if bad else 0
