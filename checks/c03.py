"""C03 - smoothing posterior equals the exact Rauch-Tung-Striebel posterior.

TLC: TraceProbSolver/GaussTerms: after finalisation every output marginal of a smoother must be the marginal at its
time given ALL data of the accepted steps, the stored conditionals must be the backward conditionals between
consecutive output times, the terminal marginal must be the filtering marginal when the last step ends at the final
time; fixed-interval and fixed-point runs are held to the same terms.
bind: operation logs of the real Smoother.finalize / predict / interpolate_* / solve_fixed_grid / adaptive drivers on
the tracing SSM (step histories from AdaptiveLoop behaviours) validated by TLC; relational replays on the real SSMs.
"""

from __future__ import annotations

import warnings
from fractions import Fraction as F

import jax.numpy as jnp
import numpy as np

from checks import l1common
from harness import l0, realruns
from harness.report import Report

SOLVERS_Q = ["solver", "mle", "dynamic"]
SOLVERS_T = ["solver", "mle", "mle_nocorr", "dynamic", "dynamic_relin"]


def _plan(tier):
    plan = []
    solvers = SOLVERS_Q if tier == "quick" else SOLVERS_T
    n = 4 if tier == "quick" else 25
    grids = ["uniform5", "nonuniform"] if tier == "quick" else list(l1common.GRIDS)
    for g in grids:
        for sv in solvers:
            for initc in (False, True):
                plan.append(dict(cfg=l1common.grid_cfg(l1common.GRIDS[g], g), solver=sv, strategy="fixedinterval", initc=initc, mode="fixed_grid", n=1,
                                 offgrid=(l0.u(F(3, 8)),) if not initc else ()))
    # adaptive save-every-step with the fixed-interval smoother: final step ends exactly at / beyond the final time
    for lay, ctrl, clip in [("sparse", "I_1", False), ("remainder", "I_1", True), ("mixed", "I_7_8", False)]:
        cfg = l0.make_config(lay, "flat", ctrl, clip, 1, mode="every_step", max_att=8)
        for sv in solvers[: 2 if tier == "quick" else None]:
            plan.append(dict(cfg=cfg, solver=sv, strategy="fixedinterval", initc=False, mode="every_step", n=n, offgrid=(l0.u(F(5, 8)),)))
    # fixed-point smoother with checkpoints
    for lay, prof, ctrl in [("ties", "flat", "I_1"), ("dense", "valley", "I_7_8"), ("mixed", "tight_then_loose", "I_1")]:
        cfg = l0.make_config(lay, prof, ctrl, False, 1, max_att=8)
        for sv in solvers:
            plan.append(dict(cfg=cfg, solver=sv, strategy="fixedpoint", initc=(sv == "mle"), mode="save_at", n=n))
    return plan


def _numeric(rep, tier):
    """relations on the real SSMs that follow from the term equalities"""
    combos = [("logistic", "dense", "ts1"), ("logistic", "iso", "ts0"), ("vdp2", "bd", "ts0")]
    if tier == "thorough":
        combos += [("logistic", "bd", "ts1"), ("vdp2", "dense", "ts1"), ("vdp2", "iso", "ts0"), ("logistic", "dense", "ts0")]
    grid = jnp.asarray([0.0, 0.25, 0.5, 1.0, 1.25, 2.0])
    for prob, ssm_name, ts in combos:
        for sv in ("solver", "mle", "dynamic"):
            ssm, ode, prior, constraint = realruns.setup(prob, ssm_name, 3 if prob == "logistic" else 2, ts=ts)
            sols = {}
            for strat in ("filter", "fixedinterval"):
                solver = realruns.make_solver(sv, strat, constraint)
                with warnings.catch_warnings():
                    warnings.simplefilter("ignore")
                    sols[strat] = realruns.ivpsolve.solve_fixed_grid(solver=solver)(prior, grid=grid)
            rep.traces += 1
            rep.add_case(("numeric", prob, ssm_name, ts, sv))
            fm, fs = realruns.flat(realruns.take(sols["filter"].u.mean, [-1])), realruns.flat(realruns.take(sols["filter"].u.std, [-1]))
            sm, ss = realruns.flat(realruns.take(sols["fixedinterval"].u.mean, [-1])), realruns.flat(realruns.take(sols["fixedinterval"].u.std, [-1]))
            # filter output of the MLE solver is calibrated with the same scale, so both comparisons are like for like
            if realruns.rel(sm, fm) > 1e-9 or realruns.rel(ss, fs) > 1e-7:
                rep.violation(f"impl:numeric:fixed_grid:fixedinterval:{sv}:terminal-marginal-is-not-filtering-marginal",
                              f"{prob}/{ssm_name}/{ts}: final smoothed mean/std differ from the filtering ones: {realruns.rel(sm, fm):.2e} / {realruns.rel(ss, fs):.2e}",
                              {"problem": prob, "ssm": ssm_name, "ts": ts, "solver": sv})
            allf = realruns.flat(sols["filter"].u.std)
            alls = realruns.flat(sols["fixedinterval"].u.std)
            if np.any(alls > allf * (1 + 1e-9) + 1e-14):
                rep.violation(f"impl:numeric:fixed_grid:fixedinterval:{sv}:smoothed-variance-exceeds-filtered",
                              f"{prob}/{ssm_name}/{ts}: max excess {float(np.max(alls - allf)):.2e}", {"problem": prob, "ssm": ssm_name, "ts": ts})
    # fixed-interval on the step grid == fixed-point at checkpoints (constant accepted steps of size 1/4)
    cfg = l0.make_config("mixed", "flat", "I_1", False, F(1, 4), max_att=20, epacc={F(1)}, eprej={F(1, 2)})
    beh = {"hist": [{"ev": "attempt", "from": {"t": l0.u(F(k, 4))}, "used": l0.u(F(1, 4)), "ep": [1, 1]} for k in range(16)]}
    step_grid = jnp.asarray([k / 4 for k in range(17)])
    ck = [c / l0.UNIT for c in cfg["Ckpts"]]
    idx = [int(round(c * 4)) for c in ck]
    for prob, ssm_name, ts in combos[:3]:
        for sv in ("solver", "mle", "dynamic"):
            ssm, ode, prior, constraint = realruns.setup(prob, ssm_name, 3 if prob == "logistic" else 2, ts=ts)
            fp = realruns.ScriptedRun(cfg, realruns.make_solver(sv, "fixedpoint", constraint))
            sol_fp, steps = fp.run(prior, beh)
            with warnings.catch_warnings():
                warnings.simplefilter("ignore")
                sol_fi = realruns.ivpsolve.solve_fixed_grid(solver=realruns.make_solver(sv, "fixedinterval", constraint))(prior, grid=step_grid)
            rep.traces += 1
            rep.add_case(("numeric-fp-vs-fi", prob, ssm_name, ts, sv))
            if [s["h"] for s in steps] != [l0.u(F(1, 4))] * 16:
                raise RuntimeError("scripted run did not take the scripted steps")
            m1, m2 = realruns.flat(sol_fp.u.mean), realruns.flat(realruns.take(sol_fi.u.mean, idx))
            s1, s2 = realruns.flat(sol_fp.u.std), realruns.flat(realruns.take(sol_fi.u.std, idx))
            if realruns.rel(m1, m2) > 1e-8 or realruns.rel(s1, s2) > 1e-6:
                rep.violation(f"impl:numeric:fixedpoint-vs-fixedinterval:{sv}",
                              f"{prob}/{ssm_name}/{ts}: checkpoint marginals differ: mean {realruns.rel(m1, m2):.2e}, std {realruns.rel(s1, s2):.2e}",
                              {"problem": prob, "ssm": ssm_name, "ts": ts, "solver": sv})


def run(tier: str, seed: int) -> int:
    rep = Report("C03", tier, seed)
    rep.rule = (
        "a case is one (step history, solver, smoother strategy, driver) run of the real code on the tracing SSM whose "
        "operation log TLC validated, or one relational replay on a real SSM; distinct = distinct (configuration, accepted "
        "step sequence); non-trivial = at least two accepted steps"
    )
    l1common.run_plan(rep, _plan(tier), seed, "smoother")
    _numeric(rep, tier)
    rep.assumptions = [
        "term equality stands for equality of distributions (GaussTerms normal forms: Chapman-Kolmogorov fusion, Markov property); the per-operation numerics are decided under C08/C09",
        "multi-step numerical agreement is by composition (L1 wiring + per-op exactness) plus the sampled relational replays",
    ]
    return rep.finish()
