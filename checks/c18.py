"""C18 - initial step-size proposals are positive, finite and follow the heuristics.

TLC: Dt0.tla.  (a) abstract-magnitude model of `dt0` and `dt0_adaptive` (classes zero/tiny/small/normal/huge/inf/nan,
float64 arithmetic as a relation on classes, both helpers branch by branch, every class tuple, rates 1..12): model
theorems + the property invariant PositiveFinite; (b) Hairer-Norsett-Wanner II.4 over exact rationals on scalar
polynomial instances (laws: positivity, guard value, h <= 100 h0, invariance under a change of units / time shift).
bind: class representatives through the real helpers (class tuple measured from what the wrapped vector field
returned; result class must be allowed by the model and positive finite), exact instances against
`dt0_adaptive(...)**(p+1)` (or the value) at 1e-9, a short adaptive solve from the proposals.
"""

from __future__ import annotations

import math
import random
from collections import Counter, defaultdict

from harness import dt0 as H
from harness import tlc
from harness.report import Report

SOLVE_TOL = 1e-3


def _bad_class_key(helper, desc, cls):
    return f"impl:{helper}:{desc}:returns-{cls}"


def _attempt_solve(run, u0, h):
    try:
        return H.solve_from(run, u0, h, atol=SOLVE_TOL, rtol=SOLVE_TOL)
    except Exception as e:  # a proposal must not make the solver raise either
        return False, {"raised": repr(e)[:200]}


def _solve_verdict(run, u0, h):
    """('ok' | 'fails' | 'unattributable', detail): 'fails' = the solve does not finish with finite output from the
    proposal although it does from a fixed reference step (so the proposal is to blame, not the problem)"""
    ok, det = _attempt_solve(run, u0, h)
    if ok:
        return "ok", det
    for ref in H.REFERENCE_STEPS:
        ok_ref, _ = _attempt_solve(run, u0, ref)
        if ok_ref:
            det["reference_step_that_works"] = ref
            return "fails", det
    return "unattributable", det


def run(tier: str, seed: int) -> int:
    rep = Report("C18", tier, seed)
    rep.rule = (
        "a case is one call of dt0 / dt0_adaptive on a class representative (state x vector field x tolerances x rate), "
        "one exact HNW instance, or one adaptive solve started from a proposal; distinct = distinct (helper, state, "
        "vector field, tolerances, rate) / instance; non-trivial = the state or f(u0) is not of class normal, or an exact "
        "instance whose step is not the 1e-6 guard"
    )
    rng = random.Random(1800 + seed)

    # ------------------------------------------------------------------ (a) abstract model
    model = H.abstract_model()
    rep.add_tlc(model["main"])
    for r in model["prop"].values():
        rep.add_tlc(r)
    if not model["main"].ok:
        rep.violation(f"spec:Dt0:{model['main'].violated}", "a theorem of the abstract-magnitude model fails", {"tlc_tail": model["main"].stdout[-3000:]})
    rel = model["rel"]
    if len(rel) != 25 + 400 + 140:
        raise tlc.MachineryError(f"expected 565 exported tuples, got {len(rel)}")
    predicted = defaultdict(set)
    for key, v in rel.items():
        # predictions that do not hinge on the extreme end of class "normal" or on a huge ||f1 - f0||
        if not v["ok"] and not v["ok_moderate"] and key[3] != "huge":
            predicted[(key[0], key[1], key[2])] |= v["res"] - H.POSFIN
    rep.extra["tlc_property_PositiveFinite"] = {
        h: {"violated": (not model["prop"][h].ok), "counterexample": model["cex"][h]} for h in ("dt0", "dt0_adaptive")
    }
    rep.extra["spec_transcribes"] = {"VERIF_C18_CODE": H._CODE, **H.CODE_CONSTS}
    rep.extra["model_tuples_exported"] = len(rel)
    rep.extra["model_tuples_violating_PositiveFinite"] = sum(1 for v in rel.values() if not v["ok"])

    n_arith, bad_arith = H.replay_arith(model["arith"])
    rep.traces += n_arith
    rep.evaluations += n_arith
    for op, c, d, x, y, got, allowed in bad_arith:
        rep.violation(f"model:arith:{op}:{c}:{d}", f"float64 {op}({x}, {y}) is of class {got}, the relation allows {allowed}", {"kind": "arith", "op": op, "x": x, "y": y})

    # ------------------------------------------------------------------ replay of class representatives
    tolerances = H.TOLERANCES_QUICK if tier == "quick" else H.TOLERANCES_THOROUGH
    rates = [1, 3, 12] if tier == "quick" else [1, 2, 3, 5, 8, 12]
    factory = H.SolveFactory()
    counts = Counter()
    confirmed = Counter()
    solve_stats = Counter()
    out_of_domain = 0

    for sname, kind, u0 in H.states(tier):
        for fname, (f, _zero_at_start) in H.vector_fields().items():
            base = {"kind": "representative", "state": sname, "vf": fname}
            proposals = []

            # ---- dt0
            h, cls = H.call_dt0(f, u0)
            rep.traces += 1
            key = ("dt0", cls["u0"], cls["f0"], "zero", "normal", "normal")
            trivial = cls["u0"] == "normal" and cls["f0"] == "normal"
            rep.add_case(None if trivial else ("dt0", sname, fname))
            rep.sample({"helper": "dt0", "state": sname, "vf": fname, "classes": cls, "result": h}, cap=6)
            if key in rel:
                got = H.classify(h) if h >= 0 or math.isnan(h) else "negative"
                if got not in rel[key]["res"]:
                    rep.violation(
                        f"conformance:dt0:{H.input_descriptor(cls['u0'], cls['f0'])}:class-{got}-not-in-model",
                        f"dt0 on {sname}, vf={fname} returned {h!r} ({got}); Dt0.tla allows {sorted(rel[key]['res'])} for {cls}",
                        dict(base, helper="dt0"),
                    )
                proposals.append(("dt0", h, got, cls, dict(base, helper="dt0")))
            else:
                out_of_domain += 1

            # ---- dt0_adaptive
            for atol, rtol in tolerances:
                for rate in rates:
                    h, cls = H.call_dt0_adaptive(f, u0, rate=rate, atol=atol, rtol=rtol)
                    rep.traces += 1
                    key = ("dt0_adaptive", cls["u0"], cls["f0"], cls["df"], cls["atol"], cls["rtol"])
                    trivial = cls["u0"] == "normal" and cls["f0"] == "normal"
                    rep.add_case(None if trivial else ("dt0_adaptive", sname, fname, atol, rtol, rate))
                    if key not in rel:
                        out_of_domain += 1
                        continue
                    got = H.classify(h) if h >= 0 or math.isnan(h) else "negative"
                    rp = dict(base, helper="dt0_adaptive", atol=atol, rtol=rtol, rate=rate)
                    if got not in rel[key]["byrate"][rate - 1]:
                        rep.violation(
                            f"conformance:dt0_adaptive:{H.input_descriptor(cls['u0'], cls['f0'])}:class-{got}-not-in-model",
                            f"dt0_adaptive on {sname}, vf={fname}, atol={atol}, rtol={rtol}, rate={rate} returned {h!r} ({got}); "
                            f"Dt0.tla allows {sorted(rel[key]['byrate'][rate - 1])} for {cls}",
                            rp,
                        )
                    if atol == SOLVE_TOL and rtol == SOLVE_TOL and rate == H.NUM_DERIVATIVES + 1:
                        proposals.append(("dt0_adaptive", h, got, cls, rp))
                    elif got not in H.POSFIN:
                        desc = H.input_descriptor(cls["u0"], cls["f0"])
                        counts[_bad_class_key("dt0_adaptive", desc, got)] += 1
                        confirmed[("dt0_adaptive", cls["u0"], cls["f0"])] += 1
                        rep.violation(
                            _bad_class_key("dt0_adaptive", desc, got),
                            f"dt0_adaptive returned {h!r} for state {sname} (||u0|| {cls['u0']}), vf={fname} (||f0|| {cls['f0']}, ||f1-f0|| {cls['df']}), "
                            f"atol={atol}, rtol={rtol}, rate={rate}; the property requires a finite, strictly positive step",
                            rp,
                        )

            # ---- a short adaptive solve from the proposals (and the verdict on the proposals themselves)
            run_solve = factory.get(fname, f, kind, u0)
            for helper, h, got, cls, rp in proposals:
                desc = H.input_descriptor(cls["u0"], cls["f0"])
                verdict, det = _solve_verdict(run_solve, u0, h)
                rep.traces += 1
                rep.add_case(("solve", helper, sname, fname))
                solve_stats[f"{helper}:{verdict}"] += 1
                if got not in H.POSFIN:
                    k = _bad_class_key(helper, desc, got)
                    counts[k] += 1
                    confirmed[(helper, cls["u0"], cls["f0"])] += 1
                    conseq = {
                        "ok": "an adaptive solve started from it still finishes",
                        "fails": f"an adaptive solve started from it does not finish with finite output ({det}) although it does from a fixed step {det.get('reference_step_that_works')}",
                        "unattributable": "the adaptive solve fails from this and from every reference step",
                    }[verdict]
                    rep.violation(
                        k,
                        f"{helper} returned {h!r} for state {sname} (||u0|| {cls['u0']}), vf={fname} (||f0|| {cls['f0']}); "
                        f"the property requires a finite, strictly positive step; {conseq}",
                        rp,
                    )
                elif verdict == "fails":
                    k = f"impl:{helper}:{desc}:solve-fails"
                    counts[k] += 1
                    rep.violation(
                        k,
                        f"the proposal {h!r} of {helper} for state {sname}, vf={fname} is positive and finite, but "
                        f"solve_adaptive_terminal_values(dt0={h!r}, atol=rtol={SOLVE_TOL}) does not finish with finite output ({det}) "
                        f"although it does from the fixed step {det.get('reference_step_that_works')}",
                        dict(rp, solve=True),
                    )

    rep.extra["representative_calls_outside_property_domain"] = out_of_domain
    rep.extra["solves"] = dict(solve_stats)
    rep.extra["violating_calls_per_key"] = dict(counts)
    rep.extra["model_predictions_PositiveFinite"] = {
        "confirmed_by_replay": sorted(f"{h}:u0-{u}:f0-{f}" for (h, u, f) in predicted if confirmed[(h, u, f)]),
        "predicted_not_reached_by_representatives": sorted(f"{h}:u0-{u}:f0-{f}->{'/'.join(sorted(c))}" for (h, u, f), c in predicted.items() if not confirmed[(h, u, f)]),
    }

    # ------------------------------------------------------------------ (b) exact HNW instances
    n_rand = 50 if tier == "quick" else 600
    insts = H.curated_instances() + [H.random_instance(rng) for _ in range(n_rand)]
    res, dropped, st, gen, fail = H.eval_exact(insts)
    rep.states += st
    rep.transitions += gen
    if fail is not None:
        rep.violation(f"spec:Dt0:HNW:{fail[0].violated}", "a law of the exact HNW specification fails", {"tlc_tail": fail[0].stdout[-3000:]})
    near = 0
    worst = 0.0
    kinds = Counter()
    for j, inst in enumerate(insts):
        if j not in res:
            continue
        e = res[j]
        if H.near_threshold(e):
            near += 1
            continue
        h = H.call_instance(inst)
        rep.traces += 1
        rep.add_case(("hnw", j) if not e["guard"] else None)
        kinds[f"{'guard' if e['guard'] else 'ratio'}/{'flat' if e['flat'] else 'root'}/{e['branch']}"] += 1
        printable = {k: str(v) for k, v in inst.items()}
        rep.sample({"family": "hnw", **printable, "spec": {k: str(v) for k, v in e.items()}, "dt0_adaptive": h}, cap=10)
        err = H.compare_instance(inst, e, h)
        if err <= 1e-9:
            worst = max(worst, err)
            continue
        alt = H.unweighted_variant(inst)
        k1 = inst["p"] + 1
        if e["kind"] == "value":
            spec_txt = f"h = {float(e['val'])!r}"
        elif e["kind"] == "power":
            spec_txt = f"h^(p+1) = {float(e['val'])!r} (h = {float(e['val']) ** (1.0 / k1)!r})"
        else:
            spec_txt = f"h = min(100 h0 = {float(e['val'])!r}, h1 = {float(e['alt']) ** (1.0 / k1)!r})"
        if H.rel_err(h, alt) <= 1e-9:
            key = "impl:dt0_adaptive:unweighted-norms"
            why = "it coincides with the heuristic evaluated with d0 = |y0|, d1 = |f0| not divided by sc = atol + |y0| rtol"
        else:
            key = f"impl:dt0_adaptive:hnw-mismatch:{'guard' if e['guard'] else 'ratio'}-{'flat' if e['flat'] else 'root'}-{e['branch']}"
            why = "no known variant explains the value"
        counts[key] += 1
        rep.violation(
            key,
            f"dt0_adaptive = {h!r} on y' = {printable['a0']} + {printable['a1']} y + {printable['a2']} y^2 + {printable['b']} t, y({printable['t0']}) = {printable['y0']}, "
            f"atol={printable['atol']}, rtol={printable['rtol']}, p={inst['p']}; Hairer-Norsett-Wanner II.4 gives {spec_txt} "
            f"(d0={float(e['d0']):.6g}, d1={float(e['d1']):.6g}, d2={float(e['d2']):.6g}, h0={float(e['h0']):.6g}, branch {e['branch']}); relative deviation {err:.3g}; {why}",
            {"kind": "exact", "instance": printable},
        )
    # ---- vector / pytree states: four identical copies of a scalar instance, partitioned into leaves in three ways, must give
    # the exact value of the scalar instance with halved tolerances (Euclidean norms double) - whatever the partition
    sub = [inst for j, inst in enumerate(insts) if j in res][: (30 if tier == "quick" else 250)]
    res2, dropped2, st, gen, fail2 = H.eval_exact([H.halved(i) for i in sub])
    rep.states += st
    rep.transitions += gen
    ncopies = 0
    for j, inst in enumerate(sub):
        if j not in res2 or H.near_threshold(res2[j]):
            continue
        e = res2[j]
        for layout in H.LAYOUTS:
            h = H.call_instance_copies(inst, layout)
            rep.traces += 1
            ncopies += 1
            rep.add_case(("hnw-copies", j, layout) if not e["guard"] else None)
            err = H.compare_instance(H.halved(inst), e, h)
            if err > 1e-9:
                printable = {k: str(v) for k, v in inst.items()}
                rep.violation(f"impl:dt0_adaptive:vector-state:{'flat' if layout.startswith('flat') else 'pytree-partition'}",
                              f"dt0_adaptive = {h!r} on four copies of y' = {printable['a0']} + {printable['a1']} y + {printable['a2']} y^2 + {printable['b']} t, y({printable['t0']}) = {printable['y0']} "
                              f"(state layout {layout}), atol={printable['atol']}, rtol={printable['rtol']}, p={inst['p']}; the specification (scalar instance with halved tolerances) gives "
                              f"{e['kind']} {float(e['val'])!r}; relative deviation {err:.3g}", {"kind": "exact-copies", "instance": printable, "layout": layout})
    # ---- the simple helper dt0 on derivatives of the size of its nugget (1e-5): the branch formula of Dt0.tla, Part A,
    # evaluated on inputs with rational Euclidean norms: h = 1e-6 if |u0| < 1e-5 else 0.01 |u0| / (|f0| + 1e-5)
    import warnings

    import jax
    import jax.numpy as jnp
    import numpy as np

    from probdiffeq import ivpsolve as _ivp
    from probdiffeq import probdiffeq as _pdq

    nug = 1e-5
    dt0_cases = [
        ("f0 = -nugget in every entry", jnp.asarray([3.0, 4.0, 0.0, 0.0]), lambda u: -nug * jnp.ones_like(u), 5.0, 2e-5),
        ("equilibrium, four entries", jnp.asarray([3.0, 0.0, 4.0, 0.0]), lambda u: 0.0 * u, 5.0, 0.0),
        ("scalar, f0 = -nugget", jnp.asarray(1.0), lambda u: -nug * u, 1.0, 1e-5),
        ("mixed tiny derivative", jnp.asarray([0.6, 0.8]), lambda u: jnp.asarray([3e-5, -4e-5]) + 0.0 * u, 1.0, 5e-5),
        ("equilibrium pytree", {"a": jnp.asarray([3.0]), "b": jnp.asarray([[4.0, 0.0]])}, lambda u: jax.tree_util.tree_map(lambda x: 0.0 * x, u), 5.0, 0.0),
        ("ordinary", jnp.asarray([3.0, 4.0]), lambda u: jnp.asarray([-6.0, 8.0]) + 0.0 * u, 5.0, 10.0),
    ]
    for label, u0, f, nu, nf in dt0_cases:
        with warnings.catch_warnings():
            warnings.simplefilter("ignore")
            h = float(_ivp.dt0(_pdq.ode(lambda u, /, *, t, f=f: f(u)), (u0,), t=0.0))
        want = 1e-6 if nu < 1e-5 else 0.01 * nu / (nf + nug)
        rep.traces += 1
        rep.add_case(("dt0-nugget", label))
        if not (np.isfinite(h) and h > 0 and abs(h - want) <= 1e-9 * want):
            rep.violation("impl:dt0:nugget-sized-derivative", f"dt0 = {h!r} for |u0| = {nu}, |f(u0)| = {nf} ({label}); the helper's formula 0.01 |u0| / (|f0| + 1e-5) gives {want!r}",
                          {"kind": "dt0-formula", "case": label})
    rep.extra["hnw_vector_state_calls"] = ncopies
    rep.extra["violating_calls_per_key"] = dict(counts)
    rep.extra["hnw_instances"] = {"given": len(insts), "dropped_32bit": len(dropped), "near_threshold_skipped": near, "branches": dict(kinds), "worst_rel_err_of_passing": worst}
    rep.assumptions = [
        "abstract model: rounding (relative 2^-53) does not move a value across a class boundary; representatives are chosen away from the boundaries 1e-15, 1e-5, 1e150",
        "abstract model: ||f1 - f0|| is an input class (any class, including inf/nan when the Euler point overflowed); the vector field itself is not modelled",
        "the property's domain is read as: finite states and f(u0) of every magnitude, atol, rtol in [1e-12, 1], rates 1..12",
        "HNW instances are scalar (the weighted norm of a scalar is |x|/sc) or four identical copies of a scalar problem (Euclidean norms: exactly the scalar instance with halved tolerances) with rational data representable in 32 bits; max(d1,d2) <= 1e-15 is then equivalent to = 0",
        "a failing solve is attributed to the proposal only if the same solve finishes from a fixed reference step (1e-6, 1e-3 or 0.1)",
        f"solves: dense model, TS0, uncalibrated solver, filter, {H.NUM_DERIVATIVES} derivatives, t in [0, 1], atol = rtol = {SOLVE_TOL}, at most {H.ITERATION_CAP} loop iterations",
    ]
    return rep.finish()


def replay(rep_obj) -> int:
    """re-run one recorded violation; exit 1 if it still shows"""
    r = rep_obj.get("replay") or {}
    print(rep_obj.get("key"), "-", rep_obj.get("what"))
    if r.get("kind") == "representative":
        st = {name: (kind, u0) for name, kind, u0 in H.states("thorough")}
        kind, u0 = st[r["state"]]
        f, _ = H.vector_fields()[r["vf"]]
        if r["helper"] == "dt0":
            h, cls = H.call_dt0(f, u0)
        else:
            h, cls = H.call_dt0_adaptive(f, u0, rate=r["rate"], atol=r["atol"], rtol=r["rtol"])
        print(f"{r['helper']} -> {h!r}  classes {cls}")
        bad = H.classify(h) not in H.POSFIN or h < 0
        if not bad and r.get("solve"):
            run_solve = H.SolveFactory().get(r["vf"], f, kind, u0)
            verdict, det = _solve_verdict(run_solve, u0, h)
            print("solve:", verdict, det)
            bad = verdict == "fails"
        return 1 if bad else 0
    if r.get("kind") == "exact":
        from fractions import Fraction

        inst = {k: (int(v) if k == "p" else Fraction(v)) for k, v in r["instance"].items()}
        res, dropped, _, _, fail = H.eval_exact([inst])
        if fail is not None or 0 not in res:
            print("specification could not be evaluated")
            return 2
        h = H.call_instance(inst)
        err = H.compare_instance(inst, res[0], h)
        print(f"dt0_adaptive -> {h!r}; spec {res[0]['kind']} {float(res[0]['val'])!r}; relative deviation {err:.3g}")
        return 1 if err > 1e-9 else 0
    if r.get("kind") == "exact-copies":
        from fractions import Fraction

        inst = {k: (int(v) if k == "p" else Fraction(v)) for k, v in r["instance"].items()}
        res, dropped, _, _, fail = H.eval_exact([H.halved(inst)])
        if fail is not None or 0 not in res:
            print("specification could not be evaluated")
            return 2
        h = H.call_instance_copies(inst, r["layout"])
        err = H.compare_instance(H.halved(inst), res[0], h)
        print(f"dt0_adaptive ({r['layout']}) -> {h!r}; spec {res[0]['kind']} {float(res[0]['val'])!r}; relative deviation {err:.3g}")
        return 1 if err > 1e-9 else 0
    if r.get("kind") == "arith":
        print("re-run ./check C18 (the arithmetic relation is replayed as a whole)")
        return 1
    print("nothing to replay")
    return 1
