"""C10 - Taylor-coefficient initialisation returns the exact solution derivatives.

TLC: JetPoly.tla, kind "ode": derivatives u, u', .., u^(k) at t0 of the solution of u^(m) = f(u, .., u^(m-1), t)
for polynomial f (monomial tables with coefficients in {-1,0,1,2}, degree <= 2 in (u, u'), <= 3 in t), computed by
one `Increment` action per Taylor coefficient (Cauchy products on truncated power series) and cross-checked in
every state against symbolic total differentiation D = d/dt + sum u^(j+1) d/du^(j) of the polynomial; on
completion the lifted residual u^(m) - f must vanish along the solution.
bind: every program is compiled into a real JAX function from the same monomial table, wrapped with
probdiffeq.ode / ode_order_two, and run through all five routines (padded scan, unroll, via_jvp, doubling,
residual-based on residual_from_ode and on the implicit form a u^(m) - F = 0), with flat and nested-pytree
states and several requested lengths; outputs vs TLC's exact integers/rationals at 1e-9 relative.
"""

from __future__ import annotations

import random

from harness import exact, jets
from harness.report import Report

TOL = 1e-9


def _programs(tier, seed):
    rng = random.Random(10_000 + seed)
    n = 60 if tier == "quick" else 600
    dmax = 2 if tier == "quick" else 3
    kmax = 6 if tier == "quick" else 7
    progs = []
    # the hand-found example first: u' = u^2 + t^2, u(1) = 1
    progs.append(dict(d=1, m=1, polys=[[(1, (2, 0)), (1, (0, 2))]], tdep=True, inits=[[1]], t0=1, k=6, a=[2], tree_variant=0, num_small=1))
    # one autonomous and one time-dependent second-order program are always present
    progs.append(dict(d=1, m=2, polys=[[(-1, (1, 0, 0)), (1, (0, 2, 0))]], tdep=False, inits=[[1], [2]], t0=0, k=5, a=[3], tree_variant=1, num_small=0))
    progs.append(dict(d=2, m=2, polys=[[(1, (0, 1, 1, 0, 0)), (2, (0, 0, 0, 0, 3))], [(-1, (1, 0, 0, 0, 1))]], tdep=True, inits=[[1, -1], [0, 2]], t0=1, k=5, a=[2, -1], tree_variant=0, num_small=2))
    while len(progs) < n:
        progs.append(jets.ode_program(rng, dmax=dmax, kmax=kmax))
    return progs


def run(tier: str, seed: int) -> int:
    rep = Report("C10", tier, seed)
    rep.rule = (
        "a case is one call of one Taylor-coefficient routine on one (polynomial vector field, order, initial values, t0, "
        "requested length, state layout) program; distinct = distinct program x routine x layout; non-trivial = every program "
        "(all have at least two derivatives beyond the initial values)"
    )
    progs = _programs(tier, seed)
    insts, owner = [], []
    for j, p in enumerate(progs):
        insts.append(jets.ode_tla(p, implicit=False))
        owner.append((j, "explicit"))
        insts.append(jets.ode_tla(p, implicit=True))
        owner.append((j, "implicit"))
    res, dropped, st, gen, fail = exact.eval_instances("JetPoly", insts, invariants=["CheckAndPrint"], batch=6, parallel=12)
    rep.states += st
    rep.transitions += gen
    if fail is not None:
        rep.violation(f"spec:JetPoly:{fail[0].violated}", "JetPoly law violated (series recursion vs symbolic differentiation)", {"tlc_tail": fail[0].stdout[-3000:]})
    exp = {}
    for q, (j, which) in enumerate(owner):
        if q in res:
            exp[(j, which)] = res[q]
    jobs, jobprog = [], []
    for j, p in enumerate(progs):
        e1, e2 = exp.get((j, "explicit")), exp.get((j, "implicit"))
        if e1 is None and e2 is None:
            continue
        jobs.append((p, e1, e2, TOL))
        jobprog.append(j)
    outs = jets.pool_map(jets.replay_ode_safe, jobs)
    n_tdep = n_auto = 0
    short = 0
    ran_by_routine, fails_by_key = {}, {}
    for j, out in zip(jobprog, outs):
        p = progs[j]
        if out.get("crash"):
            raise RuntimeError("replay worker crashed:\n" + out["crash"])
        desc = f"u{chr(39) * p['m']} = {jets.pretty(p['polys'], p['m'], p['d'])}, inits=[{', '.join('[' + ', '.join(str(x) for x in row) + ']' for row in p['inits'])}], t0={p['t0']}"
        rep.traces += 1
        n_tdep += int(p["tdep"])
        n_auto += int(not p["tdep"])
        e1 = exp.get((j, "explicit"))
        if e1 is not None and e1["kok"] < p["k"] + 1:
            short += 1
        for _ in range(out["calls"]):
            rep.add_case(None)
        for r, v in out["ran"]:
            rep.distinct.add((j, r, v))
            ran_by_routine[r] = ran_by_routine.get(r, 0) + 1
        rep.sample({"program": desc, "order": p["m"], "d": p["d"], "time_dependent": p["tdep"], "k": p["k"], "exact_derivatives": [[str(x) for x in row] for row in (e1 or {"derivs": []})["derivs"]]})
        cls = "time-dependent" if p["tdep"] else "autonomous"
        failed_flat = {r for r, v, _ in out["fails"] if v == "flat"}
        for routine, variant, what in out["fails"]:
            key = f"impl:{routine}:{cls}"
            if variant != "flat" and routine not in failed_flat:
                key += f":{variant}"  # only the pytree / implicit form fails
            fails_by_key[key] = fails_by_key.get(key, 0) + 1
            rep.violation(key, f"{routine} ({variant}) on {desc}: {what}", {"program": {k: (str(v) if k == "polys" else v) for k, v in p.items()}, "polys": p["polys"], "variant": variant})
    rep.extra["program_x_layout_runs_by_routine"] = ran_by_routine
    rep.extra["failing_calls_by_key"] = fails_by_key
    rep.extra["programs_time_dependent"] = n_tdep
    rep.extra["programs_autonomous"] = n_auto
    rep.extra["instances_dropped_for_32bit_overflow"] = len(dropped)
    rep.extra["programs_compared_on_a_shorter_prefix_for_32bit_range"] = short
    rep.assumptions = [
        "polynomial vector fields only (degree <= 2 in (u,u'), <= 3 in t, coefficients in {-1,0,1,2}, integer or half-integer initial values and t0, k <= 6 (thorough: 7), d <= 2 (thorough: 3)); non-polynomial smooth fields are not modelled",
        "derivatives beyond the 32-bit range of TLC are not compared (the specification exports the exact prefix)",
        "jetexpand_ode_doubling_unroll is documented as first-order only (asserts a single initial value) and jetexpand_residual as flat-array only (pytree support is a TODO in its source): those combinations are not run; both carry an 'experimental' warning but are part of the property",
        "the residual-based routine is run with its default Gauss-Newton solver on residual_from_ode(ode).jet_lift(num-1) and on the implicit form a*u^(m) - F = 0, num <= 4",
        "float64 outputs vs exact rationals at 1e-9 relative per coefficient",
    ]
    return rep.finish()


def replay(rep_obj) -> int:
    """re-run one recorded program through the failing routine family"""
    r = rep_obj.get("replay") or {}
    print(rep_obj.get("what"))
    if "polys" not in r:
        return 1
    p = dict(r["program"])
    p["inits"] = [[jets.F(x) for x in row] for row in p["inits"]]
    p["t0"] = jets.F(p["t0"])
    p["polys"] = [[(c, tuple(e)) for c, e in comp] for comp in r["polys"]]
    insts = [jets.ode_tla(p, implicit=False), jets.ode_tla(p, implicit=True)]
    res, _d, _s, _g, fail = exact.eval_instances("JetPoly", insts, invariants=["CheckAndPrint"], batch=2)
    if fail is not None:
        print("JetPoly law violated")
        return 1
    out = jets.replay_ode((p, res.get(0), res.get(1), TOL))
    for f in out["fails"]:
        print("  ", f)
    return 1 if out["fails"] else 0
