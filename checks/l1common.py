"""Shared driver for the L1 checks (C02, C03, C04, C05): TLC-generated step histories -> real solver code on the
tracing SSM -> operation log validated by TLC against GaussTerms/TraceProbSolver."""

from __future__ import annotations

import concurrent.futures as cf
import random
from fractions import Fraction as F

from harness import l0, l1, tlc

_BEH_CACHE = {}


def behaviours(cfg, n, seed, gen_att=7):
    """complete TLC behaviours (accept/reject histories) of an AdaptiveLoop configuration"""
    key = (cfg["_name"], gen_att)
    if key not in _BEH_CACHE:
        wd = tlc.make_workdir()
        try:
            res, behs = l0.generate(wd, dict(cfg, MaxAtt=gen_att), "g")
            behs = [b for b in behs if b["complete"]]
            if len(behs) < n:
                # (a configuration whose histories need more attempts than the exhaustive bound is served by simulation;
                #  a few hundred random behaviours are cheap and make sure that no plan item runs on an empty set)
                res2, b2 = l0.generate(wd, dict(cfg, MaxAtt=gen_att + 7), "s", simulate_num=max(6 * n, 600), seed=seed + 1)
                seen = {repr(b["hist"]) for b in behs}
                behs += [b for b in b2 if b["complete"] and repr(b["hist"]) not in seen]
                res.distinct += res2.distinct
                res.generated += res2.generated
            if len(behs) < max(2, n // 2):
                # profiles that need many small steps ("valley"): longer random behaviours
                res3, b3 = l0.generate(wd, dict(cfg, MaxAtt=gen_att + 14), "t", simulate_num=max(12 * n, 1500), seed=seed + 2)
                seen = {repr(b["hist"]) for b in behs}
                for b in b3:
                    if b["complete"] and repr(b["hist"]) not in seen:
                        seen.add(repr(b["hist"]))
                        behs.append(b)
                res.distinct += res3.distinct
                res.generated += res3.generated
        finally:
            tlc.cleanup(wd)
        _BEH_CACHE[key] = (res, behs)
    res, behs = _BEH_CACHE[key]
    if not behs:
        raise tlc.MachineryError(f"no complete behaviour of {cfg['_name']} within {gen_att + 14} attempts: the plan item would be vacuous")
    rng = random.Random(seed)
    if len(behs) > n:
        behs = rng.sample(behs, n)
    return res, behs


def why_class(why: str) -> str:
    return why.split(":")[0].strip().replace(" ", "-") + ":" + "-".join(why.split(":")[1].split()[:6]) if ":" in why else why[:40]


def run_plan(rep, plan, seed, label):
    """plan: list of dict(cfg, solver, strategy, initc, mode, n, offgrid=()) ; reports violations into rep"""
    traces, meta = [], []
    for item in plan:
        cfg, mode = item["cfg"], item["mode"]
        if mode == "fixed_grid":
            behs = [None]
        else:
            res, behs = behaviours(cfg, item["n"], seed)
            if not item.get("_counted"):
                rep.states += res.distinct
                rep.transitions += res.generated
        runner = l1.L1Runner(cfg, item["solver"], item["strategy"], item["initc"], mode)
        for b in behs:
            try:
                tr, _sol = runner.run(b, offgrid_times=item.get("offgrid", ()))
            except Exception as e:  # the real code raised on a legal history
                rep.violation(
                    f"impl:{label}:{mode}:{item['strategy']}:{item['solver']}:exception",
                    f"{type(e).__name__}: {str(e)[:300]}",
                    {"config": cfg["_name"]},
                )
                continue
            traces.append(tr)
            meta.append((item, b))
    verdicts, st, gen = l1.validate_parallel(traces)
    rep.states += st
    rep.transitions += gen
    for (item, b), tr, v in zip(meta, traces, verdicts):
        rep.traces += 1
        nontrivial = len(tr["hdr"]["steps"]) >= 2
        ident = (item["cfg"]["_name"], item["mode"], item["solver"], item["strategy"], item["initc"], repr(tr["hdr"]["steps"]))
        rep.add_case(ident if nontrivial else None)
        rep.sample(
            {"config": item["cfg"]["_name"], "mode": item["mode"], "solver": item["solver"], "strategy": item["strategy"], "initc": item["initc"],
             "accepted_steps": [[s["t"] / l0.UNIT, s["h"] / l0.UNIT] for s in tr["hdr"]["steps"]], "events": len(tr["ev"])},
            cap=6,
        )
        if v is None:
            raise RuntimeError("trace validation produced no verdict")
        if not v["ok"]:
            at = v["at"] - 1
            ctx = tr["ev"][max(0, at - 5) : at]
            key = f"impl:{label}:{item['mode']}:{item['strategy']}:{item['solver']}:{why_class(v['why'])}"
            rep.violation(key, f"{item['cfg']['_name']} initc={item['initc']}: trace rejected at event {at}: {v['why']}",
                          {"header": tr["hdr"], "rejected_at": at, "last_events": ctx, "why": v["why"]})
    return traces, verdicts


def grid_cfg(points, name):
    c = l0.base_config(Ckpts=[l0.u(x) for x in points], Mode="fixed_grid")
    c["_name"] = f"fixed_grid/{name}"
    return c


GRIDS = {
    "uniform5": [0, 1, 2, 3, 4],
    "nonuniform": [0, F(1, 2), F(3, 2), F(7, 4), 4],
    "two": [0, F(1, 4), 1],
    "fine": [0, F(1, 8), F(1, 4), F(1, 2), 1, 2, 3],
}


def run_consumers(rep, tier, seed, what, label):
    """C12 / C13 wiring: the posterior returned by the real solvers (tracing SSM) is consumed by the real evaluate_lml /
    sample code; TLC checks which terms were scored / sampled and exports the exact loss value."""
    import jax

    solvers = ["solver", "mle", "dynamic"] if tier == "quick" else ["solver", "mle", "mle_nocorr", "dynamic", "dynamic_relin"]
    items = []
    for g in (["nonuniform"] if tier == "quick" else ["nonuniform", "uniform5", "two"]):
        for sv in solvers:
            items.append((grid_cfg(GRIDS[g], g), sv, "fixedinterval", sv == "mle", "fixed_grid", [None]))
    cfg = l0.make_config("ties", "flat", "I_1", False, 1, max_att=8)
    res, behs = behaviours(cfg, 2 if tier == "quick" else 8, seed)
    rep.states += res.distinct
    rep.transitions += res.generated
    for sv in solvers[: 2 if tier == "quick" else None]:
        items.append((cfg, sv, "fixedpoint", False, "save_at", behs))
    # a final time that the last (unclipped) step oversteps: the returned posterior must be anchored at the final checkpoint
    cfg2 = l0.make_config("remainder", "flat", "I_1", False, 1, max_att=8)
    res2, behs2 = behaviours(cfg2, 2 if tier == "quick" else 6, seed)
    rep.states += res2.distinct
    rep.transitions += res2.generated
    for sv in solvers[: 1 if tier == "quick" else None]:
        items.append((cfg2, sv, "fixedpoint", False, "save_at", behs2))
    traces, meta = [], []
    for j, (cfg_, sv, strat, initc, mode, bs) in enumerate(items):
        runner = l1.L1Runner(cfg_, sv, strat, initc, mode)
        for b in bs:
            if what == "lml":
                cons = [dict(what="lml", tcoeff_index=j % 3, average=bool(j % 2))]
            else:
                cons = [dict(what="sample", key=jax.random.PRNGKey(seed + j))]
            tr, _sol = runner.run(b, consumers=cons)
            traces.append(tr)
            meta.append((cfg_["_name"], sv, strat, mode, cons[0], list(runner.consumed)))
    for start in range(0, len(traces), 10):
        chunk = traces[start:start + 10]
        ver, res = l1.validate(chunk)
        rep.states += res.distinct
        rep.transitions += res.generated
        for local, (tr, v) in enumerate(zip(chunk, ver)):
            name, sv, strat, mode, cons, consumed = meta[start + local]
            rep.traces += 1
            rep.add_case((label, name, sv, strat, repr(tr["hdr"]["steps"]), repr(cons)))
            if not v["ok"]:
                at = v["at"] - 1
                rep.violation(f"impl:{label}:{mode}:{strat}:{sv}:{why_class(v['why'])}", f"{name}: trace rejected at event {at}: {v['why']}",
                              {"header": tr["hdr"], "rejected_at": at, "last_events": tr["ev"][max(0, at - 5): at]})
                continue
            if what == "lml":
                exp = res.lml.get(local + 1, [])
                if not exp:
                    rep.violation(f"impl:{label}:{mode}:{strat}:{sv}:no-lml-export", f"{name}: TLC exported no loss value", {})
                    continue
                want = -exp[-1]["sumids"] / exp[-1]["n"] if exp[-1]["avg"] else -float(exp[-1]["sumids"])
                got = consumed[0]
                if abs(got - want) > 1e-9 * max(1.0, abs(want)):
                    rep.violation(f"impl:{label}:{mode}:{strat}:{sv}:value", f"{name}: loss {got!r} but the scored log-densities give {want!r} (average={cons['average']})", {"header": tr["hdr"]})
