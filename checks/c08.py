"""C08 - Gaussian conditional algebra is exact in every factorisation.

TLC: GaussExact.tla evaluates the joint-moment definitions exactly on every instance and checks the algebraic
laws (Chapman-Kolmogorov, total variance, symmetric covariances, embedding of structured models, rescaling).
bind: every instance is replayed into DenseLatentCond/DenseNormal, IsotropicLatentCond/IsotropicNormal,
BlockDiagLatentCond/BlockDiagNormal (unbatched and vmapped); results compared with TLC's rationals.
"""

from __future__ import annotations

import random

from harness import exact, gauss
from harness.report import Report

INVARIANTS = ["CheckAndPrint"]


def _instances(tier, seed):
    rng = random.Random(1000 + seed)
    n_per = 60 if tier == "quick" else 500
    insts = []
    for kind in ("dense", "iso", "bd"):
        for j in range(n_per):
            wide = j % 7 == 6
            if tier == "thorough" and j % 3 == 0:
                insts.append(gauss.make_instance(rng, kind, max_n=3, max_d=3, wide=wide))
            else:
                insts.append(gauss.make_instance(rng, kind, wide=wide))
    return insts


def run(tier: str, seed: int) -> int:
    rep = Report("C08", tier, seed)
    rep.rule = (
        "a case is one integer instance (conditional with power-of-two scalings, Gaussian, second conditional, data) "
        "x one factorisation; all ~40 operations are run on it; distinct = distinct instance; non-trivial = n>=2 or "
        "singular/zero covariance factor"
    )
    insts = _instances(tier, seed)
    res, dropped, states, gen, fail = exact.eval_instances(
        "GaussExact", [gauss.tla_instance(i) for i in insts], invariants=INVARIANTS, batch=12, timeout_s=1200
    )
    rep.states += states
    rep.transitions += gen
    if fail is not None:
        r, _insts, idx = fail
        rep.violation(f"spec:{r.violated}", "GaussExact law violated on an instance (the specification itself is inconsistent)", {"tlc_tail": r.stdout[-4000:]})
        return rep.finish()
    rep.extra["instances_dropped_for_32bit_overflow"] = len(dropped)
    ops_checked = 0
    groups = {}
    for j, inst in enumerate(insts):
        if j not in res:
            continue
        bad = gauss.check_instance(inst, res[j])
        rep.traces += 1
        nontrivial = inst["n"] >= 2 or inst["pmode"] in ("rankdef", "zero") or inst["qmode"] in ("rankdef", "zero")
        rep.add_case((inst["kind"], j) if nontrivial else None)
        rep.sample({"kind": inst["kind"], "n": inst["n"], "m": inst["m"], "k": inst["k"], "d": inst["d"], "P": inst["pmode"], "Q": inst["qmode"], "block0": {k: str(v) for k, v in inst["blocks"][0].items()}})
        singular = not bool(res[j]["dense"]["invertible"])
        for op, detail in bad:
            opbase = op.replace("[lstsq]", "").replace("[solve_triu]", "")
            key = f"impl:{opbase}:{'singularS' if singular else 'regularS'}:{inst['kind']}" if op.startswith("revert") else f"impl:{inst['kind']}:{opbase}"
            rep.violation(key, f"{inst['kind']} instance #{j} (n={inst['n']},m={inst['m']},d={inst['d']}): {op}: {detail[:400]}", {"instance": _ser(inst), "op": op, "detail": detail})
        # extreme (power-of-two) preconditioner gauges: scalings of 1e-12 .. 1e12 that the rationals cannot hold
        if not singular and j % 3 == 0:
            for alpha in (2.0**-40, 2.0**40):
                for op, detail in gauss.check_gauged(inst, res[j], alpha):
                    rep.violation(f"impl:{inst['kind']}:{op.replace('[lstsq]', '').replace('[solve_triu]', '')}",
                                  f"{inst['kind']} instance #{j} (n={inst['n']},m={inst['m']},d={inst['d']}): {op}: {detail}", {"instance": _ser(inst), "op": op})
        # ill-conditioned but regular innovation factors (condition number 2^21 times the instance's): the rank-revealing
        # and the triangular solver must both still recover the joint law
        if not singular and j % 2 == 0:
            for op, detail in gauss.check_row_gauged(inst, res[j]):
                rep.violation(f"impl:{inst['kind']}:{op.replace('[lstsq]', '').replace('[solve_triu]', '')}",
                              f"{inst['kind']} instance #{j} (n={inst['n']},m={inst['m']},d={inst['d']}): {op}: {detail}", {"instance": _ser(inst), "op": op})
        groups.setdefault((inst["kind"], inst["n"], inst["m"], inst["k"], inst["d"]), []).append(j)
    # batched (vmapped) variants on same-shaped groups
    nb = 0
    for key, js in groups.items():
        if len(js) < 2:
            continue
        js = js[:6]
        badb = gauss.check_batched([insts[j] for j in js], [res[j] for j in js])
        nb += 1
        rep.traces += 1
        for member, op, detail in badb:
            sing = not bool(res[js[member]]["dense"]["invertible"])
            if op == "vmap.revert.joint.cov" and sing:
                # same call site and input class as the unbatched finding (revert with a singular observed covariance)
                vkey = f"impl:revert.backward.marginalise(observed).cov:singularS:{key[0]}:vmap"
            else:
                vkey = f"impl:{key[0]}:{op}"
            rep.violation(vkey, f"batched {key}: member {js[member]}: {op} {detail}", {"instance": _ser(insts[js[member]]), "op": op})
    rep.extra["batched_groups"] = nb
    rep.assumptions = [
        "instances are small integers with power-of-two scalings (|entries| <= 3, n <= 4, d <= 3, scalings 2^-8..2^8); results compared at 1e-9 relative",
        "instances whose exact evaluation overflows TLC's 32-bit integers are dropped (counted in coverage)",
    ]
    return rep.finish()


def _ser(inst):
    return {k: (str(v) if not isinstance(v, (int, str, list, dict)) else v) for k, v in inst.items() if k != "blocks"} | {
        "blocks": [{k: [[str(x) for x in row] if isinstance(row, list) else str(row) for row in v] for k, v in b.items()} for b in inst["blocks"]]
    }
