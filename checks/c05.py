"""C05 - checkpoint values do not depend on the checkpoint set; they interpolate exactly.

TLC: (a) AdaptiveLoop (exhaustive per configuration, as under C06) supplies the accept/reject histories;
(b) TraceProbSolver/GaussTerms decide, for every run, that the value emitted at a checkpoint is the posterior at that
time given exactly the accepted steps (filter: prediction from the preceding state with the overstepping step's
scale; fixed-point smoother: all data, stored conditional between consecutive checkpoints) - a statement that only
depends on the step history, hence not on the other checkpoints; the terminal-value routine and after-the-fact
off-grid marginals of save-every-step runs are held to the same terms.
bind: operation logs of the real code on the tracing SSM for superset/subset checkpoint pairs driven by the same
scripted error powers (the accepted step sequences must coincide), validated by TLC; relational replays on real SSMs.
"""

from __future__ import annotations

from fractions import Fraction as F

import numpy as np

from checks import l1common
from harness import tlc  # noqa: E402
from harness import l0, l1, realruns
from harness.report import Report

# checkpoint supersets B and subsets A (same end points); no clipping
PAIRS = {
    "ties": ([0, 1, F(257, 128), F(259, 128), 4], [0, F(259, 128), 4]),
    "dense": ([0, F(1, 4), F(1, 2), F(3, 4), 1, 3], [0, F(1, 2), 3]),
    "mixed": ([0, F(1, 2), F(3, 2), F(7, 4), 4], [0, F(7, 4), 4]),
    "sparse": ([0, F(3, 4), F(3, 2), 3], [0, 3]),
    # two checkpoints closer to each other than eps (1/128), strictly inside a step, and a pair straddling a step end
    "twins": ([0, 1, F(5, 2), F(5, 2) + F(1, 256), F(767, 256), F(769, 256), 4], [0, 1, F(5, 2) + F(1, 256), F(769, 256), 4]),
}


def _cfg(points, name, prof, ctrl, dt0):
    c = l0.base_config(Ckpts=[l0.u(x) for x in points], Profile=[[l0.u(a), l0.u(b)] for a, b in l0.PROFILES[prof]], Clip=False, Dt0=l0.u(dt0), MaxAtt=8)
    c.update(l0.CONTROLLERS[ctrl])
    c["_name"] = f"save_at/{name}/{prof}/{ctrl}/clip=0/dt0={dt0}"
    return c


def run(tier: str, seed: int) -> int:
    rep = Report("C05", tier, seed)
    rep.rule = (
        "a case is one (checkpoint layout, accept/reject history, solver, strategy, driver) run of the real code on the "
        "tracing SSM validated by TLC, or one superset/subset pair; distinct = distinct (layout, history, solver, strategy); "
        "non-trivial = at least two accepted steps"
    )
    solvers = ["solver", "mle", "dynamic"] if tier == "quick" else ["solver", "mle", "mle_nocorr", "dynamic", "dynamic_relin"]
    n = 4 if tier == "quick" else 6
    pair_names = ["ties", "dense", "twins"] if tier == "quick" else list(PAIRS)
    profs = [("flat", "I_1", 1)] if tier == "quick" else [("flat", "I_1", 1), ("valley", "I_7_8", 1), ("tight_then_loose", "PI_7_8", F(1, 4)), ("loose_then_tight", "I_1_2", 4)]

    # ---- superset / subset pairs on the tracing SSM
    for pname in pair_names:
        ptsB, ptsA = PAIRS[pname]
        for prof, ctrl, dt0 in profs:
            cfgB = _cfg(ptsB, pname + "-B", prof, ctrl, dt0)
            cfgA = _cfg(ptsA, pname + "-A", prof, ctrl, dt0)
            try:
                res, behs = l1common.behaviours(cfgB, n, seed)
            except tlc.MachineryError as e:
                if "no complete behaviour" not in str(e):
                    raise
                # a (layout, profile, controller) combination of the thorough product without any complete history within
                # the attempt bound: reported in the evidence, not run (and not counted)
                rep.extra.setdefault("combinations_without_complete_history", []).append(cfgB["_name"])
                continue
            rep.states += res.distinct
            rep.transitions += res.generated
            for sv in solvers:
                for strat in ("filter", "fixedpoint"):
                    if tier == "quick" and sv != "mle" and (strat == "filter") != (pname == "ties"):
                        continue
                    if tier == "quick" and pname == "twins" and (strat == "filter" or sv == "dynamic"):
                        continue
                    rB = l1.L1Runner(cfgB, sv, strat, False)
                    rA = l1.L1Runner(cfgA, sv, strat, False)
                    traces = []
                    for b in behs:
                        tB, _ = rB.run(b)
                        tA, _ = rA.run(b)
                        traces += [tB, tA]
                        rep.add_case((pname, prof, ctrl, sv, strat, repr(tB["hdr"]["steps"])) if len(tB["hdr"]["steps"]) >= 2 else None)
                        rep.sample({"pair": pname, "B": [str(x) for x in ptsB], "A": [str(x) for x in ptsA], "solver": sv, "strategy": strat,
                                    "accepted_steps": [[s["t"] / l0.UNIT, s["h"] / l0.UNIT] for s in tB["hdr"]["steps"]]}, cap=5)
                        # the accepted step sequence of the subset run must be a prefix-compatible copy of the superset's:
                        # identical while both are before the final time (the script only knows the superset's attempts)
                        sA, sB = tA["hdr"]["steps"], tB["hdr"]["steps"]
                        m = min(len(sA), len(sB))
                        if sA[:m] != sB[:m] or len(sA) != len(sB):
                            rep.violation(f"impl:pair:{strat}:{sv}:step-sequence-depends-on-checkpoints",
                                          f"{pname}/{prof}/{ctrl}: accepted steps differ between checkpoint sets: {sB} vs {sA}",
                                          {"B": cfgB["_name"], "A": cfgA["_name"], "stepsB": sB, "stepsA": sA})
                    ver, st, gen = l1.validate_parallel(traces)
                    rep.states += st
                    rep.transitions += gen
                    for tr, v in zip(traces, ver):
                        rep.traces += 1
                        if not v["ok"]:
                            at = v["at"] - 1
                            rep.violation(f"impl:pair:save_at:{strat}:{sv}:{l1common.why_class(v['why'])}",
                                          f"{pname}/{prof}/{ctrl}: trace rejected at event {at}: {v['why']}",
                                          {"header": tr["hdr"], "rejected_at": at, "last_events": tr["ev"][max(0, at - 5): at]})

    # ---- terminal-value routine, off-grid marginals of save-every-step runs
    plan = []
    for sv in solvers:
        cfgT = l0.make_config("sparse", "valley", "I_7_8", True, 1, max_att=8)
        if tier == "thorough" or sv != "dynamic":
            plan.append(dict(cfg=cfgT, solver=sv, strategy="filter", initc=False, mode="terminal", n=n))
        if tier == "thorough" or sv != "solver":
            plan.append(dict(cfg=cfgT, solver=sv, strategy="fixedpoint", initc=True, mode="terminal", n=n))
        cfgE = l0.make_config("mixed", "flat", "I_1", False, 1, mode="every_step", max_att=8)
        off = (l0.u(F(3, 8)), l0.u(F(9, 4)), l0.u(F(31, 8)))
        plan.append(dict(cfg=cfgE, solver=sv, strategy="filter", initc=False, mode="every_step", n=n, offgrid=off))
        plan.append(dict(cfg=cfgE, solver=sv, strategy="fixedinterval", initc=False, mode="every_step", n=n, offgrid=off))
    l1common.run_plan(rep, plan, seed, "interp")

    # ---- relational replays on the real SSMs: superset reproduces subset at shared checkpoints
    _numeric(rep, tier, seed)
    _terminal_equals_last_entry(rep, tier)
    rep.assumptions = [
        "equality of terms stands for equality of distributions; the composition law of transitions used by the term normal form is decided numerically under C09",
        "the relational float replays are sampled (1e-7 relative on means/stds, step counts and scales exactly)",
    ]
    return rep.finish()


def _numeric(rep, tier, seed):
    combos = [("logistic", "dense", "ts1"), ("logistic", "iso", "ts0"), ("vdp2", "bd", "ts0")]
    if tier == "thorough":
        combos += [("logistic", "bd", "ts1"), ("vdp2", "dense", "ts1")]
    ptsB, ptsA = PAIRS["ties"]
    cfgB = _cfg(ptsB, "ties-B", "flat", "I_1", 1)
    cfgA = _cfg(ptsA, "ties-A", "flat", "I_1", 1)
    res, behs = l1common.behaviours(cfgB, 2 if tier == "quick" else 8, seed)
    shared = [float(x) for x in ptsA]
    for prob, ssm_name, ts in combos:
        for sv in ("solver", "mle", "dynamic"):
            for strat in ("filter", "fixedpoint"):
                ssm, ode, prior, constraint = realruns.setup(prob, ssm_name, 3 if prob == "logistic" else 2, ts=ts)
                solver = realruns.make_solver(sv, strat, constraint)
                runB = realruns.ScriptedRun(cfgB, solver)
                runA = realruns.ScriptedRun(cfgA, solver)
                for b in behs:
                    solB, stB = runB.run(prior, b)
                    solA, stA = runA.run(prior, b)
                    rep.traces += 1
                    rep.add_case(("numeric-pair", prob, ssm_name, ts, sv, strat, repr(stB)))
                    idxB = realruns.at_times(solB, shared)
                    idxA = realruns.at_times(solA, shared)
                    for name, get in [("mean", lambda s: s.u.mean), ("std", lambda s: s.u.std)]:
                        a = realruns.flat(realruns.take(get(solA), idxA))
                        bb = realruns.flat(realruns.take(get(solB), idxB))
                        if realruns.rel(bb, a) > 1e-7:
                            rep.violation(f"impl:numeric-pair:{strat}:{sv}:{name}",
                                          f"{prob}/{ssm_name}/{ts}: {name} at shared checkpoints differs between checkpoint sets by {realruns.rel(bb, a):.2e}",
                                          {"problem": prob, "ssm": ssm_name, "ts": ts})
                    nA = np.asarray(solA.num_steps)[[i - 1 for i in idxA[1:]]]
                    nB = np.asarray(solB.num_steps)[[i - 1 for i in idxB[1:]]]
                    if not np.array_equal(nA, nB):
                        rep.violation(f"impl:numeric-pair:{strat}:{sv}:num_steps", f"{prob}/{ssm_name}: step counts differ {nA} vs {nB}", {})
                    scA = realruns.flat(solA.output_scale)
                    scB = realruns.flat(solB.output_scale)
                    if sv == "mle" and realruns.rel(scA[-1:], scB[-1:]) > 1e-12:
                        rep.violation(f"impl:numeric-pair:{strat}:{sv}:output_scale", f"{prob}/{ssm_name}: calibrated scales differ", {})


def _terminal_equals_last_entry(rep, tier):
    """real SSMs, real error estimator, atol != rtol: the terminal-value routine equals the last entry of the checkpointed routine"""
    import warnings

    import jax.numpy as jnp

    from probdiffeq import ivpsolve
    from probdiffeq import probdiffeq as pdq

    combos = [("logistic", "dense", "ts1", "mle", "filter"), ("logistic", "iso", "ts0", "dynamic", "fixedpoint"), ("vdp2", "bd", "ts0", "solver", "fixedpoint")]
    for prob, ssm_name, ts, sv, strat in combos:
        ssm, ode, prior, constraint = realruns.setup(prob, ssm_name, 3 if prob == "logistic" else 2, ts=ts)
        solver = realruns.make_solver(sv, strat, constraint)
        err = pdq.error_residual_std(constraint=constraint)
        kw = dict(atol=1e-7, rtol=1e-3, dt0=0.05)
        with warnings.catch_warnings():
            warnings.simplefilter("ignore")
            term = ivpsolve.solve_adaptive_terminal_values(solver=solver, error=err, clip_dt=False)(prior, t0=0.0, t1=1.0, **kw)
            full = ivpsolve.solve_adaptive_save_at(solver=solver, error=err, clip_dt=False)(prior, save_at=jnp.asarray([0.0, 0.3, 0.55, 1.0]), **kw)
        rep.traces += 1
        rep.add_case(("terminal-vs-last", prob, ssm_name, sv, strat))
        key = f"impl:numeric-terminal:{strat}:{sv}:{ssm_name}"
        if int(np.asarray(term.num_steps)) != int(np.asarray(full.num_steps)[-1]):
            rep.violation(key + ":num_steps", f"terminal-value routine took {int(np.asarray(term.num_steps))} steps, the checkpointed routine {int(np.asarray(full.num_steps)[-1])}", {})
            continue
        a = realruns.flat(term.u.mean)
        b = realruns.flat(realruns.take(full.u.mean, [-1]))
        if realruns.rel(a, b) > 1e-9:
            rep.violation(key + ":mean", f"terminal value differs from the last checkpoint entry by {realruns.rel(a, b):.2e}", {})
