"""C02 - filter posterior equals the exact Gaussian posterior of the linearised model.

TLC: TraceProbSolver/GaussTerms: the filtering state after every accepted step must carry exactly the accepted-step
history: predicted with the unit-scale (dynamic: the just-estimated) transition from the previous *posterior*,
linearised at the predicted mean at the step's end time (dynamic without re-linearisation: at the mean-only
extrapolation), updated with exactly that linearisation, with the initial-constraint update when configured; outputs
are those terms (rescaled by the quasi-MLE for solver_mle).  KalmanExact.tla: one- and two-step instances end to end
in exact rationals (when harness/kalman.py is present).
bind: operation logs of the real solvers x strategy_filter on the tracing SSM for fixed grids and TLC-generated
adaptive histories, validated by TLC; exact instances replayed into the three real SSMs.
"""

from __future__ import annotations

from fractions import Fraction as F

from checks import l1common
from harness import l0
from harness.report import Report


def _plan(tier):
    plan = []
    solvers = ["solver", "mle", "mle_nocorr", "dynamic", "dynamic_relin"]
    n = 4 if tier == "quick" else 25
    grids = ["nonuniform", "fine"] if tier == "quick" else list(l1common.GRIDS)
    for g in grids:
        for sv in solvers:
            for initc in (False, True):
                if tier == "quick" and initc and sv in ("mle_nocorr", "dynamic_relin"):
                    continue
                plan.append(dict(cfg=l1common.grid_cfg(l1common.GRIDS[g], g), solver=sv, strategy="filter", initc=initc, mode="fixed_grid", n=1,
                                 offgrid=(l0.u(F(3, 8)),)))
    for lay, prof, ctrl, clip, mode in [("ties", "flat", "I_1", False, "save_at"), ("mixed", "flat", "I_7_8", True, "save_at"), ("sparse", "flat", "I_1", False, "every_step")]:
        cfg = l0.make_config(lay, prof, ctrl, clip, 1, mode=mode, max_att=8)
        for sv in solvers if tier == "thorough" else ["solver", "mle", "dynamic"]:
            plan.append(dict(cfg=cfg, solver=sv, strategy="filter", initc=(sv == "dynamic"), mode=mode, n=n))
    return plan


def _initc_exact_noop(rep, tier):
    """textbook: with an exact (zero-covariance) initial state and damp = 0 the initial-constraint update has zero gain
    (pseudo-inverse of a singular innovation covariance), so the filter with constraint_init must equal the filter
    without it - in particular it must stay finite.  (solver_mle is excluded: its extra datum has a 0/0 whitened residual.)"""
    import warnings

    import jax.numpy as jnp
    import numpy as np

    from harness import realruns
    from probdiffeq import ivpsolve
    from probdiffeq import probdiffeq as pdq

    for ssm_name in ("dense", "iso", "bd"):
        for sv in ("solver", "dynamic", "dynamic_relin"):
            for prob, ts in (("logistic", "ts1" if ssm_name == "dense" else "ts0"), ("vdp2", "ts0")):
                if tier == "quick" and prob == "vdp2" and sv != "dynamic":
                    continue
                ssm, ode, prior, constraint = realruns.setup(prob, ssm_name, 3 if prob == "logistic" else 2, ts=ts)
                outs = {}
                for initc in (False, True):
                    inner = realruns.SOLVERS[sv](strategy=pdq.strategy_filter(), constraint=constraint, constraint_init=constraint if initc else None)
                    with warnings.catch_warnings():
                        warnings.simplefilter("ignore")
                        outs[initc] = ivpsolve.solve_fixed_grid(solver=inner)(prior, grid=jnp.asarray([0.0, 0.2, 0.5, 0.6, 1.0]))
                a, b = outs[False], outs[True]
                rep.traces += 1
                rep.add_case(("initc-exact-noop", ssm_name, sv, prob))
                key = f"impl:filter:initc-exact-init:{sv}:{ssm_name}"
                fm, fs = realruns.flat(b.u.mean), realruns.flat(b.u.std)
                if not (np.all(np.isfinite(fm)) and np.all(np.isfinite(fs))):
                    rep.violation(key + ":non-finite", f"{prob}: the filter with constraint_init returns non-finite values for an exact initial state", {})
                elif realruns.rel(fm, realruns.flat(a.u.mean)) > 1e-9 or realruns.rel(fs, realruns.flat(a.u.std)) > 1e-7:
                    rep.violation(key + ":not-a-noop", f"{prob}: the initial-constraint update changes an exact initial state", {})


def _exponential_prior_filter(rep, tier, seed):
    """exponential priors (dense model): the exact transitions A(h), Q(h) of nilpotent drifts come from TLC
    (ExpGramExact.tla, as in C09); a textbook extended Kalman filter over them (plain numpy, covariance form, two unequal
    steps, TS0 and TS1 of an affine problem ODE, damping on/off) must reproduce the filter of the real solver."""
    import random
    import warnings

    import jax.numpy as jnp
    import numpy as np
    from probdiffeq import ivpsolve
    from probdiffeq import probdiffeq as pdq

    from harness import exact, priors

    rng = random.Random(2200 + seed)
    insts = []
    while len(insts) < (6 if tier == "quick" else 40):
        inst = priors.expprior_instance(rng)
        if inst["n"] >= 2 and not inst["ou"]:
            # this replay uses the LINEAR prior ODE (the nonlinear variant is decided under C09): remove the quadratic term
            n_, d_ = inst["n"], inst["d"]
            for a in range(d_ - 1):
                inst["A"][(n_ - 1) * d_ + a][a + 1] -= 2 * inst["quad"][a] * inst["tc0"][0][a + 1]
            inst["quad"] = [0] * d_
            insts.append(inst)
    res, dropped, st, gen, fail = exact.eval_instances("ExpGramExact", [priors.expgram_tla(i) for i in insts], invariants=["CheckAndPrint"], batch=6)
    rep.states += st
    rep.transitions += gen
    if fail is not None:
        rep.violation(f"spec:ExpGramExact:{fail[0].violated}", "ExpGramExact law violated", {"tlc_tail": fail[0].stdout[-2000:]})
    ssm = pdq.state_space_model_dense()
    for j, inst in enumerate(insts):
        if j not in res:
            continue
        E = {k: exact.to_float(v) for k, v in res[j].items()}
        n, d = inst["n"], inst["d"]
        N = n * d
        Ms = [np.array(M, dtype=np.float64) for M in inst["Ms"]]
        prior_ode = pdq.ode_autonomous_order_arbitrary(lambda *us: sum(jnp.asarray(M) @ u for M, u in zip(Ms, us)), num_tcoeffs_in_args=n)
        lam = jnp.asarray([float(x) for x in inst["lam"]])
        m0 = np.array([float(rng.randint(-2, 2)) for _ in range(N)])
        tcoeffs = [jnp.asarray(m0[i * d:(i + 1) * d]) for i in range(n)]
        C = np.array([[float(rng.randint(-1, 1)) for _ in range(d)] for _ in range(d)])
        c0 = np.array([float(rng.randint(-1, 1)) for _ in range(d)])
        problem = pdq.ode(lambda u, /, *, t: jnp.asarray(C) @ u + jnp.asarray(c0) + 0.0 * t)
        h1, h2 = float(inst["h1"]), float(inst["h2"])
        grid = jnp.asarray([0.0, h1, h1 + h2])
        steps = [(E["expm1"], E["gram1"]), (E["expm2"], E["gram2"])]
        E0 = np.hstack([np.eye(d), np.zeros((d, N - d))])
        E1 = np.hstack([np.zeros((d, d)), np.eye(d), np.zeros((d, N - 2 * d))])
        for lin in ("ts0", "ts1"):
            for damp in (0.0, 0.5):
                prior = ssm.prior_exponential(prior_ode, tcoeffs, output_scale=lam)
                constraint = ssm.constraint_ode_ts0(problem) if lin == "ts0" else ssm.constraint_ode_ts1(problem)
                solver = pdq.solver(strategy=pdq.strategy_filter(), constraint=constraint)
                with warnings.catch_warnings():
                    warnings.simplefilter("ignore")
                    sol = ivpsolve.solve_fixed_grid(solver=solver)(prior, grid=grid, damp=damp)
                got_m, got_P = (np.asarray(x) for x in sol.solution_full.to_multivariate_normal())
                m, P = m0.copy(), np.zeros((N, N))
                want = [(m.copy(), P.copy())]
                for A, Q in steps:
                    mp, Pp = A @ m, A @ P @ A.T + Q
                    if lin == "ts0":
                        H, b = E1, -(C @ (E0 @ mp) + c0)
                    else:
                        H, b = E1 - C @ E0, -c0
                    S = H @ Pp @ H.T + damp**2 * np.eye(d)
                    z = H @ mp + b
                    K = Pp @ H.T @ np.linalg.pinv(S)
                    m, P = mp - K @ z, Pp - K @ S @ K.T
                    want.append((m.copy(), P.copy()))
                rep.traces += 1
                rep.add_case(("exp-prior-filter", j, lin, damp))
                wm, wP = np.stack([w[0] for w in want]), np.stack([w[1] for w in want])
                em, eP = exact.maxerr(got_m, wm), exact.maxerr(got_P, wP)
                if not (np.all(np.isfinite(got_m)) and em <= 1e-8 and eP <= 1e-8):
                    rep.violation(f"impl:filter:fixed_grid:exponential-prior:{lin}", f"prior_exponential n={n} d={d} h=({h1},{h2}) damp={damp}: filter differs from the textbook EKF over the exact transitions: mean {em:.2e}, cov {eP:.2e}",
                                  {"instance": {k: str(v) for k, v in inst.items()}, "lin": lin, "damp": damp})


def run(tier: str, seed: int) -> int:
    rep = Report("C02", tier, seed)
    rep.rule = (
        "a case is one (grid or accept/reject history, solver variant, initial-constraint on/off, driver) run of the real "
        "filter code on the tracing SSM validated by TLC, or one exact KalmanExact instance replayed into a real SSM; "
        "distinct = distinct (configuration, accepted step sequence); non-trivial = at least two accepted steps"
    )
    l1common.run_plan(rep, _plan(tier), seed, "filter")
    try:
        from harness import kalman  # exact 1-2 step instances (KalmanExact.tla)
    except ImportError:
        kalman = None
    if kalman is not None and hasattr(kalman, "numeric_c02"):
        kalman.numeric_c02(rep, tier, seed)
        rep.extra["kalman_exact"] = True
    else:
        rep.extra["kalman_exact"] = False
    _initc_exact_noop(rep, tier)
    _exponential_prior_filter(rep, tier, seed)
    rep.assumptions = [
        "term equality stands for equality of distributions; the numerics of each operation are decided under C08 (conditional algebra), C09 (prior discretisation), C11 (linearisation)",
        "loss of precision at high order / tiny steps is a floating-point property and not covered by the term algebra",
    ]
    return rep.finish()
