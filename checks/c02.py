"""C02 - filter posterior equals the exact Gaussian posterior of the linearised model.

TLC: TraceProbSolver/GaussTerms: the filtering state after every accepted step must carry exactly the accepted-step
history: predicted with the unit-scale (dynamic: the just-estimated) transition from the previous *posterior*,
linearised at the predicted mean at the step's end time (dynamic without re-linearisation: at the mean-only
extrapolation), updated with exactly that linearisation, with the initial-constraint update when configured; outputs
are those terms (rescaled by the quasi-MLE for solver_mle).  KalmanExact.tla: one- and two-step instances end to end
in exact rationals (when harness/kalman.py is present).
bind: operation logs of the real solvers x strategy_filter on the tracing SSM for fixed grids and TLC-generated
adaptive histories, validated by TLC; exact instances replayed into the three real SSMs.
"""

from __future__ import annotations

from fractions import Fraction as F

from checks import l1common
from harness import l0
from harness.report import Report


def _plan(tier):
    plan = []
    solvers = ["solver", "mle", "mle_nocorr", "dynamic", "dynamic_relin"]
    n = 4 if tier == "quick" else 25
    grids = ["nonuniform", "fine"] if tier == "quick" else list(l1common.GRIDS)
    for g in grids:
        for sv in solvers:
            for initc in (False, True):
                if tier == "quick" and initc and sv in ("mle_nocorr", "dynamic_relin"):
                    continue
                plan.append(dict(cfg=l1common.grid_cfg(l1common.GRIDS[g], g), solver=sv, strategy="filter", initc=initc, mode="fixed_grid", n=1,
                                 offgrid=(l0.u(F(3, 8)),)))
    for lay, prof, ctrl, clip, mode in [("ties", "flat", "I_1", False, "save_at"), ("mixed", "valley", "I_7_8", True, "save_at"), ("sparse", "flat", "I_1", False, "every_step")]:
        cfg = l0.make_config(lay, prof, ctrl, clip, 1, mode=mode, max_att=8)
        for sv in solvers if tier == "thorough" else ["solver", "mle", "dynamic"]:
            plan.append(dict(cfg=cfg, solver=sv, strategy="filter", initc=(sv == "dynamic"), mode=mode, n=n))
    return plan


def run(tier: str, seed: int) -> int:
    rep = Report("C02", tier, seed)
    rep.rule = (
        "a case is one (grid or accept/reject history, solver variant, initial-constraint on/off, driver) run of the real "
        "filter code on the tracing SSM validated by TLC, or one exact KalmanExact instance replayed into a real SSM; "
        "distinct = distinct (configuration, accepted step sequence); non-trivial = at least two accepted steps"
    )
    l1common.run_plan(rep, _plan(tier), seed, "filter")
    try:
        from harness import kalman  # exact 1-2 step instances (KalmanExact.tla)
    except ImportError:
        kalman = None
    if kalman is not None and hasattr(kalman, "numeric_c02"):
        kalman.numeric_c02(rep, tier, seed)
        rep.extra["kalman_exact"] = True
    else:
        rep.extra["kalman_exact"] = False
    rep.assumptions = [
        "term equality stands for equality of distributions; the numerics of each operation are decided under C08 (conditional algebra), C09 (prior discretisation), C11 (linearisation)",
        "loss of precision at high order / tiny steps is a floating-point property and not covered by the term algebra",
    ]
    return rep.finish()
