"""C20 - malformed inputs are rejected loudly instead of being broadcast silently.

TLC: InputContracts.tla - the relation (entry, field, corruption, factorisation) -> raise | warn | accept, one state per
tuple, completeness / consistency invariants on the table.
bind: every exported tuple is applied to an otherwise valid call of the real public API (harness/contracts.py);
a tuple whose observed outcome differs from the specified one is a violation `impl:<entry>:<field>:<corruption>:<factorisation>`.
"""

from __future__ import annotations

from collections import Counter

from harness import contracts as H
from harness import tlc
from harness.report import Report


def _key(t):
    return f"impl:{t['entry']}:{t['field']}:{t['corruption']}:{t['fact']}"


def _check_tuple(t):
    """[(variant label, ok, observed-in-words, observation)] for all variants of one tuple"""
    out = []
    for label, thunk in H.thunks(t["entry"], t["field"], t["corruption"], t["fact"]):
        obs = H.observe(thunk)
        ok, seen = H.judge(t["expect"], obs, remedy=t.get("remedy") or ())
        out.append((label, ok, seen, obs))
    return out


def run(tier: str, seed: int) -> int:
    rep = Report("C20", tier, seed)
    rep.rule = (
        "a case is one concrete call realising one tuple (entry, field, corruption, factorisation) of InputContracts.tla "
        "(several variants per tuple), or the valid call of an (entry, field, factorisation); distinct = distinct tuples; "
        "every tuple is non-trivial (exactly one field is corrupted)"
    )
    res, tuples = H.relation()
    rep.add_tlc(res)
    if not res.ok:
        rep.violation(f"spec:InputContracts:{res.violated}", "an invariant of the contract table fails", {"tlc_tail": res.stdout[-3000:]})
        return rep.finish()
    if not tuples:
        raise tlc.MachineryError("TLC exported no tuples")

    # ---- the valid call behind every (entry, field, factorisation) must be accepted (pairings: must not warn)
    seen_valid = set()
    for t in tuples:
        k = (t["entry"], t["field"], t["fact"])
        if k in seen_valid:
            continue
        seen_valid.add(k)
        for label, thunk in H.thunks(t["entry"], t["field"], None, t["fact"]):
            obs = H.observe(thunk)
            rep.traces += 1
            rep.evaluations += 1
            if obs["outcome"] != "returned" or not obs["finite"] or (t["cat"] == "pairing" and obs["warnings"]):
                raise tlc.MachineryError(f"the valid call of {k} is not accepted by the library: {obs}")

    # ---- every tuple
    outcome_count = Counter()
    variants = 0
    exceptions = Counter()
    for t in tuples:
        results = _check_tuple(t)
        rep.traces += len(results)
        variants += len(results)
        rep.add_case((t["entry"], t["field"], t["corruption"], t["fact"]))
        rep.evaluations += len(results) - 1
        rep.sample({**{k: t[k] for k in ("entry", "field", "corruption", "fact", "expect")}, "observed": [(lab, seen) for lab, _, seen, _ in results]}, cap=8)
        bad = [(lab, seen, obs) for lab, ok, seen, obs in results if not ok]
        for _, _, _, obs in results:
            if obs["outcome"] == "raise":
                exceptions[obs["exception"]] += 1
        outcome_count[(t["expect"], "ok" if not bad else "DIFFERENT")] += 1
        if bad and t["entry"] == "error_residual_std":
            # one verdict per concrete input (the known finding of this entry is a single variant; others must still show)
            for lab, seen, obs in bad:
                slug = "".join(c if c.isalnum() else "-" for c in lab.split(":")[0]).strip("-")
                rep.violation(
                    _key(t) + ":" + slug,
                    f"{t['entry']}: field `{t['field']}` with corruption {t['corruption']} [{lab}], {t['fact']} model: specified {t['expect']}, but the library {seen}",
                    {"tuple": t, "variant": lab},
                )
        elif bad:
            lab, seen, obs = bad[0]
            others = "" if len(bad) == 1 else f" (and {len(bad) - 1} more of {len(results)} variants: " + "; ".join(f"{l} -> {s}" for l, s, _ in bad[1:3]) + ")"
            rep.violation(
                _key(t),
                f"{t['entry']}: field `{t['field']}` with corruption {t['corruption']} [{lab}], {t['fact']} model (valid leaf kind: {t['kind']}): "
                f"specified {t['expect']}, but the library {seen}{others}",
                {"tuple": t, "variant": lab},
            )
    rep.extra["tuples"] = len(tuples)
    rep.extra["variants_replayed"] = variants
    rep.extra["outcomes"] = {f"{e}:{o}": n for (e, o), n in sorted(outcome_count.items())}
    rep.extra["exception_types_seen"] = dict(exceptions)
    rep.exhaustive = True
    rep.assumptions = [
        "one field is corrupted at a time; the otherwise valid call is a 2-dimensional first-order ODE with three Taylor coefficients, eager (not jitted) unless the routine is a solve",
        "first use of a prior = transition with a valid calibrated scale and one step of probdiffeq.solver (filter, TS0); of a constraint = one solver step; "
        "of a loss = its evaluation; of an error estimator = one adaptive solve over two steps; of the matrix-free model = one solver_dynamic step",
        "`raise` is any Python exception (also AssertionError or an error from jax itself); NaN/inf output without an exception counts as silent",
        "exponential priors exist for the dense model only (documented NotImplementedError elsewhere); the ensemble size belongs to state_space_model_matfree, filed under the block-diagonal factorisation it extends",
        "a warning names a remedy if its text mentions a strategy that suits the routine (filter / fixed-point for save_at, filter / fixed-interval for a fixed grid)",
    ]
    return rep.finish()


def replay(rep_obj) -> int:
    r = rep_obj.get("replay") or {}
    print(rep_obj.get("key"), "-", rep_obj.get("what"))
    t = r.get("tuple")
    if not t:
        return 1
    bad = 0
    for label, ok, seen, _ in _check_tuple(t):
        print(f"  [{label}] specified {t['expect']}: the library {seen}")
        bad += 0 if ok else 1
    return 1 if bad else 0
