"""C11 - jet-lifting and constraint constructors differentiate constraints exactly.

TLC: JetPoly.tla, kinds "lift" and "lin".  For polynomial ODE right-hand sides (order 1, 2) and residuals of
differential order 0..2 in (u, u', u'', t): the total time derivatives d^l/dt^l g, l = 0..L, along the curve with
the supplied coefficients, by composing truncated power series (including the series (t, 1, 0, ..) of the time
variable) and by evaluating the symbolically differentiated polynomial D^l g (invariant: both agree; Leibniz
rule; D^L g needs at most J + L coefficients = admissible range of lift_by); u^(m) - f for residual_from_ode;
value, full / per-dimension / trace-averaged Jacobian and the affine offsets G(xi) - J xi of each (lifted)
constraint, Jacobians cross-checked against first-order series perturbations; TS0 model (selector, -f).
bind: JetOde.jet_lift / jet_lift_max, JetResidual.jet_lift / jet_lift_max, residual_from_ode, residual_from_stack
evaluated on integer coefficient lists (flat and nested pytrees), inadmissible and non-integer lift orders;
constraint_ode_ts0 / constraint_ode_ts1 / constraint_residual(...).linearize for the dense, isotropic and
block-diagonal models with jacobian_materialize.
"""

from __future__ import annotations

import random

from harness import exact, jetlift, jets
from harness.report import Report


def run(tier: str, seed: int) -> int:
    rep = Report("C11", tier, seed)
    rep.rule = (
        "a case is one comparison of one library output (lifted function values, index bookkeeping, rejection of a lift order, "
        "A / offset / noise factor of a linearised constraint in one factorisation) with the specification on one program; "
        "distinct = distinct (program, call site); non-trivial = lift_by >= 1 or a Jacobian that is not identically zero"
    )
    rng = random.Random(11_000 + seed)
    quick = tier == "quick"
    dmax = 2 if quick else 3
    lmax = 4 if quick else 5
    n_lift, n_bad, n_stack, n_lin = (40, 8, 8, 30) if quick else (400, 60, 60, 300)

    progs = []
    # fixed: u' = u^2 + t^2 lifted by 2 along (1, 2, 6, 5); position constraint with explicit time
    progs.append(dict(kind="lift", d=1, J=1, dout=1, fromode=True, polys=[[(1, (2, 0)), (1, (0, 2))]], tdep=True, L=2, c=[[1], [2], [6], [5]], t=1, tree=False, tree_variant=0))
    progs.append(dict(kind="lift", d=2, J=1, dout=1, fromode=False, polys=[[(1, (2, 0, 0)), (1, (0, 2, 0)), (-1, (0, 0, 2))]], tdep=True, L=3, c=[[1, 0], [0, 2], [-1, 1], [2, 2]], t=1, tree=True, tree_variant=0))
    for L in range(0, lmax + 1):  # every lift order at least once for both families
        for fromode in (True, False):
            p = jetlift.lift_program(rng, dmax=dmax, lmax=lmax)
            while p["L"] != L or p["fromode"] != fromode:
                p = jetlift.lift_program(rng, dmax=dmax, lmax=lmax)
            progs.append(p)
    while len(progs) < n_lift:
        progs.append(jetlift.lift_program(rng, dmax=dmax, lmax=lmax))
    progs += [jetlift.lift_program(rng, dmax=dmax, lmax=lmax, inadmissible=True) for _ in range(n_bad)]
    progs += [jetlift.stack_program(rng, dmax=dmax) for _ in range(n_stack)]
    progs.append(dict(kind="lin", d=2, J=1, fromode=True, polys=[[(1, (1, 1, 0)), (1, (0, 0, 3))], [(2, (2, 0, 0))]], tdep=True, L=1, xi=[[1, -1], [2, 0], [1, 3], [0, 1]], t=2, damp=jetlift.F(1, 2)))
    progs += [jetlift.lin_program(rng, dmax=dmax, lmax=2) for _ in range(n_lin)]
    progs += [jetlift.lin_program(rng, mc_exact=True) for _ in range(4 if tier == "quick" else 20)]

    insts, owner = [], []
    for j, p in enumerate(progs):
        if p["kind"] == "lift":
            insts.append(jetlift.lift_tla(p))
            owner.append((j, 0))
        elif p["kind"] == "stack":
            for q, part in enumerate(p["parts"]):
                insts.append(jetlift.lift_tla(part))
                owner.append((j, q))
        else:
            insts.append(jetlift.lin_tla(p))
            owner.append((j, 0))
    res, dropped, st, gen, fail = exact.eval_instances("JetPoly", insts, invariants=["CheckAndPrint"], batch=8, parallel=12)
    rep.states += st
    rep.transitions += gen
    if fail is not None:
        rep.violation(f"spec:JetPoly:{fail[0].violated}", "JetPoly law violated", {"tlc_tail": fail[0].stdout[-3000:]})
    exp = {}
    for q, own in enumerate(owner):
        if q in res:
            exp[own] = res[q]

    jobs, jobprog = [], []
    for j, p in enumerate(progs):
        if p["kind"] == "stack":
            es = [exp.get((j, q)) for q in range(len(p["parts"]))]
            if any(e is None for e in es):
                continue
            jobs.append(("stack", p, es))
        else:
            e = exp.get((j, 0))
            if e is None:
                continue
            jobs.append((p["kind"], p, e))
        jobprog.append(j)
    outs = jets.pool_map(jetlift.replay_job, jobs)
    counts = {"lift": 0, "lift_inadmissible": 0, "stack": 0, "lin": 0}
    for j, out in zip(jobprog, outs):
        p = progs[j]
        if out.get("crash"):
            raise RuntimeError("replay worker crashed:\n" + out["crash"])
        rep.traces += 1
        kind = p["kind"]
        if kind == "lift" and not exp[(j, 0)]["admissible"]:
            counts["lift_inadmissible"] += 1
        else:
            counts[kind] += 1
        nontrivial = (kind == "stack") or p["L"] >= 1 or kind == "lin"
        for c in range(out["calls"]):
            rep.add_case((j, c) if nontrivial else None)
        desc = jetlift.describe(p)
        rep.sample({"kind": kind, "program": desc}, cap=6)
        for key, what in out["fails"]:
            rep.violation(key, f"{desc}: {what}", {"program": p})
    rep.extra["program_counts"] = counts
    rep.extra["instances_dropped_for_32bit_overflow"] = len(dropped)
    rep.assumptions = [
        "polynomial right-hand sides / residuals only (degree <= 2 in the jet variables, <= 3 in t, coefficients in {-1,0,1,2}), integer coefficient lists and times",
        f"lift orders 0..{lmax} for values, 0..2 for linearised constraints; d <= {dmax}",
        "Jacobians via jacobian_materialize (exact); the Monte-Carlo handlers are the subject of C12's Hutchinson specification, not of this check",
        "a stack of residuals is evaluated (plain and with lifted parts); lifting a stack as a whole is not part of the property (the library's lift expects a single output list)",
        "rejection of an inadmissible / non-integer lift order may happen at construction or at the first call; any exception type counts as rejection",
        "float64 vs exact rationals at 1e-9 relative; the noise factor must equal damp * I exactly",
    ]
    return rep.finish()


def _revive(p):
    p = dict(p)
    if p["kind"] == "stack":
        p["parts"] = [_revive(q) for q in p["parts"]]
        return p
    p["polys"] = [[(c, tuple(e)) for c, e in comp] for comp in p["polys"]]
    if "damp" in p:
        p["damp"] = jetlift.F(p["damp"])
    return p


def replay(rep_obj) -> int:
    """re-evaluate the recorded program with TLC and push it through the library again"""
    print(rep_obj.get("what"))
    r = rep_obj.get("replay") or {}
    if "program" not in r:
        return 1
    p = _revive(r["program"])
    if p["kind"] == "stack":
        insts = [jetlift.lift_tla(q) for q in p["parts"]]
    else:
        insts = [jetlift.lift_tla(p) if p["kind"] == "lift" else jetlift.lin_tla(p)]
    res, _d, _s, _g, fail = exact.eval_instances("JetPoly", insts, invariants=["CheckAndPrint"], batch=4)
    if fail is not None or len(res) != len(insts):
        print("JetPoly law violated / instance not representable")
        return 1
    job = ("stack", p, [res[q] for q in range(len(insts))]) if p["kind"] == "stack" else (p["kind"], p, res[0])
    out = jetlift.replay_job(job)
    if out.get("crash"):
        print(out["crash"])
        return 2
    for key, what in out["fails"]:
        print("  ", key, what[:300])
    return 1 if out["fails"] else 0
