"""C06 - adaptive step control is safe for every accept/reject history.

TLC: AdaptiveLoop.tla, exhaustive within MaxAtt, invariants + action properties (+ liveness).
bind: spec -> code replay of TLC-generated behaviours through the real RejectionLoop /
      solve_adaptive_save_at / solve_adaptive_terminal_values / save-every-step / solve_fixed_grid
      and the real controllers (scripted solver + estimator), compared event by event;
      code -> spec: rank-abstracted traces of real probabilistic solves validated by TLC
      (TraceAdaptiveLoop.tla), see harness/l0_trace.py.
"""

from __future__ import annotations

import concurrent.futures as cf
import random
from fractions import Fraction as F

from harness import l0, tlc
from harness.report import Report


def _configs(tier):
    cfgs = []
    if tier == "quick":
        plan = [
            ("ties", "flat", "I_7_8", False, 1, 12),
            ("ties", "tight_then_loose", "I_1", True, 1, 12),
            ("dense", "valley", "I_7_8", False, 4, 12),
            ("remainder", "loose_then_tight", "I_1_2", True, F(1, 4), 10),
            ("mixed", "valley", "I_1", False, 1, 12),
            ("sparse", "valley", "I_7_8", True, F(1, 4), 12),
            ("ties", "valley", "PI_7_8", False, 1, 9),
            ("mixed", "tight_then_loose", "PI_3_4", True, 1, 9),
            ("dense", "flat", "PI_1", False, F(1, 4), 10),
        ]
    else:
        plan = []
        j = 0
        for lay in l0.LAYOUTS:
            for prof in l0.PROFILES:
                for ctrl in l0.CONTROLLERS:
                    for clip in (False, True):
                        # dt0 smaller / equal / larger than the checkpoint spacing, cycled over the 240 combinations
                        dt0 = (1, F(1, 4), 4)[j % 3]
                        j += 1
                        ma = 12 if ctrl.startswith("I") else 10
                        plan.append((lay, prof, ctrl, clip, dt0, ma))
    for j, (lay, prof, ctrl, clip, dt0, ma) in enumerate(plan):
        # every other configuration offers error powers far below one, so that the LOWER factor clip is active
        # (safety * 1/8 < factor_min for all controllers except I_1_2), the others keep the milder rejections
        eprej = {F(1, 8), F(3, 4)} if j % 2 == 0 else None
        cfgs.append(l0.make_config(lay, prof, ctrl, clip, dt0, max_att=ma, eprej=eprej))
        if eprej:
            cfgs[-1]["_name"] += "/eprej=1/8"
    return cfgs


def _mode_configs(tier):
    out = []
    # save-every-step (test_util) and fixed grid drivers
    out.append(l0.make_config("sparse", "valley", "I_7_8", False, 1, mode="every_step", max_att=12))
    out.append(l0.make_config("remainder", "flat", "I_1", True, 1, mode="every_step", max_att=12, eps=F(1, 64)))
    out.append(l0.make_config("remainder", "flat", "I_1", False, 1, mode="every_step", max_att=12, eps=F(1, 64)))
    out.append(l0.make_config("mixed", "flat", "I_1", False, 1, mode="fixed_grid", max_att=1))
    if tier == "thorough":
        for lay in ("ties", "dense", "mixed"):
            for ctrl in ("I_1_2", "PI_7_8"):
                for clip in (False, True):
                    out.append(l0.make_config(lay, "valley", ctrl, clip, 1, mode="every_step", max_att=12))
    return out


REDUCED = []


def _tlc_job(cfg, idx, tier):
    """a configuration whose exhaustive run does not finish in its time budget (machine load) is re-run with a bound of
    two attempts fewer instead of failing the whole check; the reduction is reported in the evidence"""
    try:
        return _tlc_job_once(cfg, idx, tier)
    except tlc.MachineryError as e:
        if "timeout" not in str(e).lower() or cfg["MaxAtt"] <= 8:
            raise
        REDUCED.append(f"{cfg['_name']}: MaxAtt {cfg['MaxAtt']} -> {cfg['MaxAtt'] - 2}")
        return _tlc_job(dict(cfg, MaxAtt=cfg["MaxAtt"] - 2), idx, tier)


def _tlc_job_once(cfg, idx, tier):
    """exhaustive check + behaviour generation for one configuration (own workdir, few workers)"""
    wd = tlc.make_workdir()
    try:
        mode = cfg["Mode"]
        invs = list(l0.INVARIANTS)
        props = list(l0.PROPERTIES)
        if mode == "every_step":
            invs.append("EveryStepReportsEachStep")
            props.append("EveryStepAlwaysSteps")
        base = "AdaptiveLoop"
        if mode in ("save_at", "every_step"):
            # refinement of the unbounded abstraction whose inductive invariant Apalache discharges (spec/LoopGeometry.tla)
            base = "AdaptiveLoopRefinesGeometry"
            invs.append("GeometryInvariant")
            props.append("RefinesGeometry")
        mod = tlc.write_model(wd, f"mc{idx}", base, l0.tla_consts(cfg), invariants=invs, properties=props, constraint="Bounded", view="view")
        mc = tlc.run_tlc(wd, mod, workers=4, coverage=True, timeout_s=1500 if tier == "quick" else 2400, heap="3g")
        live = None
        if mc.ok and mode != "fixed_grid":
            live_mod = tlc.write_model(
                wd, f"lv{idx}", "AdaptiveLoop", l0.tla_consts(dict(cfg, MaxAtt=min(cfg["MaxAtt"], 10))),
                spec="FairSpec", properties=["Terminates"], constraint="Bounded", view="view",
            )
            live = tlc.run_tlc(wd, live_mod, workers=4, timeout_s=1500, heap="3g")
        behs = []
        gen_states = 0
        if mc.ok:
            gen_att = 1 if mode == "fixed_grid" else (7 if tier == "quick" else 8)
            g, b1 = l0.generate(wd, dict(cfg, MaxAtt=min(gen_att, cfg["MaxAtt"])), f"g{idx}", timeout_s=1500)
            gen_states += g.distinct
            behs += b1
            if mode != "fixed_grid":
                n = 150 if tier == "quick" else 600
                g2, b2 = l0.generate(wd, dict(cfg, MaxAtt=cfg["MaxAtt"] + 2), f"s{idx}", simulate_num=n, seed=idx + 1, timeout_s=1500)
                behs += b2
        return cfg, mc, live, behs, gen_states
    finally:
        tlc.cleanup(wd)


def run(tier: str, seed: int) -> int:
    rep = Report("C06", tier, seed)
    rep.rule = (
        "a case is one TLC-generated behaviour (accept/reject history with checkpoint layout, profile, controller, "
        "clip) replayed through the real loop; distinct = distinct (config, event history); non-trivial = has >=1 "
        "rejection or >=1 interpolation event"
    )
    rng = random.Random(seed)
    cfgs = _configs(tier) + _mode_configs(tier)
    budget = 120 if tier == "quick" else 500
    action_cov = {}
    results = []
    with cf.ThreadPoolExecutor(max_workers=4) as ex:
        geo = ex.submit(_geometry)
        futs = [ex.submit(_tlc_job, c, i, tier) for i, c in enumerate(cfgs)]
        for f in futs:
            results.append(f.result())
        for key, what, tail in geo.result():
            rep.violation(key, what, {"apalache_tail": tail})
    rep.extra["unbounded_geometry"] = dict(GEOMETRY_INFO)

    for cfg, mc, live, behs, gen_states in results:
        name = cfg["_name"]
        rep.add_tlc(mc)
        for a, (d, t) in mc.coverage.items():
            action_cov[a] = action_cov.get(a, 0) + t
        if not mc.ok:
            key = f"spec:{mc.violated}:{cfg['Mode']}"
            rep.violation(key, f"TLC: {mc.violated} violated on AdaptiveLoop with {name}", {"config": _ser(cfg), "tlc_tail": mc.stdout[-4000:]})
            continue
        if live is not None:
            rep.add_tlc(live)
            if not live.ok:
                rep.violation(f"spec:liveness:{cfg['Mode']}", f"TLC: termination violated with {name}", {"config": _ser(cfg), "tlc_tail": live.stdout[-4000:]})
                continue
        _replay_all(rep, cfg, behs, budget, rng)
        if cfg["Mode"] == "every_step" and cfg["CtrlKind"] == "I" and cfg["Safety"] == 1:
            _probe_every_step_hang(rep, cfg)
        if cfg["Mode"] == "save_at" and len(cfg["Ckpts"]) == 2:
            _replay_all(rep, cfg, behs, budget // 2, rng, terminal_api=True)

    # terminal-value API (two checkpoints)
    tcfgs = [l0.make_config("sparse", "valley", "I_7_8", True, 1, max_att=10), l0.make_config("sparse", "flat", "PI_7_8", False, F(1, 4), max_att=9)]
    for i, cfg in enumerate(tcfgs):
        _, mc, live, behs, _ = _tlc_job(cfg, 900 + i, tier)
        rep.add_tlc(mc)
        if mc.ok:
            _replay_all(rep, cfg, behs, budget // 2, rng, terminal_api=True)
            _replay_all(rep, cfg, behs[: budget // 4], budget // 4, rng, jit=False)

    # code -> spec: rank-abstracted traces of real adaptive solves validated by TLC (TraceAdaptiveLoop.tla)
    _real_traces(rep, tier, seed)

    # vacuity: every action of the loop must have been taken somewhere
    needed = ["LoopEnter", "RloopBody", "RloopExit", "InterpSkip", "InterpBeyond", "InterpAt", "Continue", "Emit", "WhileTest", "AppendStep", "GridStep"]
    missing = [a for a in needed if action_cov.get(a, 0) == 0]
    rep.extra["action_coverage"] = {a: action_cov.get(a, 0) for a in needed}
    rep.extra["configs"] = len(cfgs) + len(tcfgs)
    rep.extra["configs_with_reduced_attempt_bound_after_timeout"] = list(REDUCED)
    if missing:
        raise RuntimeError(f"vacuous configuration set: actions never taken: {missing}")
    rep.assumptions = [
        "the scripted solver/estimator implement SInit/Step/InterpFwd/InterpAtT1 of AdaptiveLoop.tla (40 lines, harness/scripted.py)",
        "dyadic numbers: float64 arithmetic of the implementation is exact on every replayed behaviour",
        "histories are bounded by MaxAtt attempts per configuration; controllers are replayed with integer exponents",
    ]
    return rep.finish()


GEOMETRY_INFO = {}
GEOMETRY_MUTANTS = {
    # each must be REJECTED by the inductive step (vacuity guard for the proof obligation itself)
    "beyond-keeps-interp_from-at-step_from": ("  /\\ ifrt' = t1\n", "  /\\ ifrt' = sft\n"),
    "at-branch-without-lower-guard": ('  /\\ pc = "interp" /\\ ~IsBefore /\\ ~IsAfter\n', '  /\\ pc = "interp" /\\ ~IsAfter\n'),
    "clip-to-the-wrong-distance": ("Min2(rdt, t1 - rsft)", "Min2(rdt, t1 - rsft + 1)"),
    # the pinned tree's `while step_from.t < t1` (repaired by fix 578a80a): an iteration that takes no step becomes reachable
    "every-step-while-test-without-eps": ("  /\\ pc' = IF IsBefore THEN \"loop_enter\" ELSE \"done\"\n", "  /\\ pc' = IF sft < t1 THEN \"loop_enter\" ELSE \"done\"\n"),
}


def _geometry():
    """Apalache: IndInv of spec/LoopGeometry.tla is inductive for every layout / eps / controller / attempt count."""
    import os

    from harness import apalache

    out = []
    obligations = [("Init", "IndInv", 0, "initial states satisfy the invariant"),
                   ("IndInit", "IndInv", 1, "the invariant is preserved by every action"),
                   ("IndInit", "Consequences", 0, "the invariant implies the user-facing consequences")]
    secs = 0.0
    for init, inv, length, what in obligations:
        ok, s, tail = apalache.check("LoopGeometry", init, inv, length, "CInit")
        secs += s
        if not ok:
            out.append((f"spec:geometry:{inv}:{length}", f"Apalache: {what} - refuted on LoopGeometry.tla", tail))
    src = open(os.path.join(tlc.SPEC_DIR, "LoopGeometry.tla")).read()
    rejected = 0
    for name, (a, b) in GEOMETRY_MUTANTS.items():
        if a not in src:
            raise tlc.MachineryError(f"geometry mutant {name}: anchor text not found in LoopGeometry.tla")
        ok, s, _ = apalache.check("LoopGeometry", "IndInit", "IndInv", 1, "CInit", source=src.replace(a, b))
        secs += s
        if ok:
            raise tlc.MachineryError(f"vacuous proof obligation: mutated LoopGeometry ({name}) still passes the inductive step")
        rejected += 1
    GEOMETRY_INFO.update(tool="apalache-mc 0.58 (SMT, unbounded integers)", obligations=len(obligations), mutants_rejected=rejected, seconds=round(secs, 1),
                         scope="all checkpoint layouts and lengths, all eps >= 0, clip on/off, any controller/estimator, any number of attempts (save_at and save-every-step drivers)")
    return out


def _real_traces(rep, tier, seed):
    from harness import l0_trace
    from probdiffeq import ivpsolve

    rng = random.Random(seed + 77)
    controls = [
        ("I-default", lambda: ivpsolve.control_integral()),
        ("PI-default", lambda: ivpsolve.control_proportional_integral()),
        ("I-tight", lambda: ivpsolve.control_integral(safety=0.8, factor_min=0.5, factor_max=1.5)),
        ("PI-custom", lambda: ivpsolve.control_proportional_integral(safety=0.9, factor_min=0.1, factor_max=5.0, exponent_integral=0.5, exponent_proportional=0.2)),
    ]
    layouts = [[0.0, 0.3, 0.30000000001, 0.7, 1.0], [0.0, 1.0], [0.0, 0.05, 0.1, 0.15, 0.2, 1.0], [0.0, 0.5, 1.0 - 1e-9, 1.0]]
    combos = []
    for ssm_name in ("dense", "iso", "bd"):
        for sv in ("solver", "mle", "dynamic"):
            for strat in ("filter", "fixedpoint"):
                for ts in ("ts0", "ts1"):
                    combos.append((ssm_name, sv, strat, ts))
    rng.shuffle(combos)
    n = 6 if tier == "quick" else 72
    traces, meta = [], []
    for j, (ssm_name, sv, strat, ts) in enumerate(combos[:n]):
        cname, cmk = controls[j % len(controls)]
        clip = bool((j // 2) % 2)
        prob = "vdp2" if (j % 3 == 2 and ssm_name != "iso") else "logistic"
        tol = 10.0 ** (-rng.randint(2, 7))
        kw = dict(control=cmk(), clip=clip, save_at=layouts[j % len(layouts)], dt0=rng.choice([0.5, 0.05, 0.001]), eps=1e-8)
        est = "state" if j % 5 == 4 else "residual"
        events, sol = l0_trace.record(prob, ssm_name, ts if prob == "logistic" else "ts0", sv, strat, atol=tol * 0.1, rtol=tol, estimator=est, **kw)
        traces.append(l0_trace.abstract(events, sol, **kw))
        meta.append(f"{prob}/{ssm_name}/{ts}/{sv}/{strat}/{cname}/clip={int(clip)}/tol={tol:g}/dt0={kw['dt0']}/{est}")
    if not traces:
        return
    verdicts, res = l0_trace.validate(traces)
    rep.states += res.distinct
    rep.transitions += res.generated
    nrej = 0
    for tr, m, v in zip(traces, meta, verdicts):
        rep.traces += 1
        rej = sum(1 for e in tr["ev"] if e["op"] == "attempt" and not e["acc"])
        nrej += rej
        rep.add_case(("real-trace", m) if rej or any(e["op"] in ("at", "beyond") for e in tr["ev"]) else None)
        if v is None or not v["ok"]:
            why = "no verdict" if v is None else v["why"]
            at = 0 if v is None else v["at"] - 1
            rep.violation(f"impl:real-trace:{why.split(':')[0].replace(' ', '-')}:{'-'.join(why.split(':')[-1].split()[:6])}",
                          f"{m}: trace of a real solve rejected at event {at}: {why}", {"config": m, "trace": tr, "rejected_at": at})
    rep.extra["real_traces"] = len(traces)
    rep.extra["real_trace_rejections_seen"] = nrej


def _ser(cfg):
    return {k: (sorted(str(x) for x in v) if isinstance(v, set) else str(v) if isinstance(v, F) else v) for k, v in cfg.items()}


def _nontrivial(beh):
    rej = sum(1 for h in beh["hist"] if h["ev"] == "attempt" and h["ep"][0] < h["ep"][1])
    itp = sum(1 for h in beh["hist"] if h["ev"] in ("beyond", "at"))
    return rej + itp > 0


def _replay_all(rep, cfg, behs, budget, rng, terminal_api=False, jit=True):
    if cfg["Mode"] == "every_step":
        budget = min(budget, 25)
    if len(behs) > budget:
        behs = rng.sample(behs, budget)
    if not behs:
        return
    rp = l0.Replayer(cfg, terminal_api=terminal_api, jit=jit)
    for beh in behs:
        res, events = rp.execute(beh, timeout_s=240)
        diffs = rp.compare(beh, res, events)
        rep.traces += 1
        ident = (cfg["_name"], terminal_api, jit, repr(beh["hist"]))
        rep.add_case(ident if _nontrivial(beh) else None)
        rep.sample({"config": cfg["_name"], "events": [h["ev"] + (":" + "/".join(map(str, h["ep"])) if h["ev"] == "attempt" else "") for h in beh["hist"]]})
        if diffs:
            first = diffs[0]
            kind = first.split(":")[0].split(" ")[0]
            exp_ev = l0.expected_events(beh)
            key = f"impl:{cfg['Mode']}:{'terminal' if terminal_api else 'solve'}:{_classify(first)}"
            rep.violation(key, f"{cfg['_name']}: {first[:600]}", {"config": _ser(cfg), "behaviour": beh, "impl_events": events, "spec_events": exp_ev, "diffs": diffs})


def _classify(diff: str) -> str:
    if diff.startswith("event"):
        # event i: spec ('name', ...) != impl ('name'|None ...)
        try:
            spec_name = diff.split("spec (")[1].split(",")[0].strip("'\"")
        except IndexError:
            spec_name = "none"
        return f"event-{spec_name}"
    return diff.split(":")[0].replace(" ", "-")


def _probe_every_step_hang(rep, cfg):
    """TLC found an iteration of the save-every-step loop that takes no step; show it on the real code."""
    rp = l0.Replayer(cfg)
    # a script that lands within (t1 - eps, t1): all attempts accepted with ep = 1 (I_1: factor 1)
    t1, eps, dt0 = cfg["Ckpts"][-1], cfg["Eps"], cfg["Dt0"]
    hist, t, n = [], cfg["Ckpts"][0], 0
    while t + eps < t1:
        hist.append({"ev": "attempt", "from": {"t": t}, "used": dt0, "ep": [1, 1]})
        t += dt0
    res, events = rp.execute({"hist": hist}, timeout_s=120)
    rep.traces += 1
    rep.add_case((cfg["_name"], "landing-within-eps-before-t1"))
    if res is None:
        rep.violation(
            "impl:every_step:idle-iteration-hang",
            "test_util.solve_adaptive_save_every_step never returns when a step ends in (t1-eps, t1): the loop "
            "`while step_from.t < t1` keeps calling loop() which only re-interpolates",
            {"config": _ser(cfg), "script": hist},
        )


def replay_exact(rep_obj) -> int:
    """Re-run one recorded divergence against the current tree."""
    r = rep_obj["replay"]
    if not r or "behaviour" not in r:
        print("replay file carries no behaviour (spec-level violation); re-run the check instead")
        return 2
    cfg = r["config"]
    cfg = dict(cfg)
    for k in ("Safety", "FMin", "FMax"):
        cfg[k] = F(cfg[k])
    term = ":terminal:" in rep_obj["key"]
    rp = l0.Replayer(cfg, terminal_api=term)
    res, events = rp.execute(r["behaviour"])
    diffs = rp.compare(r["behaviour"], res, events)
    for d in diffs:
        print(d[:800])
    if diffs:
        print(f"VIOLATION property=C06 replay=<given>")
        return 1
    print("replay conforms on the current tree")
    return 0
