"""Apalache runner: inductive-invariant checks (Init => Inv at length 0, Inv /\\ Next => Inv' at length 1)."""

from __future__ import annotations

import os
import re
import shutil
import subprocess
import tempfile

from harness.tlc import SPEC_DIR, MachineryError


def check(module: str, init: str, inv: str, length: int, cinit: str | None = None, timeout_s: int = 900, source: str | None = None):
    """returns (ok, seconds, tail).  ok=False means Apalache produced a counterexample; anything else raises."""
    wd = tempfile.mkdtemp(prefix="verif_apa_")
    try:
        for f in os.listdir(SPEC_DIR):
            if f.endswith(".tla"):
                shutil.copy(os.path.join(SPEC_DIR, f), os.path.join(wd, f))
        if source is not None:
            with open(os.path.join(wd, module + ".tla"), "w") as fh:
                fh.write(source)
        cmd = ["apalache-mc", "check", f"--init={init}", f"--inv={inv}", f"--length={length}", f"--out-dir={wd}/out"]
        if cinit:
            cmd.append(f"--cinit={cinit}")
        cmd.append(module + ".tla")
        try:
            p = subprocess.run(cmd, cwd=wd, capture_output=True, text=True, timeout=timeout_s)
        except subprocess.TimeoutExpired as e:
            raise MachineryError(f"apalache timed out after {timeout_s}s on {module}:{inv}") from e
        out = p.stdout + p.stderr
        m = re.search(r"Total time: ([0-9.]+) sec", out)
        secs = float(m.group(1)) if m else 0.0
        if "The outcome is: NoError" in out and "EXITCODE: OK" in out:
            return True, secs, out[-1500:]
        if "The outcome is: Error" in out or "violation" in out.lower() and "EXITCODE: ERROR (12)" in out:
            return False, secs, out[-3000:]
        raise MachineryError(f"apalache failed on {module}:{inv}: {out[-2000:]}")
    finally:
        shutil.rmtree(wd, ignore_errors=True)
