"""C09 binding: IwpExact.tla / ExpGramExact.tla instances -> real priors and gram_util."""

from __future__ import annotations

import random
from fractions import Fraction as F

import jax
import jax.numpy as jnp
import numpy as np

jax.config.update("jax_enable_x64", True)

from probdiffeq import probdiffeq as pdq  # noqa: E402
from probdiffeq.backend import linalg  # noqa: E402
from probdiffeq.util import gram_util  # noqa: E402

from harness.exact import close, maxerr, to_float  # noqa: E402

H_CHOICES = [F(1, 4), F(1, 2), F(1), F(2), F(3)]
SIGMAS = [F(1), F(2), F(1, 2), F(3)]
LAMS = [F(1), F(2), F(1, 2)]


def iwp_instance(rng, kind, q=None, d=None):
    q = rng.randint(0, 5) if q is None else q
    d = rng.randint(1, 3) if d is None else d
    lam = [rng.choice(LAMS) for _ in range(d)]
    if kind == "iso":
        lam = [lam[0]] * d
    hs = H_CHOICES if q <= 3 else ([F(1, 2), F(1), F(2)] if q == 4 else [F(1), F(2)])
    return dict(kind=kind, q=q, d=d, h1=rng.choice(hs), h2=rng.choice(hs), sigma=rng.choice(SIGMAS), lam=lam)


def iwp_tla(inst):
    return {"q": inst["q"], "h1": inst["h1"], "h2": inst["h2"], "sigma": inst["sigma"], "lam": list(inst["lam"]), "laws": inst["q"] <= 4}


def _ssm(kind):
    return {"dense": pdq.state_space_model_dense, "iso": pdq.state_space_model_isotropic, "bd": pdq.state_space_model_blockdiag}[kind]()


def _fmt(kind, vec, r, d):
    v = jnp.asarray(vec)
    if kind == "dense":
        return v
    if kind == "iso":
        return v.reshape((r, d))
    return v.reshape((r, d)).T


def effective(cond, kind, n, d):
    """dense (A, Q) of a conditional, read off through apply_flat on unit points (the model's own embedding)"""
    N = n * d
    zero = cond.apply_flat(_fmt(kind, np.zeros(N), n, d)).to_multivariate_normal()
    b, Q = np.asarray(zero[0]), np.asarray(zero[1])
    cols = []
    for j in range(N):
        e = np.zeros(N)
        e[j] = 1.0
        m, _ = cond.apply_flat(_fmt(kind, e, n, d)).to_multivariate_normal()
        cols.append(np.asarray(m) - b)
    return np.stack(cols, axis=1), Q, b


def check_iwp(inst, exp, tol=1e-9):
    kind, q, d = inst["kind"], inst["q"], inst["d"]
    n = q + 1
    E = {k: to_float(v) for k, v in exp.items()}
    ssm = _ssm(kind)
    tcoeffs = [jnp.zeros((d,))] * n
    lam = np.array([float(x) for x in inst["lam"]])
    base = jnp.asarray(float(inst["lam"][0])) if kind == "iso" else jnp.asarray(lam)
    prior = ssm.prior_wiener_integrated(tcoeffs, output_scale=base)
    s = float(inst["sigma"])
    scale = jnp.asarray(s) if kind != "bd" else s * jnp.ones((d,))
    h1, h2 = float(inst["h1"]), float(inst["h2"])
    bad = []

    def cmp(name, got, want):
        if not close(got, want, tol):
            bad.append((name, f"relerr={maxerr(got, want):.3e}"))

    t1 = prior.transition(dt=h1, output_scale=scale)
    t2 = prior.transition(dt=h2, output_scale=scale)
    for name, t, Ak, Qk in [("h1", t1, "A_h1", "Q_h1"), ("h2", t2, "A_h2", "Q_h2")]:
        A, Q, b = effective(t, kind, n, d)
        cmp(f"transition({name}).A", A, E[Ak])
        cmp(f"transition({name}).Q", Q, E[Qk])
        cmp(f"transition({name}).offset", b, np.zeros(n * d))
        A, Q, b = effective(t.preconditioner_apply(), kind, n, d)
        cmp(f"transition({name}).preconditioner_apply.A", A, E[Ak])
        cmp(f"transition({name}).preconditioner_apply.Q", Q, E[Qk])
    A, Q, b = effective(t2.merge(t1), kind, n, d)
    cmp("merge(h2,h1).A", A, E["A_sum"])
    cmp("merge(h2,h1).Q", Q, E["Q_sum"])
    # process noise is linear in the calibrated scale: doubling it quadruples Q
    A4, Q4, _ = effective(prior.transition(dt=h1, output_scale=2.0 * scale), kind, n, d)
    cmp("transition(2*scale).Q", Q4, 4.0 * np.asarray(E["Q_h1"]))
    cmp("transition(2*scale).A", A4, E["A_h1"])
    return bad


# ------------------------------------------------------------------ exponential priors / gram_util
def nilpotent_instance(rng, n=None):
    """strictly upper triangular integer drift with random permutation similarity (still nilpotent)"""
    n = rng.randint(2, 5) if n is None else n
    A = [[(rng.randint(-2, 2) if j > i else 0) for j in range(n)] for i in range(n)]
    perm = list(range(n))
    rng.shuffle(perm)
    A = [[A[perm[i]][perm[j]] for j in range(n)] for i in range(n)]
    r = rng.randint(1, n)
    B = [[rng.randint(-2, 2) for _ in range(r)] for _ in range(n)]
    hs = [F(1, 4), F(1), F(4)] if n <= 3 else ([F(1), F(1, 4)] if n == 4 else [F(1)])
    return dict(type="matrix", n=n, A=A, B=B, h1=rng.choice(hs), h2=rng.choice(hs))


def expprior_instance(rng):
    """exponential prior u^(n) = sum_k M_k u^(k), M_k strictly upper triangular (=> nilpotent companion form)"""
    n = rng.randint(1, 3)
    d = rng.randint(1, 2) if n == 3 else rng.randint(1, 3)
    if n * d > 6:
        d = 2
    Ms = [[[(rng.randint(-2, 2) if b > a else 0) for b in range(d)] for a in range(d)] for _ in range(n)]
    lam = [rng.choice(LAMS) for _ in range(d)]
    # a NONLINEAR autonomous right-hand side: component a gets quad[a] * u_{a+1}^2 (still strictly "upper triangular", so
    # the drift = Jacobian at the initial Taylor coefficients stays nilpotent); the drift must be taken at tc0, not at 0
    quad = [(rng.randint(-1, 1) if (a + 1 < d and rng.random() < 0.6) else 0) for a in range(d)]
    tc0 = [[rng.randint(-2, 2) for _ in range(d)] for _ in range(n)]
    N = n * d
    A = [[0] * N for _ in range(N)]
    for i in range(n - 1):
        for a in range(d):
            A[i * d + a][(i + 1) * d + a] = 1
    for k in range(n):
        for a in range(d):
            for b in range(d):
                A[(n - 1) * d + a][k * d + b] = Ms[k][a][b]
    for a in range(d - 1):
        A[(n - 1) * d + a][a + 1] += 2 * quad[a] * tc0[0][a + 1]
    B = [[(lam[a] if (i == (n - 1) * d + a) else 0) for a in range(d)] for i in range(N)]
    hs = [F(1, 4), F(1), F(4)] if N <= 3 else ([F(1), F(1, 4)] if N == 4 else [F(1)])
    return dict(type="prior", n=n, d=d, Ms=Ms, quad=quad, tc0=tc0, lam=lam, A=A, B=B, h1=rng.choice(hs), h2=rng.choice(hs), sigma=rng.choice([F(1), F(2), F(1, 2)]), ou=(rng.random() < 0.4))


def expgram_tla(inst):
    from harness.exact import ratify

    # B is padded with zero columns to a square matrix (B B^T is unchanged); TLC's evaluation of the
    # Gramian on literal non-square matrices was pathologically slow
    n = len(inst["A"])
    Bp = [list(row) + [0] * (n - len(row)) for row in inst["B"]]
    return {"A": ratify(inst["A"]), "B": ratify(Bp), "h1": F(inst["h1"]), "h2": F(inst["h2"])}


PADE = {3: gram_util.pade_and_legendre_3, 5: gram_util.pade_and_legendre_5, 7: gram_util.pade_and_legendre_7, 9: gram_util.pade_and_legendre_9, 13: gram_util.pade_and_legendre_13}


def check_expgram_matrix(inst, exp, tol64=1e-11, tol32=2e-4):
    E = {k: to_float(v) for k, v in exp.items()}
    A = np.array(inst["A"], dtype=np.float64)
    B = np.array(inst["B"], dtype=np.float64)
    bad = []
    for hk, ek, gk in [("h1", "expm1", "gram1"), ("h2", "expm2", "gram2")]:
        h = float(inst[hk])
        for order, ctor in PADE.items():
            for dtype, tol in [(jnp.float64, tol64), (jnp.float32, tol32)]:
                fn = gram_util.exp_gram_cholesky(pade_legendre=ctor(), solve=linalg.solve_lu)
                eA, L = fn(jnp.asarray(A * h, dtype=dtype), jnp.asarray(B * np.sqrt(h), dtype=dtype))
                eA, L = np.asarray(eA, dtype=np.float64), np.asarray(L, dtype=np.float64)
                tag = f"order{order}.{'f64' if dtype == jnp.float64 else 'f32'}"
                if not close(eA, E[ek], tol):
                    bad.append((f"exp_gram_cholesky.{tag}.expm", f"h={h} relerr={maxerr(eA, E[ek]):.3e}"))
                if not close(L @ L.T, E[gk], tol):
                    bad.append((f"exp_gram_cholesky.{tag}.gramian", f"h={h} relerr={maxerr(L @ L.T, E[gk]):.3e}"))
    return bad


def check_expprior(inst, exp, tol=1e-10):
    """dense exponential prior (and integrated OU with a nilpotent rate matrix) vs exact transition"""
    from harness.priors import effective  # self

    E = {k: to_float(v) for k, v in exp.items()}
    n, d = inst["n"], inst["d"]
    Ms = [np.array(M, dtype=np.float64) for M in inst["Ms"]]
    ssm = _ssm("dense")
    quad = np.array(inst.get("quad", [0] * d), dtype=np.float64)
    tcoeffs = [jnp.asarray([float(x) for x in row]) for row in inst.get("tc0", [[0] * d] * n)]
    lam = jnp.asarray([float(x) for x in inst["lam"]])
    bad = []
    use_ou = inst["ou"] and all(not np.any(M) for M in Ms[:-1]) and not np.any(quad)
    if use_ou:
        prior = ssm.prior_ornstein_uhlenbeck_integrated(lambda x: jnp.asarray(Ms[-1]) @ x, tcoeffs, output_scale=lam)
        name = "prior_ornstein_uhlenbeck_integrated"
    else:
        def rhs(*us):
            shifted = jnp.concatenate([us[0][1:], jnp.zeros((1,))])  # u_{a+1}
            return sum(jnp.asarray(M) @ u for M, u in zip(Ms, us)) + jnp.asarray(quad) * shifted**2

        ode = pdq.ode_autonomous_order_arbitrary(rhs, num_tcoeffs_in_args=n)
        prior = ssm.prior_exponential(ode, tcoeffs, output_scale=lam)
        name = "prior_exponential"
    s = float(inst["sigma"])
    h1, h2 = float(inst["h1"]), float(inst["h2"])

    def cmp(nm, got, want):
        if not close(got, want, tol):
            bad.append((nm, f"relerr={maxerr(got, want):.3e}"))

    t1 = prior.transition(dt=h1, output_scale=jnp.asarray(s))
    t2 = prior.transition(dt=h2, output_scale=jnp.asarray(s))
    A, Q, b = effective(t1, "dense", n, d)
    cmp(f"{name}.transition(h1).A", A, E["expm1"])
    cmp(f"{name}.transition(h1).Q", Q, s * s * np.asarray(E["gram1"]))
    A, Q, b = effective(t2.preconditioner_apply(), "dense", n, d)
    cmp(f"{name}.transition(h2).A", A, E["expm2"])
    cmp(f"{name}.transition(h2).Q", Q, s * s * np.asarray(E["gram2"]))
    A, Q, b = effective(t2.merge(t1), "dense", n, d)
    cmp(f"{name}.merge.A", A, E["expm12"])
    cmp(f"{name}.merge.Q", Q, s * s * np.asarray(E["gram12"]))
    return bad
