"""C17 binding: Hutchinson.tla instances -> the real Jacobian handlers of probdiffeq/_probdiffeq/jacobians.py.

An instance is an integer polynomial map F : (n_in, d) -> (n_out, d) (coefficient tables) with an integer evaluation
point.  The spec gives F(x), the dense Jacobian, its diagonal blocks and trace along d, the mean estimate for explicit
probe lists, the key paths of a call sequence and the accept/reject verdict of shape cases.  The harness builds the map
as a real JAX function and runs the three handlers:
  * enumerated: `probdiffeq.backend.random.rademacher` (the attribute the handlers call) is replaced by an enumerator of
    all 2^(n d) sign tensors, num_probes = 2^(n d): the handler's own averaging must give the exact blocks;
  * call sequences on the real random numbers (a pass-through recorder around rademacher): returned state and drawn key
    follow the spec's key paths, the estimate equals the spec's mean for the probes actually drawn;
  * shape cases: rejected iff the spec says so.
"""

from __future__ import annotations

import contextlib
import itertools

import jax
import jax.numpy as jnp
import numpy as np

jax.config.update("jax_enable_x64", True)

import probdiffeq.backend.random as pd_random  # noqa: E402  (jacobians.py calls random.rademacher on this module)
from probdiffeq._probdiffeq import jacobians  # noqa: E402

from harness.exact import close, maxerr, to_float  # noqa: E402

assert jacobians.random is pd_random, "jacobians.py no longer draws through probdiffeq.backend.random"

TOL = 1e-12
ENTRIES = ("materialize_dense", "calculate_trace_along_d", "calculate_diagonal_along_d")
KIND_OF = {"materialize_dense": "dense", "calculate_trace_along_d": "trace", "calculate_diagonal_along_d": "diag"}
ENTRY_OF = {v: k for k, v in KIND_OF.items()}


# ------------------------------------------------------------------ instances
def _shape_case(rng):
    """(x is array, f(x) is array, x.shape, f(x).shape): ranks 0..3, dims 1..3"""
    r = rng.random()
    if r < 0.3:  # accepted
        d = rng.randint(1, 3)
        xs, fs = [rng.randint(1, 3), d], [rng.randint(1, 3), d]
    elif r < 0.5:  # 2-d / 2-d but trailing dimensions differ (includes the transposed layout)
        xs = [rng.randint(1, 3), rng.randint(1, 3)]
        fs = [rng.randint(1, 3), rng.choice([k for k in (1, 2, 3) if k != xs[1]])]
    else:
        xs = [rng.randint(1, 3) for _ in range(rng.choice([0, 1, 2, 2, 3]))]
        fs = [rng.randint(1, 3) for _ in range(rng.choice([0, 1, 2, 2, 3]))]
    xa = rng.random() > 0.12
    fa = rng.random() > 0.12
    return {"xa": xa, "fa": fa, "xs": xs, "fs": fs}


def instance(rng, nin, nout, d, *, n_calls=3, n_shapes=3, seed=None):
    x = [[rng.randint(-3, 3) for _ in range(d)] for _ in range(nin)]
    c = [[rng.randint(-5, 5) for _ in range(d)] for _ in range(nout)]
    # dense linear part: mostly non-zero and all different in distribution, so that a transposed layout shows
    A = [[[[rng.choice([-4, -3, -2, -1, 1, 2, 3, 4, 0]) for _ in range(d)] for _ in range(nin)] for _ in range(d)] for _ in range(nout)]
    monos = []
    for _ in range(rng.randint(0, 4)):
        deg = rng.choice([2, 2, 3])
        monos.append({"o": rng.randint(1, nout), "a": rng.randint(1, d), "k": rng.choice([-3, -2, -1, 1, 2, 3]), "f": [[rng.randint(1, nin), rng.randint(1, d)] for _ in range(deg)]})
    seed = rng.randint(0, 2**16) if seed is None else seed
    num_probes = rng.randint(1, 3)
    kinds = [rng.choice(["trace", "diag", "dense", "trace", "diag"]) for _ in range(n_calls)]
    if all(k == "dense" for k in kinds):
        kinds[-1] = "trace"
    inst = dict(nin=nin, nout=nout, d=d, x=x, c=c, A=A, monos=monos, seed=seed, num_probes=num_probes, shift=[[rng.randint(-2, 2) for _ in range(d)] for _ in range(nin)] if rng.random() < 0.5 else None, jit=rng.random() < 0.25, shapes=[_shape_case(rng) for _ in range(n_shapes)])
    # the probes the spec evaluates for each call: what jax draws from the key the key machine prescribes
    # (pure jax.random, not the code under test; if the handler draws differently, replay falls back to patching)
    key = jax.random.PRNGKey(seed)
    calls = []
    for kind in kinds:
        if kind == "dense":
            calls.append({"kind": kind, "vf": [], "vr": []})
            continue
        key, sub = jax.random.split(key, 2)
        vf = np.asarray(jax.random.rademacher(sub, (num_probes, nin, d), dtype=jnp.float64)).astype(int).tolist()
        vr = np.asarray(jax.random.rademacher(sub, (num_probes, nout, d), dtype=jnp.float64)).astype(int).tolist()
        calls.append({"kind": kind, "vf": vf, "vr": vr})
    inst["calls"] = calls
    return inst


def to_tla(inst):
    """the instance as Hutchinson.tla reads it (plain integers: the spec sums natively and divides once)"""

    def ints(v):
        return [ints(u) for u in v] if isinstance(v, (list, tuple)) else int(v)

    return {
        "nin": inst["nin"],
        "nout": inst["nout"],
        "d": inst["d"],
        "x": ints(inst["x"]),
        "c": ints(inst["c"]),
        "A": ints(inst["A"]),
        "monos": [{"o": m["o"], "a": m["a"], "k": int(m["k"]), "f": ints(m["f"])} for m in inst["monos"]],
        "calls": [{"kind": c["kind"], "vf": ints(c["vf"]), "vr": ints(c["vr"])} for c in inst["calls"]],
        "shapes": [{"xa": bool(s["xa"]), "fa": bool(s["fa"]), "xs": ints(s["xs"]), "fs": ints(s["fs"])} for s in inst["shapes"]],
    }


def python_jacobian(inst):
    """independent integer evaluation of F and dF (cross-check of the TLC output: a mismatch is a machinery failure)"""
    nin, nout, d = inst["nin"], inst["nout"], inst["d"]
    x = inst["x"]
    fx = [[inst["c"][o][a] + sum(inst["A"][o][a][p][q] * x[p][q] for p in range(nin) for q in range(d)) for a in range(d)] for o in range(nout)]
    J = [[[[inst["A"][o][a][p][q] for q in range(d)] for p in range(nin)] for a in range(d)] for o in range(nout)]
    for m in inst["monos"]:
        o, a = m["o"] - 1, m["a"] - 1
        vals = [x[p - 1][q - 1] for p, q in m["f"]]
        fx[o][a] += m["k"] * int(np.prod(vals))
        for t, (p, q) in enumerate(m["f"]):
            J[o][a][p - 1][q - 1] += m["k"] * int(np.prod(vals[:t] + vals[t + 1 :]))
    return np.array(fx, dtype=np.float64), np.array(J, dtype=np.float64)


# ------------------------------------------------------------------ the map as a JAX function
def make_fun(inst):
    """returns (fun, x, fun_kwargs) with fun(x, **fun_kwargs) = F(evaluation point)"""
    c = jnp.asarray(np.array(inst["c"], dtype=np.float64))
    A = jnp.asarray(np.array(inst["A"], dtype=np.float64))
    monos = inst["monos"]

    def poly(z):
        y = c + jnp.einsum("oapq,pq->oa", A, z)
        for m in monos:
            term = float(m["k"])
            for p, q in m["f"]:
                term = term * z[p - 1, q - 1]
            y = y.at[m["o"] - 1, m["a"] - 1].add(term)
        return y

    x0 = np.array(inst["x"], dtype=np.float64)
    if inst.get("shift") is None:
        return poly, jnp.asarray(x0), {}
    shift = np.array(inst["shift"], dtype=np.float64)

    def shifted(z, *, shift):
        return poly(z + shift)

    return shifted, jnp.asarray(x0 - shift), {"shift": jnp.asarray(shift)}


# ------------------------------------------------------------------ rademacher stand-ins
@contextlib.contextmanager
def patched_rademacher(fn):
    orig = pd_random.rademacher
    pd_random.rademacher = fn
    try:
        yield orig
    finally:
        pd_random.rademacher = orig


def all_signs(n, d):
    m = n * d
    return np.array(list(itertools.product([1.0, -1.0], repeat=m)), dtype=np.float64).reshape((2**m, n, d))


class Enumerator:
    """rademacher(key, shape=(s, n, d), dtype) -> every sign tensor of shape (n, d) exactly once (s must be 2^(n d))"""

    def __init__(self):
        self.requests = []
        self.bad = []

    def __call__(self, key, /, shape, dtype):
        shape = tuple(int(k) for k in shape)
        self.requests.append(shape)
        if len(shape) != 3:
            self.bad.append(shape)
            return jnp.ones(shape, dtype=dtype)
        s, n, d = shape
        full = all_signs(n, d)
        if s != full.shape[0]:
            # the handler asked for a different probe shape than the spec's (n = n_in forward, n_out reverse):
            # recorded (reported by the caller); answer with a cyclic prefix so that the call can finish
            self.bad.append(shape)
            full = np.resize(full, (s, n, d))
        return jnp.asarray(full, dtype=dtype)


class Fixed:
    """rademacher stand-in that returns a given probe list"""

    def __init__(self, v):
        self.v = np.asarray(v, dtype=np.float64)
        self.bad = []

    def __call__(self, key, /, shape, dtype):
        shape = tuple(int(k) for k in shape)
        if shape != self.v.shape:
            self.bad.append(shape)
            return jnp.ones(shape, dtype=dtype)
        return jnp.asarray(self.v, dtype=dtype)


class Recorder:
    """pass-through: the real rademacher, with the key / shape / result of every draw recorded"""

    def __init__(self, orig):
        self.orig = orig
        self.draws = []

    def __call__(self, key, /, shape, dtype):
        v = self.orig(key, shape=shape, dtype=dtype)
        self.draws.append((np.asarray(jax.random.key_data(key)) if _is_typed(key) else np.asarray(key), tuple(int(k) for k in shape), np.asarray(v)))
        return v


def _is_typed(key):
    return jnp.issubdtype(key.dtype, jax.dtypes.prng_key)


def key_bits(key):
    return np.asarray(jax.random.key_data(key)) if _is_typed(key) else np.asarray(key)


def walk(key, path):
    """follow a path of the spec's key machine below `key` (pure jax.random)"""
    for ch in path:
        key = jax.random.split(key, 2)[int(ch)]
    return key


def key_at(seed, path):
    return walk(jax.random.PRNGKey(seed), path)


# ------------------------------------------------------------------ handlers
def handlers(inst, exp):
    """name -> (constructor(num_probes), mode).  num_probes is ignored by the materialising handler"""
    seed = inst["seed"]
    return {
        "materialize": (lambda s: jacobians.jacobian_materialize(), None),
        "materialize(jacfwd)": (lambda s: jacobians.jacobian_materialize(jacfun=jax.jacfwd), None),
        "monte_carlo_fwd": (lambda s: jacobians.jacobian_monte_carlo_fwd(seed=seed, num_probes=s), "fwd"),
        "monte_carlo_rev": (lambda s: jacobians.jacobian_monte_carlo_rev(seed=seed, num_probes=s), "rev"),
    }


def _call(h, entry, fun, x, state, kwargs, use_jit):
    meth = getattr(h, entry)
    if use_jit:
        return jax.jit(lambda x_, s_, kw: meth(fun, x_, s_, **kw))(x, state, kwargs)
    return meth(fun, x, state, **kwargs)


def _same_state(a, b):
    if isinstance(a, tuple) or isinstance(b, tuple):
        return isinstance(a, tuple) and isinstance(b, tuple) and len(a) == len(b) == 0
    try:
        ka, kb = key_bits(a), key_bits(b)
    except Exception:  # noqa: BLE001
        return False
    return ka.shape == kb.shape and bool(np.all(ka == kb))


def check_instance(inst, exp, stats=None):
    """-> list of (handler, entry, quantity, detail); empty = conforms.  `stats` (dict) counts what was exercised"""
    bad = []
    stats = {} if stats is None else stats

    def count(k):
        stats[k] = stats.get(k, 0) + 1

    nin, nout, d = inst["nin"], inst["nout"], inst["d"]
    E = {k: to_float(exp[k]) for k in ("fx", "dense", "diag", "trace")}
    fun, x, kwargs = make_fun(inst)
    want = {"materialize_dense": E["dense"], "calculate_trace_along_d": E["trace"], "calculate_diagonal_along_d": E["diag"]}
    nprobes = {"fwd": int(exp["nprobes_fwd"]), "rev": int(exp["nprobes_rev"]), None: 1}
    nrows = {"fwd": nin, "rev": nout}

    def cmp(hname, entry, q, got, wanted):
        got = np.asarray(got)
        wanted = np.asarray(wanted, dtype=np.float64)
        if got.shape != wanted.shape:
            bad.append((hname, entry, q + ".shape", f"shape {got.shape}, expected {wanted.shape}"))
        elif not close(got, wanted, TOL):
            bad.append((hname, entry, q, f"relerr={maxerr(got, wanted):.3e} got={np.asarray(got).tolist()} expected={wanted.tolist()}"))

    # ---- (1) exact blocks: materialising handler as is, stochastic handlers with all sign tensors enumerated
    for hname, (ctor, mode) in handlers(inst, exp).items():
        h = ctor(nprobes[mode])
        state0 = h.init_jacobian_handler()
        if mode is None:
            if not (isinstance(state0, tuple) and len(state0) == 0):
                bad.append((hname, "init_jacobian_handler", "state", f"expected the empty state, got {state0!r}"))
        elif not _same_state(state0, key_at(inst["seed"], "")):
            bad.append((hname, "init_jacobian_handler", "state", "initial state is not prng_key(seed)"))
        for entry in ENTRIES:
            enum = Enumerator()
            try:
                with patched_rademacher(enum):
                    # (under jit the enumerated probes are constants of the program: not for the 2^16 cases)
                    fx, blk, state1 = _call(h, entry, fun, x, state0, kwargs, inst["jit"] and nprobes[mode] <= 4096)
            except Exception as e:  # noqa: BLE001   (valid input: the handler must return)
                bad.append((hname, entry, "raised", f"{type(e).__name__}: {str(e)[:300]}"))
                continue
            cmp(hname, entry, "fx", fx, E["fx"])
            cmp(hname, entry, "jacobian", blk, want[entry])
            count("enumerated_or_exact_calls")
            stochastic = mode is not None and entry != "materialize_dense"
            if stochastic:
                if enum.requests != [(nprobes[mode], nrows[mode], d)]:
                    bad.append((hname, entry, "probes", f"drew probes of shapes {enum.requests}, spec: one draw of {(nprobes[mode], nrows[mode], d)}"))
                if not _same_state(state1, walk(state0, "0")):
                    bad.append((hname, entry, "state", "returned state is not split(key)[0]"))
            else:
                if enum.requests:
                    bad.append((hname, entry, "probes", f"drew probes {enum.requests} in a deterministic entry point"))
                if not _same_state(state1, state0):
                    bad.append((hname, entry, "state", "a call that draws nothing changed the state"))

    # ---- (2) call sequence on the real random numbers: key machine + mean over the probes actually drawn
    for hname, mode, vkey in (("monte_carlo_fwd", "fwd", "vf"), ("monte_carlo_rev", "rev", "vr")):
        ctor, _ = handlers(inst, exp)[hname]
        h = ctor(inst["num_probes"])
        state = h.init_jacobian_handler()
        used = [key_bits(state).tobytes()]
        path = ""  # the spec's path of the state that goes into the next call (the root is checked in (1))
        for c_inst, c_exp in zip(inst["calls"], exp["calls"]):
            kind = c_inst["kind"]
            entry = ENTRY_OF[kind]
            rec = Recorder(pd_random.rademacher)
            try:
                with patched_rademacher(rec):
                    fx, blk, state1 = _call(h, entry, fun, x, state, kwargs, False)
            except Exception as e:  # noqa: BLE001
                bad.append((hname, entry, "raised", f"{type(e).__name__}: {str(e)[:300]}"))
                break
            cmp(hname, entry, "fx", fx, E["fx"])
            if kind == "dense":
                cmp(hname, entry, "jacobian", blk, E["dense"])
                if rec.draws:
                    bad.append((hname, entry, "probes", "drew probes in a deterministic entry point"))
                if not _same_state(state1, state):
                    bad.append((hname, entry, "state", "a call that draws nothing changed the state"))
                continue
            # key machine, relative to the state that went in (no follow-up alarms after a first divergence)
            assert c_exp["state"].startswith(path) and c_exp["draw"].startswith(path)
            step_state, step_draw = c_exp["state"][len(path) :], c_exp["draw"][len(path) :]
            path = c_exp["state"]
            if not _same_state(state1, walk(state, step_state)):
                bad.append((hname, entry, "state", f"returned state is not the key at path {c_exp['state']!r} (split(key)[0] of the state passed in)"))
            if _same_state(state1, state):
                bad.append((hname, entry, "state", "the key did not advance"))
            if len(rec.draws) != 1:
                bad.append((hname, entry, "draw-key", f"{len(rec.draws)} draws in one call, spec: 1"))
            for kbits, shape, _v in rec.draws:
                if not np.all(kbits == key_bits(walk(state, step_draw))):
                    bad.append((hname, entry, "draw-key", f"probes not drawn from the key at path {c_exp['draw']!r} (split(key)[1] of the state passed in)"))
                if kbits.tobytes() in used:
                    bad.append((hname, entry, "draw-key", "a key was used twice"))
                used.append(kbits.tobytes())
            if key_bits(state1).tobytes() in used:
                bad.append((hname, entry, "state", "returned a key that was used before"))
            used.append(key_bits(state1).tobytes())
            # estimate for the probes of the spec
            v_spec = np.array(c_inst[vkey], dtype=np.float64)
            w = to_float(c_exp[mode])
            if len(rec.draws) == 1 and rec.draws[0][2].shape == v_spec.shape and np.all(rec.draws[0][2] == v_spec):
                cmp(hname, entry, "estimate", blk, w)
                count("estimates_on_real_draws")
            else:
                # the handler drew other probes than jax gives for (split(key)[1], (s, n, d)): not a violation by
                # itself; bind the estimate with the spec's probes substituted
                fixed = Fixed(v_spec)
                count("estimates_on_substituted_probes")
                try:
                    with patched_rademacher(fixed):
                        _fx, blk2, _s = _call(h, entry, fun, x, state, kwargs, False)
                    if fixed.bad:
                        bad.append((hname, entry, "probes", f"drew probes of shape {fixed.bad}, spec: {v_spec.shape}"))
                    else:
                        cmp(hname, entry, "estimate", blk2, w)
                except Exception as e:  # noqa: BLE001
                    bad.append((hname, entry, "raised", f"{type(e).__name__}: {str(e)[:300]}"))
            # same key, same result (the unpatched function, no recorder)
            _fx, blk3, state3 = _call(h, entry, fun, x, state, kwargs, False)
            if not (np.array_equal(np.asarray(blk3), np.asarray(blk)) and _same_state(state3, state1)):
                bad.append((hname, entry, "estimate", "not a function of (fun, x, key)"))
            state = state1

    # ---- (3) input contract
    for k, (case, accept) in enumerate(zip(inst["shapes"], exp["accept"])):
        bad += check_shape_case(inst, case, bool(accept), k, count)
    return bad


def check_shape_case(inst, case, accept, k=0, count=lambda k: None):
    bad = []
    xs, fs = tuple(case["xs"]), tuple(case["fs"])
    xarr = jnp.arange(1.0, 1.0 + int(np.prod(xs, dtype=int))).reshape(xs)
    x = xarr if case["xa"] else (xarr, xarr)

    def fun(z):
        s = jnp.sum(z) if case["xa"] else jnp.sum(z[0]) + jnp.sum(z[1])
        y = jnp.arange(1.0, 1.0 + int(np.prod(fs, dtype=int))).reshape(fs) * s
        return y if case["fa"] else (y, y)

    hs = handlers(inst, None)
    for n_h, (hname, (ctor, mode)) in enumerate(hs.items()):
        h = ctor(2)
        for n_e, entry in enumerate(ENTRIES):
            if accept and (n_h + n_e + k) % 3 != 0:
                continue  # accepted inputs: the full computation, on a rotating third of the entry points
            state = h.init_jacobian_handler()
            try:
                getattr(h, entry)(fun, x, state)
                raised = None
            except Exception as e:  # noqa: BLE001  (the code raises TypeError / ValueError; any exception is a rejection)
                raised = e
            count("accepted_calls" if accept else "rejected_calls")
            if accept and raised is not None:
                bad.append((hname, entry, "accepts", f"x.shape={xs} f(x).shape={fs} rejected: {type(raised).__name__}: {str(raised)[:200]}"))
            if not accept and raised is None:
                bad.append((hname, entry, "rejects", f"x{'' if case['xa'] else '(tuple)'}.shape={xs} f(x){'' if case['fa'] else '(tuple)'}.shape={fs} was not rejected"))
    return bad
