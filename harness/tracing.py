"""Tracing state-space model: a fake AbstractTreeNormal / AbstractLatentCond / AbstractPrior /
AbstractLinearization whose operations do no numerics but emit ordered events (op, fresh result ids,
operand ids, scalars).  The *real* solvers / strategies / adaptive loop / Markov-sequence code of
probdiffeq run on it unchanged; the event log is validated by TLC against the term algebra
(spec/GaussTerms.tla, spec/TraceProbSolver.tla).

Scalars the solvers consume are scripted, exactly representable functions of the operand id:
  residual_whitened_rms(O)  = 1 + id(O) / 1024        (unique per observed term: doubles as provenance tag)
  std(X)[k][c]              = 2^-(id(X) mod 4) (k+1)/2 (1+c)            (Taylor coefficient k, component c in {0, 1})
  mean(X)[k][c]             = ((id(X) mod 5) + 1 + k) (1 if c == 0 else 7)   (so that rms over components is 5 x base)
"""

from __future__ import annotations

import jax
import jax.numpy as jnp
import numpy as np
from jax.experimental import io_callback

jax.config.update("jax_enable_x64", True)

from probdiffeq._probdiffeq import ssm_impl_api  # noqa: E402

D = 2  # dimension of (fake) data / Taylor-coefficient arrays
STD_SCALAR = [False]  # True: std returns one scalar per coefficient (shape (1,)), like the isotropic model does
RMS_DEN = 1024.0


class Tracer:
    def __init__(self):
        self.events = []
        self.next_id = 1

    def reset(self):
        self.events = []
        self.next_id = 1

    def fresh(self, shape):
        n = int(np.prod(shape)) if len(shape) else 1
        ids = np.arange(self.next_id, self.next_id + n, dtype=np.float64).reshape(shape)
        self.next_id += n
        return ids

    def fresh_interleaved(self, shape, n_out):
        """n_out fresh ids per element such that the ids of one element are consecutive"""
        size = int(np.prod(shape)) if len(shape) else 1
        base = self.next_id
        self.next_id += size * n_out
        return [(base + np.arange(size, dtype=np.float64) * n_out + k).reshape(shape) for k in range(n_out)]

    # ---- generic operation: n_out fresh ids per element of the (possibly stacked) first operand
    def op(self, name, n_out, id_args, scalar_args=()):
        id_args = [jnp.asarray(a, dtype=jnp.float64) for a in id_args]
        scalar_args = [jnp.asarray(s, dtype=jnp.float64) for s in scalar_args]
        shape = jnp.broadcast_shapes(*[a.shape for a in id_args]) if id_args else (1,)
        id_args = [jnp.broadcast_to(a, shape) for a in id_args]
        # scalars are () or carry the batch axes of the ids without the trailing 1
        scalar_b = [jnp.broadcast_to(s[..., None] if s.ndim == len(shape) - 1 and s.ndim > 0 else s, shape) for s in scalar_args]

        def cb(*vals):
            ids = vals[: len(id_args)]
            scs = vals[len(id_args) :]
            outs = self.fresh_interleaved(shape, n_out)
            flat_in = [np.asarray(v).reshape(-1) for v in ids]
            flat_sc = [np.asarray(v).reshape(-1) for v in scs]
            flat_out = [o.reshape(-1) for o in outs]
            for e in range(flat_out[0].size if n_out else (flat_in[0].size if flat_in else 1)):
                self.events.append(
                    {
                        "op": name,
                        "out": [int(o[e]) for o in flat_out],
                        "in": [int(v[e]) for v in flat_in],
                        "sc": [float(v[e]) for v in flat_sc],
                    }
                )
            return tuple(outs) if n_out else np.zeros((), dtype=np.float64)

        if n_out:
            res_shape = tuple(jax.ShapeDtypeStruct(shape, jnp.float64) for _ in range(n_out))
        else:
            res_shape = jax.ShapeDtypeStruct((), jnp.float64)
        return io_callback(cb, res_shape, *id_args, *scalar_b, ordered=True)

    def marker(self, name, fields: dict):
        """fields: name -> array (ids or scalars); logged as lists"""
        keys = list(fields)
        vals = [jnp.asarray(fields[k], dtype=jnp.float64) for k in keys]

        def cb(*vs):
            self.events.append({"op": "marker", "name": name, **{k: np.asarray(v).reshape(-1).tolist() for k, v in zip(keys, vs)}})
            return np.zeros((), dtype=np.float64)

        return io_callback(cb, jax.ShapeDtypeStruct((), jnp.float64), *vals, ordered=True)


TR = Tracer()


class TFlatten(ssm_impl_api.AbstractTreeFlatten):
    def flatten_tree(self, x):
        leaves = jax.tree_util.tree_leaves(x)
        return jnp.concatenate([jnp.ravel(l) for l in leaves])

    def unflatten_array(self, x):
        return [x]

    def __eq__(self, other):
        return isinstance(other, TFlatten)

    def __hash__(self):
        return 7


TF = TFlatten()


class TNormal(ssm_impl_api.AbstractTreeNormal):
    """mean_flat has shape (..., 1) and holds the term id; n = number of Taylor coefficients (static)."""

    def __init__(self, ident, n=3):
        super().__init__(ident, None, TF)
        self.n = n

    @property
    def ident(self):
        return self.mean_flat

    # scripted scalars
    def _coeff(self, f, comp):
        i = self.mean_flat[..., 0]
        return [f(i, k)[..., None] * jnp.asarray(comp) for k in range(self.n)]

    @property
    def mean(self):
        TR.op("read_mean", 0, [self.mean_flat])
        # (signed: odd ids carry negative means, so that max(|u_prev|, |u_new|) differs from |max(u_prev, u_new)|)
        return self._coeff(lambda i, k: (1.0 - 2.0 * jnp.mod(i, 2.0)) * (jnp.mod(i, 5.0) + 1.0 + k), (1.0, 7.0))

    @property
    def std(self):
        TR.op("read_std", 0, [self.mean_flat])
        return self._coeff(lambda i, k: 2.0 ** (-jnp.mod(i, 4.0)) * (k + 1.0) / 2.0, (1.0,) if STD_SCALAR[0] else (1.0, 2.0))

    def sample_tree(self, key):
        return [self.sample_flat(key)]

    def sample_flat(self, key):
        kd = jax.random.key_data(key) if jnp.issubdtype(key.dtype, jax.dtypes.prng_key) else key
        (out,) = TR.op("sample", 1, [self.mean_flat], [kd[..., 0], kd[..., 1]])
        return out

    def rescale_cholesky(self, factor, /):
        (out,) = TR.op("rescale_n", 1, [self.mean_flat], [factor])
        return TNormal(out, self.n)

    def residual_whitened_rms_tree(self, u):
        return self.residual_whitened_rms_flat(TF.flatten_tree(u))

    def residual_whitened_rms_flat(self, u):
        TR.op("rms", 0, [self.mean_flat], [jnp.sum(jnp.abs(u))])
        return 1.0 + self.mean_flat[..., 0] / RMS_DEN

    def logpdf_tree(self, u):
        return self.logpdf_flat(TF.flatten_tree(u))

    def logpdf_flat(self, u):
        TR.op("logpdf", 0, [self.mean_flat], [jnp.sum(u)])
        return -(self.mean_flat[..., 0])  # scripted: log-density of term X at any datum = -id(X)

    @classmethod
    def from_mean_and_std(cls, mean, std):
        raise NotImplementedError

    @classmethod
    def from_dirac(cls, mean, *, damp):
        raise NotImplementedError

    def identity_conditional(self):
        (out,) = TR.op("ident", 1, [self.mean_flat])
        return TCond(out, self.n)

    def prototype_output_scale_calibrated(self):
        return jnp.ones(())

    def to_derivative(self, i, std):
        (out,) = TR.op("to_derivative", 1, [self.mean_flat], [i, jnp.sum(std)])
        return TCond(out, 1)

    def to_multivariate_normal(self):
        raise NotImplementedError


def _n_flatten(x):
    return (x.mean_flat,), x.n


def _n_unflatten(n, children):
    return TNormal(children[0], n)


jax.tree_util.register_pytree_node(TNormal, _n_flatten, _n_unflatten)


class TCond(ssm_impl_api.AbstractLatentCond):
    """A (shape (..., 1)) holds the term id; n_out = number of coefficients of the output variable (static)."""

    def __init__(self, ident, n_out=3):
        noise = TNormal(ident, n_out)
        super().__init__(ident, noise, None, None)  # no array ops here: pytree unflattening may pass placeholders
        self.n_out = n_out

    def rescale_noise(self, factor, /):
        (out,) = TR.op("rescale_c", 1, [self.A], [factor])
        return TCond(out, self.n_out)

    def marginalise(self, rv, /):
        (out,) = TR.op("marg", 1, [self.A, rv.mean_flat])
        return TNormal(out, self.n_out)

    def revert(self, rv, /, *, solve_triu):
        del solve_triu
        obs, bw = TR.op("revert", 2, [self.A, rv.mean_flat])
        return TNormal(obs, self.n_out), TCond(bw, rv.n)

    def apply_flat(self, x, /):
        x = jnp.asarray(x)
        if x.shape[-1] == 1:  # the mean (or a sample) of a term: the operand is its id
            (out,) = TR.op("apply", 1, [self.A, x])
        else:  # a data array
            (out,) = TR.op("apply_data", 1, [self.A], [jnp.sum(jnp.abs(x), axis=-1)])
        return TNormal(out, self.n_out)

    def merge(self, other, /):
        (out,) = TR.op("merge", 1, [self.A, other.A])
        return TCond(out, self.n_out)

    def preconditioner_apply(self, /):
        return self


def _c_flatten(c):
    return (c.A,), c.n_out


def _c_unflatten(n_out, children):
    return TCond(children[0], n_out)


jax.tree_util.register_pytree_node(TCond, _c_flatten, _c_unflatten)


class TPrior(ssm_impl_api.AbstractPrior):
    def __init__(self, init: TNormal, output_scale=None):
        super().__init__(init, jnp.ones(()) if output_scale is None else output_scale)

    def transition(self, *, dt, output_scale):
        (out,) = TR.op("transition", 1, [jnp.zeros((1,))], [dt, output_scale])
        return TCond(out, self.init.n)


jax.tree_util.register_pytree_node(TPrior, lambda p: ((p.init, p.output_scale), None), lambda _, ch: TPrior(ch[0], ch[1]))


class TConstraint(ssm_impl_api.AbstractLinearization):
    """A linearisable constraint; `kind` only labels events (e.g. 0 = ODE constraint, 1 = initial constraint)."""

    def __init__(self, kind=0, residual_order=2):
        self.kind = kind
        self.residual_order = residual_order

    def init_linearization(self):
        return jnp.zeros(())

    def linearize(self, rv, state, *, damp, t):
        (out,) = TR.op("linearize", 1, [rv.mean_flat], [t, damp, float(self.kind)])
        return TCond(out, 1), state + 1.0


def make_prior(n=3):
    """-> TPrior whose initial marginal is a fresh term (event `init`)."""
    (ident,) = TR.op("init", 1, [jnp.zeros((1,))])
    return TPrior(TNormal(ident, n))
