"""C09 binding for the Matern prior: MaternExact.tla exports the exact rational pieces (drift F, P_k = N^k/k!,
C_m = sum_{i+j=m} P_i BB^T P_j^T); the harness multiplies in the two scalar transcendental factors
(e^{-zh} and int_0^h s^m e^{-2zs} ds) and compares with prior_matern(_diffuse).transition / merge of the real code."""

from __future__ import annotations

import math
from fractions import Fraction as F

import jax.numpy as jnp
import numpy as np
from scipy import special

from harness.exact import maxerr, to_float
from harness.priors import _ssm, effective

ZS = [F(1, 2), F(1), F(2), F(3, 2)]
HS = [F(1, 4), F(1, 2), F(1), F(2)]


def instance(rng, D=None):
    D = rng.randint(1, 4) if D is None else D
    given = rng.randint(1, D)
    d = rng.randint(1, 3 if D <= 3 else 2)
    return dict(D=D, given=given, diffuse=D - given, d=d, z=rng.choice(ZS), lam=rng.choice([F(1), F(2), F(1, 2)]), sigma=rng.choice([F(1), F(2), F(1, 2)]),
                h1=rng.choice(HS), h2=rng.choice(HS), diffuse_ctor=(rng.random() < 0.4))


def to_tla(inst):
    return {"D": inst["D"], "z": F(inst["z"]), "lam": F(inst["lam"])}


def _I(m, z, h):
    """int_0^h s^m exp(-2 z s) ds"""
    a = 2.0 * z
    return math.factorial(m) / a ** (m + 1) * float(special.gammainc(m + 1, a * h))


def exact_transition(exp, z, h, d):
    P = [to_float(p) for p in exp["P"]]
    C = [to_float(c) for c in exp["C"]]
    A1 = math.exp(-z * h) * sum(Pk * h**k for k, Pk in enumerate(P))
    Q1 = sum(Cm * _I(m, z, h) for m, Cm in enumerate(C))
    Id = np.eye(d)
    # coefficient-major state ordering of the dense model: kron(1d matrix, I_d)
    return np.kron(A1, Id), np.kron(Q1, Id)


def check(inst, exp, tol=1e-9):
    D, given, diffuse, d = inst["D"], inst["given"], inst["diffuse"], inst["d"]
    z, lam, s = float(inst["z"]), float(inst["lam"]), float(inst["sigma"])
    ell = math.sqrt(2 * (D - 0.5)) / z
    ssm = _ssm("dense")
    tcoeffs = [jnp.zeros((d,))] * given
    scale = jnp.full((d,), lam)
    if inst["diffuse_ctor"]:
        prior = ssm.prior_matern_diffuse(ell, tcoeffs, [jnp.ones((d,))] * given, diffuse_derivatives=diffuse, output_scale=scale)
        name = "prior_matern_diffuse"
    else:
        prior = ssm.prior_matern(ell, tcoeffs, diffuse_derivatives=diffuse, output_scale=scale)
        name = "prior_matern"
    bad = []
    h1, h2 = float(inst["h1"]), float(inst["h2"])

    def cmp(nm, got, want):
        err = maxerr(got, want)
        if not np.all(np.isfinite(got)) or err > tol:
            bad.append((nm, f"D={D} (given {given} + diffuse {diffuse}) d={d} z={z} relerr={err:.3e}"))

    # the drift itself: F read off the exported matrix vs the companion of (s+z)^D is a law of the spec; here the code
    t1 = prior.transition(dt=h1, output_scale=jnp.asarray(s))
    t2 = prior.transition(dt=h2, output_scale=jnp.asarray(s))
    A, Q, b = effective(t1.preconditioner_apply() if hasattr(t1, "preconditioner_apply") else t1, "dense", D, d)
    Ae, Qe = exact_transition(exp, z, h1, d)
    cmp(f"{name}.transition(h1).A", A, Ae)
    cmp(f"{name}.transition(h1).Q", Q, s * s * Qe)
    A, Q, b = effective(t2, "dense", D, d)
    Ae, Qe = exact_transition(exp, z, h2, d)
    cmp(f"{name}.transition(h2).A", A, Ae)
    cmp(f"{name}.transition(h2).Q", Q, s * s * Qe)
    A, Q, b = effective(t2.merge(t1), "dense", D, d)
    Ae, Qe = exact_transition(exp, z, h1 + h2, d)
    cmp(f"{name}.merge.A", A, Ae)
    cmp(f"{name}.merge.Q", Q, s * s * Qe)
    return bad


# ------------------------------------------------------------------ integrated Ornstein-Uhlenbeck with scalar rates
def ou_instance(rng, n=None):
    n = rng.randint(2, 4) if n is None else n
    given = rng.randint(1, n)
    d = rng.randint(1, 3 if n <= 3 else 2)
    return dict(n=n, given=given, diffuse=n - given, d=d, thetas=[rng.choice(ZS) for _ in range(d)], lam=rng.choice([F(1), F(2), F(1, 2)]),
                sigma=rng.choice([F(1), F(2), F(1, 2)]), h1=rng.choice(HS), h2=rng.choice(HS), diffuse_ctor=(rng.random() < 0.4))


def ou_tla(inst):
    """one OuExact instance per dimension (each dimension has its own rate)"""
    return [{"n": inst["n"], "theta": F(th), "lam": F(inst["lam"])} for th in inst["thetas"]]


def _ou_1d(exp, theta, h):
    Pi = to_float(exp["Pi"])
    M = [to_float(m) for m in exp["M"]]
    A1 = math.exp(-theta * h) * Pi + sum(Mk * h**k for k, Mk in enumerate(M))
    J = lambda c, m: math.factorial(m) / c ** (m + 1) * float(special.gammainc(m + 1, c * h))  # noqa: E731
    Q1 = to_float(exp["C2"]) * J(2 * theta, 0)
    Q1 = Q1 + sum(to_float(c) * J(theta, k) for k, c in enumerate(exp["C1"]))
    Q1 = Q1 + sum(to_float(c) * h ** (m + 1) / (m + 1) for m, c in enumerate(exp["C0"]))
    return A1, Q1


def ou_exact_transition(exps, thetas, h, n, d):
    """assemble the d independent dimensions into the coefficient-major dense matrices"""
    A = np.zeros((n * d, n * d))
    Q = np.zeros((n * d, n * d))
    for a in range(d):
        A1, Q1 = _ou_1d(exps[a], float(thetas[a]), h)
        for i in range(n):
            for j in range(n):
                A[i * d + a, j * d + a] = A1[i, j]
                Q[i * d + a, j * d + a] = Q1[i, j]
    return A, Q


def ou_check(inst, exps, tol=1e-9):
    n, given, diffuse, d = inst["n"], inst["given"], inst["diffuse"], inst["d"]
    thetas = jnp.asarray([float(x) for x in inst["thetas"]])
    lam, s = float(inst["lam"]), float(inst["sigma"])
    ssm = _ssm("dense")
    tcoeffs = [jnp.zeros((d,))] * given
    scale = jnp.full((d,), lam)
    linop = lambda x: -thetas * x  # noqa: E731
    if inst["diffuse_ctor"]:
        prior = ssm.prior_ornstein_uhlenbeck_integrated_diffuse(linop, tcoeffs, [jnp.ones((d,))] * given, diffuse_derivatives=diffuse, output_scale=scale)
        name = "prior_ornstein_uhlenbeck_integrated_diffuse"
    else:
        prior = ssm.prior_ornstein_uhlenbeck_integrated(linop, tcoeffs, diffuse_derivatives=diffuse, output_scale=scale)
        name = "prior_ornstein_uhlenbeck_integrated"
    bad = []
    h1, h2 = float(inst["h1"]), float(inst["h2"])

    def cmp(nm, got, want):
        err = maxerr(got, want)
        if not np.all(np.isfinite(got)) or err > tol:
            bad.append((nm, f"n={n} (given {given} + diffuse {diffuse}) d={d} rates={[str(x) for x in inst['thetas']]} relerr={err:.3e}"))

    t1 = prior.transition(dt=h1, output_scale=jnp.asarray(s))
    t2 = prior.transition(dt=h2, output_scale=jnp.asarray(s))
    for nm, cond, h in [("transition(h1)", t1, h1), ("transition(h2)", t2, h2), ("merge", t2.merge(t1), h1 + h2)]:
        A, Q, b = effective(cond, "dense", n, d)
        Ae, Qe = ou_exact_transition(exps, inst["thetas"], h, n, d)
        cmp(f"{name}.{nm}.A", A, Ae)
        cmp(f"{name}.{nm}.Q", Q, s * s * Qe)
    return bad
