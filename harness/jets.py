"""C10 binding (and shared polynomial-program helpers for C11): JetPoly.tla instances <-> real JAX functions.

A *program* is a polynomial vector field / residual given by its monomial table.  The same table is
  * written as a JetPoly.tla instance (exponent vectors embedded into N jet blocks + t), and
  * compiled into a real JAX function (flat arrays of shape (d,) or nested pytrees) that is wrapped with
    probdiffeq.ode / ode_order_two / residual_* and pushed through the library's jet machinery.
"""

from __future__ import annotations

import os
import traceback
from fractions import Fraction as F

import jax
import jax.numpy as jnp
import numpy as np
from jax.flatten_util import ravel_pytree

jax.config.update("jax_enable_x64", True)

from probdiffeq import probdiffeq as pdq  # noqa: E402

from harness.exact import close, maxerr  # noqa: E402

COEFFS = (-1, 1, 2)  # non-zero members of {-1, 0, 1, 2}; 0 = monomial absent

R_SCAN = "jetexpand_ode_padded_scan"
R_UNROLL = "jetexpand_ode_unroll"
R_JVP = "jetexpand_ode_via_jvp"
R_DBL = "jetexpand_ode_doubling_unroll"
R_RES = "jetexpand_residual"


# ------------------------------------------------------------------ polynomial programs
def gen_poly(rng, d, J, *, tdep, dout=None, max_terms=3, deg_u=2, deg_t=3, p_empty=0.08, elementwise=False):
    """vector polynomial: list (component) of lists of (coeff, exponent tuple of length J*d + 1)"""
    dout = d if dout is None else dout
    nu = J * d
    comps = []
    for comp_idx in range(dout):
        terms = {}
        nt = 0 if rng.random() < p_empty else rng.randint(1, max_terms)
        for _ in range(nt):
            e = [0] * (nu + 1)
            for _ in range(rng.randint(0, deg_u)):
                # variable index = block * d + dimension; element-wise: component a only sees dimension a
                e[(rng.randrange(J) * d + comp_idx) if elementwise else rng.randrange(nu)] += 1
            if tdep and rng.random() < 0.6:
                e[nu] = rng.randint(1, deg_t)
            terms[tuple(e)] = rng.choice(COEFFS)  # like terms are never generated twice
        comps.append([(c, e) for e, c in terms.items()])
    if tdep and not is_tdep(comps):
        e = [0] * (nu + 1)
        e[nu] = rng.randint(1, deg_t)
        comps[rng.randrange(dout)].append((rng.choice(COEFFS), tuple(e)))
        comps = [_merge(c) for c in comps]
    return comps


def _merge(comp):
    acc = {}
    for c, e in comp:
        acc[e] = acc.get(e, 0) + c
    return [(c, e) for e, c in acc.items() if c != 0]


def is_tdep(polys):
    return any(e[-1] > 0 for comp in polys for _, e in comp)


def embed(e, J, d, N):
    """exponents over (J blocks, t) -> exponents over (N blocks, t)"""
    assert N >= J
    return list(e[: J * d]) + [0] * ((N - J) * d) + [e[J * d]]


def polys_tla(polys, J, d, N, scale=None):
    """JetPoly.tla vector polynomial; `scale[a]` divides component a (implicit forms a u^(m) = F)"""
    out = []
    for a, comp in enumerate(polys):
        s = F(1) if scale is None else F(1, scale[a])
        out.append([{"c": F(c) * s, "e": embed(e, J, d, N)} for c, e in comp])
    return out


def pretty(polys, J, d):
    names = []
    for j in range(J):
        for a in range(d):
            names.append("u" + "'" * j + (str(a + 1) if d > 1 else ""))
    names.append("t")
    comps = []
    for comp in polys:
        ts = []
        for c, e in comp:
            fac = [f"{names[v]}^{p}" if p > 1 else names[v] for v, p in enumerate(e) if p]
            ts.append(("" if c == 1 and fac else ("-" if c == -1 and fac else str(c) + ("*" if fac else ""))) + "*".join(fac))
        comps.append(" + ".join(ts) if ts else "0")
    return "[" + ", ".join(comps) + "]"


def make_fn(polys, J, d):
    """real JAX function (us: J arrays of shape (d,), t) -> array of shape (len(polys),)"""

    def fn(us, t):
        outs = []
        for comp in polys:
            acc = None
            for c, e in comp:
                term = jnp.asarray(float(c))
                for j in range(J):
                    for a in range(d):
                        p = e[j * d + a]
                        if p:
                            term = term * us[j][a] ** p
                if e[J * d]:
                    term = term * t ** e[J * d]
                acc = term if acc is None else acc + term
            outs.append(jnp.asarray(0.0) if acc is None else acc)
        return jnp.stack(outs)

    return fn


def example_tree(d, variant=0):
    """a nested pytree with d scalar entries in total (incl. 0-d leaves, tuples, dicts)"""
    z = jnp.zeros
    if d == 1:
        return [{"x": z((1,))}, (z(()),)][variant % 2]
    if d == 2:
        return [{"a": z((1,)), "b": (z(()),)}, (z((1,)), {"q": z((1,))})][variant % 2]
    return [{"p": z((2,)), "q": {"r": z(())}}, (z(()), [z((1,)), z((1,))])][variant % 2]


def tree_unravel(d, variant=0):
    return ravel_pytree(example_tree(d, variant))[1]


JM = pdq.jacobian_materialize


def make_ode(polys, m, d, unravel=None):
    """probdiffeq.ode / ode_order_two around the polynomial; `unravel`: state is a nested pytree"""
    fn = make_fn(polys, m, d)
    if unravel is None:
        if m == 1:
            return pdq.ode(lambda u, /, *, t: fn([u], t), jacobian=JM())
        return pdq.ode_order_two(lambda u, du, /, *, t: fn([u, du], t), jacobian=JM())

    def flat(y):
        return ravel_pytree(y)[0]

    if m == 1:
        return pdq.ode(lambda y, /, *, t: unravel(fn([flat(y)], t)), jacobian=JM())
    return pdq.ode_order_two(lambda y, dy, /, *, t: unravel(fn([flat(y), flat(dy)], t)), jacobian=JM())


def make_residual(polys, J, d, unravel=None, out_unravel=None, JM=JM):
    """probdiffeq.residual_position / _velocity / _acceleration around the polynomial"""
    fn = make_fn(polys, J, d)
    ctor = {1: pdq.residual_position, 2: pdq.residual_velocity, 3: pdq.residual_acceleration}[J]

    def flat(y):
        return y if unravel is None else ravel_pytree(y)[0]

    def post(x):
        return x if out_unravel is None else out_unravel(x)

    if J == 1:
        return ctor(lambda u, /, *, t: post(fn([flat(u)], t)), jacobian=JM())
    if J == 2:
        return ctor(lambda u, du, /, *, t: post(fn([flat(u), flat(du)], t)), jacobian=JM())
    return ctor(lambda u, du, ddu, /, *, t: post(fn([flat(u), flat(du), flat(ddu)], t)), jacobian=JM())


def make_implicit(polys, m, d, a):
    """the implicit form  a * u^(m) - F(u, .., t) = 0  as a JetResidual of m + 1 jet arguments"""
    fn = make_fn(polys, m, d)
    av = jnp.asarray([float(x) for x in a])
    if m == 1:
        return pdq.residual_velocity(lambda u, du, /, *, t: av * du - fn([u], t), jacobian=JM())
    return pdq.residual_acceleration(lambda u, du, ddu, /, *, t: av * ddu - fn([u, du], t), jacobian=JM())


# ------------------------------------------------------------------ C10: ODE programs
def ode_program(rng, *, dmax=2, kmax=6):
    """degree <= 2 in (u, u'), <= 3 in t, coefficients in {-1,0,1,2}, integer initial values and t0"""
    d = rng.randint(1, dmax)
    m = rng.choice([1, 1, 2])
    tdep = rng.random() < 0.5
    polys = gen_poly(rng, d, m, tdep=tdep, max_terms=3 if d <= 2 else 2)
    k = rng.randint(max(m + 2, 4), kmax)
    if rng.random() < 0.2:  # a share of programs starts from half-integer values / times (still exact in binary floating point)
        vals, times = [F(-3, 2), -1, F(-1, 2), 0, F(1, 2), 1, F(3, 2)], [-1, F(-1, 2), 0, F(1, 2), 1]
    else:
        vals, times = [-2, -1, 0, 1, 2], [-1, 0, 1, 2]
    return dict(
        d=d,
        m=m,
        polys=polys,
        tdep=is_tdep(polys),
        inits=[[rng.choice(vals) for _ in range(d)] for _ in range(m)],
        t0=rng.choice(times),
        k=k,
        a=[rng.choice([-2, -1, 2, 3, 4]) for _ in range(d)],
        tree_variant=rng.randint(0, 1),
        num_small=rng.randint(0, 2),
    )


def ode_tla(prog, implicit):
    d, m, k = prog["d"], prog["m"], prog["k"]
    N = k + 1
    return {
        "kind": "ode",
        "d": d,
        "m": m,
        "N": N,
        "f": polys_tla(prog["polys"], m, d, N, scale=prog["a"] if implicit else None),
        "inits": [[F(x) for x in row] for row in prog["inits"]],
        "t0": F(prog["t0"]),
        "k": k,
    }


def _flat_list(tcoeffs):
    return [np.asarray(ravel_pytree(x)[0], dtype=np.float64) for x in tcoeffs]


def _compare(got, want, tol):
    """first index at which the coefficient lists differ: (index, relerr) or None; only the common prefix with `want`"""
    for n in range(min(len(got), len(want))):
        if not close(got[n], want[n], tol):
            return n, maxerr(got[n], want[n])
    return None


def replay_ode(args):
    """Run all five Taylor-coefficient routines on one program (executed in a worker process).

    Returns dict(calls=int, fails=[(routine, variant, what)], notes=[...])."""
    prog, exp_explicit, exp_implicit, tol = args
    d, m = prog["d"], prog["m"]
    fails, calls, ran = [], 0, set()
    t0 = float(prog["t0"])
    flat_inits = [jnp.asarray([float(x) for x in row]) for row in prog["inits"]]
    unravel = tree_unravel(d, prog["tree_variant"])
    tree_inits = [unravel(x) for x in flat_inits]

    def want_of(exp):
        return [np.array([float(x) for x in row]) for row in exp["derivs"]]

    def run(routine, variant, make_alg, vf, inits, want, expect_len, reuse=False):
        nonlocal calls
        calls += 1
        ran.add((routine, variant))
        try:
            alg = make_alg()
            if reuse:
                # the routine OBJECT is used for another problem of the same shapes first (different initial values and
                # time): its result for this problem must not depend on what it was called with before
                try:
                    alg(vf, jax.tree_util.tree_map(lambda x: x + 1.0, inits), t=t0 + 0.5)
                except Exception:
                    pass
            out, _info = alg(vf, inits, t=t0)
            got = _flat_list(out)
        except Exception as e:  # a routine must not crash on a valid program
            fails.append((routine, variant, f"raised {type(e).__name__}: {str(e)[:200]}"))
            return
        if expect_len is not None and len(got) != expect_len:
            fails.append((routine, variant, f"returned {len(got)} coefficients, expected {expect_len}"))
            return
        bad = _compare(got, want, tol)
        if bad is not None:
            n, err = bad
            fails.append((routine, variant, f"coefficient u^({n}) = {got[n].tolist()} but exact {want[n].tolist()} (relerr {err:.2e})"))

    if exp_explicit is not None:
        want = want_of(exp_explicit)
        kok = len(want)  # derivatives 0..kok-1 are exact in the specification
        num_full = kok - m
        nums_flat = sorted({num_full, min(prog["num_small"], num_full)})
        ode_flat = make_ode(prog["polys"], m, d)
        ode_tree = make_ode(prog["polys"], m, d, unravel=unravel)
        for variant, vf, inits, nums in [("flat", ode_flat, flat_inits, nums_flat), ("pytree", ode_tree, tree_inits, [num_full])]:
            for num in nums:
                run(R_SCAN, variant, lambda num=num: pdq.jetexpand_ode_padded_scan(num=num), vf, inits, want, m + num)
                run(R_UNROLL, variant, lambda num=num: pdq.jetexpand_ode_unroll(num=num), vf, inits, want, m + num)
                run(R_JVP, variant, lambda num=num: pdq.jetexpand_ode_via_jvp(num=num), vf, inits, want, m + num)
            if m == 1:  # documented: the doubling routine handles first-order problems only
                nd = 2 if (kok >= 5 and variant == "flat") else 1
                run(R_DBL, variant, lambda nd=nd: pdq.jetexpand_ode_doubling_unroll(num_doublings=nd), vf, inits, want, 2 ** (nd + 1) - 1)
        # residual-based routine on u^(m) - f (flat states only: pytree support is a documented TODO)
        num = min(num_full, 4)
        res = pdq.residual_from_ode(ode_flat).jet_lift(lift_by=num - 1)
        run(R_RES, "flat", lambda: pdq.jetexpand_residual(num=num), res, flat_inits, want, m + num)
        run(R_RES, "flat", lambda: pdq.jetexpand_residual(num=0), res, flat_inits, want, m)
        run(R_RES, "flat-reused-object", lambda: pdq.jetexpand_residual(num=num), res, flat_inits, want, m + num, reuse=True)
        run(R_SCAN, "flat-reused-object", lambda: pdq.jetexpand_ode_padded_scan(num=num_full), ode_flat, flat_inits, want, m + num_full, reuse=True)
        run(R_UNROLL, "flat-reused-object", lambda: pdq.jetexpand_ode_unroll(num=num_full), ode_flat, flat_inits, want, m + num_full, reuse=True)
        run(R_JVP, "flat-reused-object", lambda: pdq.jetexpand_ode_via_jvp(num=num_full), ode_flat, flat_inits, want, m + num_full, reuse=True)
        # an implicit problem that is NONLINEAR in its highest derivative and still determines it uniquely:
        # phi(u^(m)) - phi(F(u, .., t)) = 0 with the strictly increasing phi(x) = x^3/s^2 + x has the same solution as u^(m) = F,
        # but the default Gauss-Newton solver of the routine needs several iterations for every coefficient
        fn = make_fn(prog["polys"], m, d)
        # (the cubic is scaled with the size s of the exact root so that Newton from the zero start needs the same 5-6
        #  iterations for every program - well inside the default budget of 10 - instead of O(log |root|) many)
        s_root = max(1.0, float(np.max(np.abs(want[m]))))
        phi = lambda x: x**3 / s_root**2 + x  # noqa: E731
        if m == 1:
            resn = pdq.residual_velocity(lambda u, du, /, *, t: phi(du) - phi(fn([u], t)), jacobian=JM())
        else:
            resn = pdq.residual_acceleration(lambda u, du, ddu, /, *, t: phi(ddu) - phi(fn([u, du], t)), jacobian=JM())
        # the routine's default solver stops at a constraint RMS of 1e-6 (10 iterations at most): the coefficients of this
        # variant are therefore held to 1e-3 only (observed on the pinned tree: <= 2e-5)
        tol_keep, tol = tol, max(tol, 1e-3)
        for num_n in sorted({1, min(num_full, 3)}):
            if num_n >= 1:
                run(R_RES, "implicit-nonlinear", lambda num_n=num_n: pdq.jetexpand_residual(num=num_n), resn.jet_lift(lift_by=num_n - 1), flat_inits, want, m + num_n)
        tol = tol_keep
    if exp_implicit is not None:
        want = want_of(exp_implicit)
        num = min(len(want) - m, 4)
        res = make_implicit(prog["polys"], m, d, prog["a"]).jet_lift(lift_by=num - 1)
        run(R_RES, "implicit", lambda: pdq.jetexpand_residual(num=num), res, flat_inits, want, m + num)
    return dict(calls=calls, fails=fails, ran=sorted(ran))


def _safe(fn, arg):
    try:
        return fn(arg)
    except Exception:
        return dict(calls=0, fails=[], crash=traceback.format_exc())


def replay_ode_safe(args):
    return _safe(replay_ode, args)


def pool_map(fn, jobs, workers=None):
    """map over worker processes (spawned: JAX is not fork-safe); order preserved"""
    import concurrent.futures as cf
    import multiprocessing as mp

    if not jobs:
        return []
    workers = workers or max(1, min(12, (os.cpu_count() or 2) - 2, len(jobs)))
    if workers == 1:
        return [fn(j) for j in jobs]
    with cf.ProcessPoolExecutor(max_workers=workers, mp_context=mp.get_context("spawn")) as ex:
        return list(ex.map(fn, jobs, chunksize=1))
