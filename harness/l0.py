"""L0: AdaptiveLoop.tla  <->  real RejectionLoop / solve_adaptive_* / controllers.

spec -> code: TLC enumerates every terminated behaviour of a configuration (module AdaptiveLoopGen); each is
replayed through the real loop with the scripted solver/estimator and the real controller, and the event
sequence + emitted solutions + final state are compared field by field (exact dyadic arithmetic).
"""

from __future__ import annotations

import itertools
import random
import signal
from fractions import Fraction as F

import jax
import jax.numpy as jnp
import numpy as np

from harness import scripted, tlc

jax.config.update("jax_enable_x64", True)

from probdiffeq import ivpsolve  # noqa: E402
from probdiffeq.util import test_util  # noqa: E402

U = 20  # one model time unit = 2**-U
UNIT = float(2**U)
TABLE = 64  # padded size of the error-power table

INVARIANTS = [
    "TypeOK",
    "UsedStepPositive",
    "ClipNeverOvershoots",
    "PIMemoryGeOne",
    "InterpFromBeforeStepFrom",
    "EmittedBetween",
    "ReportedInOrderAtTime",
    "BranchMatchesGeometry",
    "StepCountIsAccepted",
    "EmittedCountsMonotone",
]
PROPERTIES = [
    "OnlyAcceptedAdvance",
    "RejectLeavesStateUntouched",
    "StrictShrinkAfterReject",
    "FactorBounds",
    "PIMemoryOnlyFromAccepted",
]


def u(x) -> int:
    """time in model units from a Fraction/number of time units"""
    v = F(x) * 2**U
    assert v.denominator == 1, x
    return int(v)


def base_config(**kw):
    c = dict(
        Ckpts=[u(0), u(1), u(2), u(4)],
        Eps=u(F(1, 128)),
        Dt0=u(1),
        Clip=False,
        Mode="save_at",
        CtrlKind="I",
        Safety=F(7, 8),
        FMin=F(1, 4),
        FMax=F(4),
        ExpI=1,
        ExpP=1,
        EpAcc={F(1), F(2), F(8)},
        EpRej={F(1, 2), F(3, 4)},
        Profile=[[u(0), u(F(3, 4))], [u(F(3, 2)), u(3)]],
        MaxAtt=10,
    )
    c.update(kw)
    return c


# Curated checkpoint layouts (time units), cf. DESIGN 3.1
LAYOUTS = {
    # a step end exactly on / within eps before / within eps after a checkpoint; one pair closer than eps
    "ties": [0, 1, F(257, 128), F(259, 128), 4],
    # several checkpoints inside one step, dt0 >> spacing
    "dense": [0, F(1, 4), F(1, 2), F(3, 4), 1, 3],
    # dt0 << spacing, long way to go
    "sparse": [0, 3],
    # tiny remainder before the final time
    "remainder": [0, 1, 2, F(2 * 128 + 1, 128)],
    # non-uniform
    "mixed": [0, F(1, 2), F(3, 2), F(7, 4), 4],
}

PROFILES = {
    "flat": [[0, 1]],
    "tight_then_loose": [[0, F(1, 2)], [F(3, 2), 3]],
    "loose_then_tight": [[0, 2], [1, F(1, 4)]],
    "valley": [[0, 2], [F(1, 2), F(1, 4)], [F(3, 2), 4]],
}

CONTROLLERS = {
    "I_7_8": dict(CtrlKind="I", Safety=F(7, 8), FMin=F(1, 4), FMax=F(4)),
    "I_1": dict(CtrlKind="I", Safety=F(1), FMin=F(1, 8), FMax=F(2)),
    "I_1_2": dict(CtrlKind="I", Safety=F(1, 2), FMin=F(1, 16), FMax=F(8)),
    "PI_7_8": dict(CtrlKind="PI", Safety=F(7, 8), FMin=F(1, 4), FMax=F(4), ExpI=1, ExpP=1),
    "PI_3_4": dict(CtrlKind="PI", Safety=F(3, 4), FMin=F(1, 8), FMax=F(8), ExpI=1, ExpP=2),
    "PI_1": dict(CtrlKind="PI", Safety=F(1), FMin=F(1, 4), FMax=F(2), ExpI=2, ExpP=0),
}


def make_config(layout, profile, ctrl, clip, dt0, mode="save_at", eps=F(1, 128), max_att=10, epacc=None, eprej=None):
    c = base_config(
        Ckpts=[u(x) for x in LAYOUTS[layout]],
        Profile=[[u(a), u(b)] for a, b in PROFILES[profile]],
        Clip=clip,
        Dt0=u(dt0),
        Mode=mode,
        Eps=u(eps),
        MaxAtt=max_att,
    )
    c.update(CONTROLLERS[ctrl])
    if epacc is not None:
        c["EpAcc"] = set(epacc)
    if eprej is not None:
        c["EpRej"] = set(eprej)
    c["_name"] = f"{mode}/{layout}/{profile}/{ctrl}/clip={int(clip)}/dt0={dt0}"
    return c


def tla_consts(cfg):
    return {k: v for k, v in cfg.items() if not k.startswith("_")}


# ----------------------------------------------------------------- TLC side
def model_check(wd, cfg, name, *, liveness=False, coverage=False, timeout_s=900):
    props = list(PROPERTIES)
    kw = {}
    if liveness:
        return tlc.run_tlc(
            wd,
            tlc.write_model(wd, name, "AdaptiveLoop", tla_consts(cfg), spec="FairSpec", properties=["Terminates"], view="view"),
            timeout_s=timeout_s,
        )
    mod = tlc.write_model(
        wd, name, "AdaptiveLoop", tla_consts(cfg), invariants=INVARIANTS, properties=props, constraint="Bounded", view="view", **kw
    )
    return tlc.run_tlc(wd, mod, coverage=coverage, timeout_s=timeout_s)


def generate(wd, cfg, name, *, simulate_num=None, seed=0, depth=400, timeout_s=900):
    """All terminated behaviours (exhaustive; hist is part of the state) or `simulate_num` random ones."""
    mod = tlc.write_model(
        wd, name, "AdaptiveLoopGen", tla_consts(cfg), spec="GenSpec", invariants=["PrintBehaviour"],
        constraint="Bounded", check_deadlock=False,
    )
    if simulate_num is None:
        res = tlc.run_tlc(wd, mod, workers=1, timeout_s=timeout_s)
    else:
        res = tlc.run_tlc(wd, mod, workers=1, simulate=f"num={simulate_num}", depth=depth, seed=seed, timeout_s=timeout_s)
    behs, seen = [], set()
    for tag, obj in res.prints:
        if tag == "BEH":
            key = repr(obj["hist"])
            if key not in seen:
                seen.add(key)
                behs.append(obj)
    return res, behs


# ----------------------------------------------------------------- implementation side
def _svec(rec):
    return [rec["t"] / UNIT, float(rec["n"]), float(rec["kind"]), rec["a"] / UNIT, rec["b"] / UNIT, float(rec["src"])]


def _rat(r):
    if isinstance(r, dict):
        return float("nan")
    return r[0] / r[1]


def expected_events(beh):
    ev = []
    for h in beh["hist"]:
        if h["ev"] == "attempt":
            frm, prop, used = _svec(h["from"]), _svec(h["prop"]), h["used"] / UNIT
            ev.append(("step", [frm, used, prop]))
            ev.append(("err", [float(h["e_in"]), frm, prop, used, _rat(h["ep"]), True]))
            ev.append(("ctrl", [used, _rat(h["mem_in"]), _rat(h["ep"]), h["dt_out"] / UNIT, _rat(h["mem_out"])]))
        elif h["ev"] == "gstep":
            ev.append(("step", [_svec(h["from"]), h["used"] / UNIT, _svec(h["prop"])]))
        else:
            ev.append((h["ev"], [h["t1"] / UNIT, _svec(h["F"]), _svec(h["T"])]))
    return ev


def script_table(beh):
    rows = [(h["from"]["t"] / UNIT, h["used"] / UNIT, _rat(h["ep"])) for h in beh["hist"] if h["ev"] == "attempt"]
    assert len(rows) <= TABLE, len(rows)
    assert len({(a, b) for a, b, _ in rows}) == len(rows)
    pad = TABLE - len(rows)
    t = np.array([r[0] for r in rows] + [-1.0] * pad)
    d = np.array([r[1] for r in rows] + [-1.0] * pad)
    e = np.array([r[2] for r in rows] + [0.0] * pad)
    return t, d, e


def _eq(a, b):
    """exact comparison of nested lists of floats / bools (nan == nan)"""
    if isinstance(a, (list, tuple)):
        return isinstance(b, (list, tuple)) and len(a) == len(b) and all(_eq(x, y) for x, y in zip(a, b))
    if isinstance(a, bool) or isinstance(b, bool):
        return bool(a) == bool(b)
    a, b = float(a), float(b)
    return (a != a and b != b) or a == b


class Timeout(Exception):
    pass


_TIMED_OUT = [False]


def _alarm(signum, frame):
    _TIMED_OUT[0] = True
    raise Timeout()


def real_control(cfg):
    kw = dict(safety=float(cfg["Safety"]), factor_min=float(cfg["FMin"]), factor_max=float(cfg["FMax"]))
    if cfg["CtrlKind"] == "I":
        return ivpsolve.control_integral(**kw)
    return ivpsolve.control_proportional_integral(**kw, exponent_integral=cfg["ExpI"], exponent_proportional=cfg["ExpP"])


class Replayer:
    """Runs behaviours of one configuration through the real code."""

    def __init__(self, cfg, *, jit=True, terminal_api=False, max_iter=200):
        self.cfg = cfg
        self.log = scripted.EventLog()
        self.solver = scripted.ScriptedSolver(self.log)
        self.error = scripted.ScriptedError(self.log, default_ep=2.0)
        self.control = scripted.LoggedControl(real_control(cfg), self.log)
        self.mode = cfg["Mode"]
        self.terminal_api = terminal_api
        self.save_at = jnp.asarray([c / UNIT for c in cfg["Ckpts"]])
        self.eps = cfg["Eps"] / UNIT
        self.dt0 = cfg["Dt0"] / UNIT
        wl = scripted.bounded_while_loop(max_iter)
        if self.mode == "save_at":
            if terminal_api:
                assert len(cfg["Ckpts"]) == 2
                solve = ivpsolve.solve_adaptive_terminal_values(
                    solver=self.solver, error=self.error, control=self.control, clip_dt=cfg["Clip"], while_loop=wl
                )

                def run(table):
                    return solve(
                        0.0, t0=self.save_at[0], t1=self.save_at[1], atol=table, rtol=0.0, dt0=self.dt0, eps=self.eps
                    )

            else:
                solve = ivpsolve.solve_adaptive_save_at(
                    solver=self.solver, error=self.error, control=self.control, clip_dt=cfg["Clip"], while_loop=wl
                )

                def run(table):
                    return solve(0.0, save_at=self.save_at, atol=table, rtol=0.0, dt0=self.dt0, eps=self.eps)

            self.run = jax.jit(run) if jit else run
        elif self.mode == "every_step":
            solve = test_util.solve_adaptive_save_every_step(
                solver=self.solver, error=self.error, control=self.control, clip_dt=cfg["Clip"]
            )

            def run(table):
                return solve(
                    0.0, self.save_at[0], self.save_at[-1], atol=table, rtol=0.0, dt0=self.dt0, eps=self.eps
                )

            self.run = run
        elif self.mode == "fixed_grid":
            solve = ivpsolve.solve_fixed_grid(solver=self.solver)

            def run(table):
                del table
                return solve(0.0, grid=self.save_at)

            self.run = jax.jit(run) if jit else run
        else:
            raise ValueError(self.mode)

    def execute(self, beh, timeout_s=60):
        table = tuple(jnp.asarray(x) for x in script_table(beh))
        self.log.clear()
        old = signal.signal(signal.SIGALRM, _alarm)
        _TIMED_OUT[0] = False
        signal.alarm(timeout_s)
        try:
            res = self.run(table)
            res = jax.tree_util.tree_map(np.asarray, res)
            jax.effects_barrier()
        except Exception:  # the alarm may fire inside a callback and come back wrapped
            if not _TIMED_OUT[0]:
                raise
            return None, list(self.log.events)
        finally:
            signal.alarm(0)
            signal.signal(signal.SIGALRM, old)
        return res, list(self.log.events)

    def compare(self, beh, res, events):
        """-> list of human-readable divergences (empty = conforms)"""
        if res is None:
            return ["implementation did not terminate within the harness time limit"]
        diffs = []
        exp = expected_events(beh)
        complete = beh.get("complete", True)
        if not complete:
            events = events[: len(exp)]
        for i, (e, g) in enumerate(itertools.zip_longest(exp, events)):
            if e is None or g is None or e[0] != g[0] or not _eq(e[1], g[1]):
                diffs.append(f"event {i}: spec {e} != impl {g}")
                break
        # emitted solutions
        def vecs(s):
            arr = np.stack([np.atleast_1d(getattr(s, f)) for f in scripted.FIELDS], axis=-1)
            return arr.tolist()

        out_exp = [_svec(o) for o in beh["out"]]
        if not complete:
            if not self.terminal_api and self.mode != "every_step":
                got = vecs(res["all"])[1 : 1 + len(out_exp)]
                if not _eq(out_exp, got):
                    diffs.append(f"emitted solutions (prefix): spec {out_exp} != impl {got}")
            return diffs
        if self.terminal_api:
            got_last = [float(np.asarray(getattr(res["all"], f))) for f in scripted.FIELDS]
            if not _eq(out_exp[-1], got_last):
                diffs.append(f"terminal value: spec {out_exp[-1]} != impl {got_last}")
            got_sf = [float(np.asarray(getattr(res["last"], f))) for f in scripted.FIELDS]
        else:
            got = vecs(res["all"])
            init = _svec(dict(t=self.cfg["Ckpts"][0], n=0, kind=0, a=self.cfg["Ckpts"][0], b=self.cfg["Ckpts"][0], src=0))
            if not _eq([init] + out_exp, got):
                diffs.append(f"emitted solutions: spec {[init] + out_exp} != impl {got}")
            got_sf = vecs(res["last"])[0]
        if not _eq(_svec(beh["sf"]), got_sf):
            diffs.append(f"final step_from: spec {_svec(beh['sf'])} != impl {got_sf}")
        return diffs


def sample_behaviours(behs, budget, seed):
    if len(behs) <= budget:
        return behs
    rng = random.Random(seed)
    return rng.sample(behs, budget)
