"""code -> spec for L0: record real adaptive solves (real solver / estimator / controller) through proxies, abstract the
floats to ranks and let TLC (TraceAdaptiveLoop.tla) validate the trace."""

from __future__ import annotations

import warnings

import jax
import jax.numpy as jnp
import numpy as np

jax.config.update("jax_enable_x64", True)

from probdiffeq import ivpsolve  # noqa: E402
from probdiffeq import probdiffeq as pdq  # noqa: E402

from harness import realruns, scripted, tlc  # noqa: E402


class RecSolver:
    """delegating proxy around a real ProbabilisticSolver that logs times / step counts of every call"""

    def __init__(self, inner, log):
        self.inner, self.log = inner, log

    def __repr__(self):
        return f"RecSolver({self.inner!r})"

    @property
    def is_suitable_for_save_at(self):
        return self.inner.is_suitable_for_save_at

    @property
    def is_suitable_for_save_every_step(self):
        return self.inner.is_suitable_for_save_every_step

    def init(self, t, u, *, damp):
        return self.inner.init(t, u, damp=damp)

    def step(self, state, *, dt, damp):
        s = self.inner.step(state=state, dt=dt, damp=damp)
        self.log.emit("step", state.t, jnp.asarray(dt, dtype=jnp.float64), s.t, state.num_steps, s.num_steps)
        return s

    def interpolate_fwd(self, *, t, interp_from, interp_to):
        self.log.emit("beyond", t, interp_from.t, interp_to.t)
        return self.inner.interpolate_fwd(t=t, interp_from=interp_from, interp_to=interp_to)

    def interpolate_fwd_at_t1(self, *, t, interp_from, interp_to):
        self.log.emit("at", t, interp_from.t, interp_to.t)
        return self.inner.interpolate_fwd_at_t1(t=t, interp_from=interp_from, interp_to=interp_to)

    def userfriendly_output(self, *, solution0, solution, solution1):
        return self.inner.userfriendly_output(solution0=solution0, solution=solution, solution1=solution1)


class RecError:
    def __init__(self, inner, log):
        self.inner, self.log = inner, log

    def init_error(self):
        return self.inner.init_error()

    def estimate_error_norm(self, state, previous, proposed, *, dt, atol, rtol, damp):
        ep, st = self.inner.estimate_error_norm(state, previous=previous, proposed=proposed, dt=dt, atol=atol, rtol=rtol, damp=damp)
        self.log.emit("err", ep)
        return ep, st


def record(problem, ssm_name, ts, solver_name, strategy, *, control, clip, save_at, dt0, eps, atol, rtol, estimator="residual"):
    """-> (events, solution)"""
    log = scripted.EventLog()
    ssm, ode, prior, constraint = realruns.setup(problem, ssm_name, 3 if problem == "logistic" else 2, ts=ts)
    solver = RecSolver(realruns.make_solver(solver_name, strategy, constraint), log)
    est = pdq.error_residual_std(constraint=constraint) if estimator == "residual" else pdq.error_state_std(constraint=constraint)
    err = RecError(est, log)
    ctrl = scripted.LoggedControl(control, log)
    with warnings.catch_warnings():
        warnings.simplefilter("ignore")
        solve = ivpsolve.solve_adaptive_save_at(solver=solver, error=err, control=ctrl, clip_dt=clip)
        sol = jax.jit(lambda p: solve(p, save_at=jnp.asarray(save_at), atol=atol, rtol=rtol, dt0=dt0, eps=eps))(prior)
    jax.effects_barrier()
    return list(log.events), sol


def abstract(events, sol, *, control, clip, save_at, dt0, eps):
    """order abstraction -> trace dict for TraceAdaptiveLoop (ranks; values within 4 ulp share a rank)"""
    f64 = np.float64
    fmin, fmax = f64(control.factor_min), f64(control.factor_max)
    eps = f64(eps)
    atts, seq = [], []
    cur = None
    for name, vals in events:
        if name == "step":
            cur = {"op": "attempt", "tf": f64(vals[0]), "used": f64(vals[1]), "tto": f64(vals[2]), "nfrom": int(vals[3]), "nto": int(vals[4])}
        elif name == "err":
            cur["ep"] = f64(vals[0])
        elif name == "ctrl":
            cur["dtin"], cur["dtout"] = f64(vals[0]), f64(vals[3])
            seq.append(cur)
            cur = None
        elif name in ("beyond", "at"):
            seq.append({"op": name, "t1": f64(vals[0]), "ft": f64(vals[1]), "tt": f64(vals[2])})
    ck = [f64(c) for c in save_at]
    # the current checkpoint of each attempt is needed for rem = t1 - t: replay the scan position from the interp events
    k = 1
    for e in seq:
        if e["op"] == "attempt":
            e["rem"] = ck[min(k, len(ck) - 1)] - e["tf"]
            e["ttoe"] = e["tto"] + eps
            e["lo"], e["hi"] = fmin * e["used"], fmax * e["used"]
        else:
            k += 1
    vals = set()
    for e in seq:
        for key in ("tf", "used", "tto", "ttoe", "dtout", "lo", "hi", "rem", "t1", "ft", "tt"):
            if key in e:
                vals.add(float(e[key]))
    t_out = [f64(t) for t in np.asarray(sol.t)]
    for c in ck:
        vals.update([float(c), float(c + eps)])
    vals.update(float(t) for t in t_out)
    vals.add(float(f64(dt0)))
    order = sorted(vals)
    ranks, r, prev = {}, 0, None
    for v in order:
        if prev is None or abs(v - prev) > 4 * np.spacing(max(abs(v), abs(prev))):
            r += 1
        ranks[v] = r
        prev = v
    R = lambda x: ranks[float(x)]  # noqa: E731
    ev = []
    for e in seq:
        if e["op"] == "attempt":
            ev.append({"op": "attempt", "tf": R(e["tf"]), "used": R(e["used"]), "tto": R(e["tto"]), "ttoe": R(e["ttoe"]), "acc": bool(e["ep"] >= 1.0),
                       "dtout": R(e["dtout"]), "lo": R(e["lo"]), "hi": R(e["hi"]), "rem": R(e["rem"]), "nfrom": e["nfrom"], "nto": e["nto"],
                       "t1": 0, "ft": 0, "tt": 0, "times": [], "ns": []})
        else:
            ev.append({"op": e["op"], "t1": R(e["t1"]), "ft": R(e["ft"]), "tt": R(e["tt"]), "tf": 0, "used": 0, "tto": 0, "ttoe": 0, "acc": False,
                       "dtout": 0, "lo": 0, "hi": 0, "rem": 0, "nfrom": 0, "nto": 0, "times": [], "ns": []})
    ev.append({"op": "final", "times": [R(t) for t in t_out[1:]], "ns": [int(n) for n in np.asarray(sol.num_steps)], "t1": 0, "ft": 0, "tt": 0, "tf": 0,
               "used": 0, "tto": 0, "ttoe": 0, "acc": False, "dtout": 0, "lo": 0, "hi": 0, "rem": 0, "nfrom": 0, "nto": 0})
    hdr = {"ckpts": [{"t": R(c), "te": R(c + eps)} for c in ck], "clip": bool(clip), "dt0": R(f64(dt0)), "t0": R(ck[0]), "t0e": R(ck[0] + eps)}
    return {"hdr": hdr, "ev": ev}


def validate(traces, timeout_s=600):
    wd = tlc.make_workdir()
    try:
        mod = tlc.write_model(wd, "ltr", "TraceAdaptiveLoop", {"Traces": traces}, check_deadlock=False)
        res = tlc.run_tlc(wd, mod, workers=1, timeout_s=timeout_s, heap="3g")
    finally:
        tlc.cleanup(wd)
    verdicts = {obj["tid"]: obj for tag, obj in res.prints if tag == "VERDICT"}
    return [verdicts.get(i + 1) for i in range(len(traces))], res
