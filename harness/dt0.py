"""L3 (C18): Dt0.tla  <->  ivpsolve.dt0 / ivpsolve.dt0_adaptive.

* abstract-magnitude model: TLC enumerates every class tuple, checks the model's own theorems, exports the relation
  (class tuple -> set of possible result classes, per contraction rate) and is asked for the property invariant
  `PositiveFinite` (a counterexample is a *prediction*; it becomes a violation only when a replay of class
  representatives through the real helper confirms it).
* replay: class representatives (0, 1e-300, 1e-8, 1, 1e300; scalar / vector / pytree / badly scaled states; vector
  fields with f(u0) zero / non-zero) through the real helpers; the class tuple of each call is *measured* (the vector
  field is wrapped and records what it returned), the result class must be in the model's set and positive finite.
* exact instances: Hairer-Norsett-Wanner II.4 over rationals (HNW in Dt0.tla) against dt0_adaptive.
* every proposal starts a short adaptive solve (iteration-capped while loop).
"""

from __future__ import annotations

import concurrent.futures as cf
import math
import os
import random
import re
import warnings
from fractions import Fraction as F

import jax
import jax.numpy as jnp
import numpy as np

from harness import exact, tlc

jax.config.update("jax_enable_x64", True)

from probdiffeq import ivpsolve, probdiffeq  # noqa: E402

POSFIN = {"tiny", "small", "normal", "huge"}
CLASS_ORDER = ["zero", "tiny", "small", "normal", "huge", "inf", "nan"]
RATES = list(range(1, 13))


# ----------------------------------------------------------------------------------------------------------------
# classes
# ----------------------------------------------------------------------------------------------------------------
def classify(x) -> str:
    """class of a non-negative float (the thresholds of Dt0.tla: 1e-15, 1e-5, 1e150)"""
    x = float(x)
    if math.isnan(x):
        return "nan"
    x = abs(x)
    if math.isinf(x):
        return "inf"
    if x == 0.0:
        return "zero"
    if x < 1e-15:
        return "tiny"
    if x < 1e-5:
        return "small"
    if x < 1e150:
        return "normal"
    return "huge"


def true_norm(v) -> float:
    """Euclidean norm without spurious under/overflow (nan/inf if an entry is)"""
    v = np.asarray(v, dtype=np.float64).ravel()
    if v.size == 0:
        return 0.0
    if np.any(np.isnan(v)):
        return float("nan")
    if np.any(np.isinf(v)):
        return float("inf")
    m = float(np.max(np.abs(v)))
    if m == 0.0:
        return 0.0
    with np.errstate(all="ignore"):
        return m * float(np.sqrt(np.sum((v / m) ** 2)))


def ravel(tree) -> np.ndarray:
    leaves = jax.tree.leaves(tree)
    return np.concatenate([np.asarray(leaf, dtype=np.float64).ravel() for leaf in leaves]) if leaves else np.zeros(0)


# ----------------------------------------------------------------------------------------------------------------
# TLC: abstract model
# ----------------------------------------------------------------------------------------------------------------
MODEL_INVARIANTS = ["Total", "ModeratePositiveFinite", "NanTolerancePropagates", "GuardBoundsStep", "GuardedDt0PositiveFinite", "ArithLawsHold", "Export", "ExportArith"]

# Which code Part A of Dt0.tla transcribes.  Default: the repaired tree (repo patches c18_dt0_guard.diff and
# c18_dt0_adaptive_weighted.diff).  VERIF_C18_CODE=pinned|guard|weighted selects the other combinations (experiments on
# scratch worktrees only).
_CODE = os.environ.get("VERIF_C18_CODE", "patched")
CODE_CONSTS = {
    "patched": {"GuardedDt0": True, "WeightedNorms": True},
    "guard": {"GuardedDt0": True, "WeightedNorms": False},
    "weighted": {"GuardedDt0": False, "WeightedNorms": True},
    "pinned": {"GuardedDt0": False, "WeightedNorms": False},
}[_CODE]
_ST_RE = re.compile(r"st = \[(.*?)\]", re.S)
_FIELD_RE = re.compile(r'(\w+) \|-> "(\w+)"')


def _tkey(t: dict):
    return (t["helper"], t["u0"], t["f0"], t["df"], t["atol"], t["rtol"])


def _run_model(name, invariants, timeout_s=600):
    wd = tlc.make_workdir()
    try:
        mod = tlc.write_model(wd, name, "Dt0", {"Instances": [], **CODE_CONSTS}, spec="SpecAbs", invariants=invariants, check_deadlock=False)
        return tlc.run_tlc(wd, mod, workers=8, timeout_s=timeout_s, heap="3g")
    finally:
        tlc.cleanup(wd)


def abstract_model():
    """returns dict(rel, arith, main (TlcResult), prop {helper: TlcResult}, cex {helper: tuple-dict or None})"""
    with cf.ThreadPoolExecutor(max_workers=3) as ex:
        f_main = ex.submit(_run_model, "abs", MODEL_INVARIANTS)
        f_p1 = ex.submit(_run_model, "pf_dt0", ["PositiveFiniteDt0"])
        f_p2 = ex.submit(_run_model, "pf_adaptive", ["PositiveFiniteAdaptive"])
        main, p1, p2 = f_main.result(), f_p1.result(), f_p2.result()
    rel, arith = {}, {}
    for tag, obj in main.prints:
        if tag == "REL":
            rel[_tkey(obj["t"])] = {
                "res": set(obj["res"]),
                "ok": bool(obj["ok"]),
                "ok_moderate": bool(obj["okModerate"]),
                "byrate": [set(s) for s in obj["byrate"]],
                "paths": sorted(obj["paths"]),
            }
        elif tag == "ARITH":
            arith[(obj["c"], obj["d"])] = {k: set(v) for k, v in obj.items() if k not in ("c", "d")}
    cex = {}
    for helper, res in (("dt0", p1), ("dt0_adaptive", p2)):
        cex[helper] = None
        if not res.ok:
            m = _ST_RE.findall(res.stdout)
            if m:
                cex[helper] = dict(_FIELD_RE.findall(m[-1]))
    return {"rel": rel, "arith": arith, "main": main, "prop": {"dt0": p1, "dt0_adaptive": p2}, "cex": cex}


# ----------------------------------------------------------------------------------------------------------------
# replay of the class-level arithmetic relation against numpy float64
# ----------------------------------------------------------------------------------------------------------------
ARITH_REPS = {
    "zero": [0.0],
    "tiny": [1e-300, 5e-324, 3e-162, 1e-20, 9.9e-16],
    "small": [1e-8, 1.1e-15, 9e-6],
    "normal": [1.0, 1.1e-5, 1e100, 9e149],
    "huge": [1e300, 1.1e150, 2e154, 1.7e308],
    "inf": [float("inf")],
    "nan": [float("nan")],
}


def replay_arith(arith):
    """returns (number of float evaluations, list of (op, c, d, x, y, got-class, allowed))"""
    bad, n = [], 0
    with np.errstate(all="ignore"):
        for (c, d), tab in arith.items():
            for x in ARITH_REPS[c]:
                x_ = np.float64(x)
                one = {
                    "norm": np.sqrt(np.sum(np.abs(np.asarray([x_, 0.0])) ** 2)),
                    "sqrt": np.sqrt(x_),
                }
                for op, val in one.items():
                    n += 1
                    if classify(val) not in tab[op]:
                        bad.append((op, c, d, x, None, classify(val), sorted(tab[op])))
                n += 2
                if bool(x_ < 1e-5) not in tab["lt5"]:
                    bad.append(("lt5", c, d, x, None, bool(x_ < 1e-5), sorted(tab["lt5"])))
                if bool(x_ <= 1e-15) not in tab["le15"]:
                    bad.append(("le15", c, d, x, None, bool(x_ <= 1e-15), sorted(tab["le15"])))
                for y in ARITH_REPS[d]:
                    y_ = np.float64(y)
                    two = {"mul": x_ * y_, "div": x_ / y_, "add": x_ + y_, "max": np.maximum(x_, y_), "min": np.minimum(x_, y_)}
                    for op, val in two.items():
                        n += 1
                        if classify(val) not in tab[op]:
                            bad.append((op, c, d, x, y, classify(val), sorted(tab[op])))
    return n, bad


# ----------------------------------------------------------------------------------------------------------------
# class representatives: states and vector fields
# ----------------------------------------------------------------------------------------------------------------
MAGNITUDES = [0.0, 1e-300, 1e-8, 1.0, 1e300]


def states(tier):
    out = []
    for c in MAGNITUDES:
        out.append((f"scalar({c:g})", "scalar", jnp.asarray(c)))
        out.append((f"vector({c:g})", "vector", jnp.asarray([c, -0.5 * c, 0.0])))
        out.append((f"pytree({c:g})", "pytree", {"a": jnp.asarray(c), "b": (jnp.asarray([0.25 * c, 0.0]), jnp.asarray([[-c]]))}))
    # badly scaled states (components of different classes)
    out.append(("vector(1e-300,1e-8,1)", "vector", jnp.asarray([1e-300, 1e-8, 1.0])))
    out.append(("vector(0,1e-300,0)", "vector", jnp.asarray([0.0, 1e-300, 0.0])))
    out.append(("vector(1e-8,1,1e300)", "vector", jnp.asarray([1e-8, 1.0, 1e300])))
    out.append(("pytree(1e-300,1e300)", "pytree", {"a": jnp.asarray(1e-300), "b": (jnp.asarray([1e300, 0.0]), jnp.asarray([[1.0]]))}))
    if tier == "thorough":
        for c in (1e-170, 1e-100, 1e-20, 1e-5, 1e100, 1e153, 1e160):
            out.append((f"scalar({c:g})", "scalar", jnp.asarray(c)))
            out.append((f"vector({c:g})", "vector", jnp.asarray([c, -0.5 * c, 0.0])))
    return out


def vector_fields():
    """name -> (f(y, t, y_start) on pytrees, f(u0) is zero?)"""
    tm = jax.tree.map
    return {
        "zero": (lambda y, t, y0: tm(jnp.zeros_like, y), True),
        "const": (lambda y, t, y0: tm(jnp.ones_like, y), False),
        "decay": (lambda y, t, y0: tm(lambda s: -s, y), False),
        "forced": (lambda y, t, y0: tm(lambda s: -0.5 * s + jnp.cos(t), y), False),
        # f(u0) = 0 exactly at (t0, u0), non-zero next to it
        "ramp": (lambda y, t, y0: tm(lambda s, s0: (s - s0) + t, y, y0), True),
    }


class Recorder:
    """wraps a vector field; records every (t, y, f) it is evaluated at (the helpers call it eagerly)"""

    def __init__(self, f, y_start):
        self.f, self.y_start, self.calls = f, y_start, []

    def __call__(self, y, /, *, t):
        out = self.f(y, t, self.y_start)
        try:
            self.calls.append((float(t), ravel(y), ravel(out)))
        except Exception:  # traced (inside jit): nothing to record
            pass
        return out


TOLERANCES_QUICK = [(1e-3, 1e-3), (1e-8, 1e-8), (1e-12, 1.0), (1.0, 1e-12)]
TOLERANCES_THOROUGH = TOLERANCES_QUICK + [(1e-6, 1e-3), (1e-3, 1e-10), (1.0, 1.0), (1e-12, 1e-12)]


def input_descriptor(cu0, cf0):
    if cu0 not in ("small", "normal"):
        return f"u0-{cu0}"
    if cf0 not in ("small", "normal"):
        return f"f0-{cf0}"
    return f"u0-{cu0}-f0-{cf0}"


def call_dt0(f, u0, t0=0.0):
    rec = Recorder(f, u0)
    vf = probdiffeq.ode(rec)
    with warnings.catch_warnings():
        warnings.simplefilter("ignore")
        h = float(ivpsolve.dt0(vf, (u0,), t=t0))
    f0 = rec.calls[0][2]
    return h, {"u0": classify(true_norm(ravel(u0))), "f0": classify(true_norm(f0))}


def _diff_class(f1, f0):
    with np.errstate(all="ignore"):
        return classify(true_norm(f1 - f0))


def call_dt0_adaptive(f, u0, *, rate, atol, rtol, t0=0.0):
    rec = Recorder(f, u0)
    vf = probdiffeq.ode(rec)
    with warnings.catch_warnings():
        warnings.simplefilter("ignore")
        h = float(ivpsolve.dt0_adaptive(vf, (u0,), t0, error_contraction_rate=rate, rtol=rtol, atol=atol))
    if len(rec.calls) != 2:
        raise tlc.MachineryError(f"dt0_adaptive evaluated the vector field {len(rec.calls)} times; the model assumes f0 and f1")
    f0, f1 = rec.calls[0][2], rec.calls[1][2]
    cls = {
        "u0": classify(true_norm(ravel(u0))),
        "f0": classify(true_norm(f0)),
        "df": _diff_class(f1, f0),
        "atol": classify(atol),
        "rtol": classify(rtol),
    }
    return h, cls


# ----------------------------------------------------------------------------------------------------------------
# short adaptive solves started from a proposal
# ----------------------------------------------------------------------------------------------------------------
ITERATION_CAP = 5000


def _capped_while(cond, body, init):
    """lax.while_loop that gives up after ITERATION_CAP iterations (a proposal of 0 would otherwise never return)"""

    def c(cs):
        return jnp.logical_and(cs[0] < ITERATION_CAP, cond(cs[1]))

    def b(cs):
        return (cs[0] + 1, body(cs[1]))

    return jax.lax.while_loop(c, b, (0, init))[1]


NUM_DERIVATIVES = 2  # TS0 with a twice-integrated Wiener prior: local error contraction rate 3


class SolveFactory:
    """jit-compiled `solve_adaptive_terminal_values` (dense model, TS0, uncalibrated solver, filter) per (vector field, state structure)"""

    def __init__(self):
        self.cache = {}

    def get(self, fname, f, kind, u0):
        key = (fname, kind, jax.tree.structure(u0), tuple(np.shape(x) for x in jax.tree.leaves(u0)))
        if key in self.cache:
            return self.cache[key]
        ssm = probdiffeq.state_space_model_dense()
        jetexpand = probdiffeq.jetexpand_ode_padded_scan(num=NUM_DERIVATIVES)
        strategy = probdiffeq.strategy_filter()

        @jax.jit
        def run(u0_, dt0, t1, atol, rtol):
            vf = probdiffeq.ode(lambda y, /, *, t: f(y, t, u0_))
            ts0 = ssm.constraint_ode_ts0(vf)
            solver = probdiffeq.solver(strategy=strategy, constraint=ts0)
            error = probdiffeq.error_residual_std(constraint=ts0)
            solve = ivpsolve.solve_adaptive_terminal_values(solver=solver, error=error, while_loop=_capped_while)
            tcoeffs, _ = jetexpand(vf, (u0_,), t=0.0)
            prior = ssm.prior_wiener_integrated(tcoeffs)
            sol = solve(prior, t0=0.0, t1=t1, dt0=dt0, atol=atol, rtol=rtol)
            return sol.t, sol.u.mean[0], sol.u.std[0], sol.num_steps

        self.cache[key] = run
        return run


def solve_from(run, u0, dt0, *, t1=1.0, atol=1e-3, rtol=1e-3):
    """(finished with finite output?, detail)"""
    with warnings.catch_warnings():
        warnings.simplefilter("ignore")
        t, mean, std, n = run(u0, jnp.asarray(dt0, dtype=jnp.float64), jnp.asarray(t1), jnp.asarray(atol), jnp.asarray(rtol))
    t = float(t)
    finite = bool(np.all(np.isfinite(ravel(mean)))) and bool(np.all(np.isfinite(ravel(std))))
    reached = math.isfinite(t) and abs(t - t1) <= 1e-6 * max(1.0, abs(t1))
    return (finite and reached), {"t_end": t, "finite": finite, "num_steps": float(np.max(np.asarray(n)))}


REFERENCE_STEPS = (1e-6, 1e-3, 0.1)


# ----------------------------------------------------------------------------------------------------------------
# exact instances (HNW over rationals)
# ----------------------------------------------------------------------------------------------------------------
def curated_instances():
    Z = F(0)
    base = dict(t0=Z, a0=Z, a1=Z, a2=Z, b=Z, atol=F(1, 100), rtol=F(1, 100), p=3)
    out = [
        # constant slope: d2 = 0, h1 is decided by the weighted d1 alone
        dict(base, y0=F(1), a0=F(1)),
        dict(base, y0=F(1), a0=F(1), atol=F(1), rtol=F(1), p=1),
        dict(base, y0=F(2), a0=F(-3), atol=F(1, 1000), rtol=F(1, 10), p=5),
        # linear decay: d2 = d1 in weighted norms
        dict(base, y0=F(1), a1=F(-1)),
        dict(base, y0=F(1), a1=F(-1), atol=F(1), rtol=F(1), p=2),
        dict(base, y0=F(5, 2), a1=F(-2), atol=F(1, 2), rtol=F(1, 2), p=4),
        # small state whose weighted norm is not small (1e-6 against sc = 2e-9): h0 must not take the 1e-6 guard
        dict(base, y0=F(1, 1000000), a0=F(1, 1000), atol=F(1, 1000000000), rtol=F(1, 1000), p=1),
        dict(base, y0=F(1, 1000000), a1=F(-1), atol=F(1, 1000000000), rtol=F(1, 1000), p=2),
        # state of moderate size whose weighted norm is below 1e-5 (huge tolerances are outside [1e-12, 1]: not used)
        # zero initial value / zero derivative: guards
        dict(base, y0=Z, a0=F(1)),
        dict(base, y0=Z, a0=F(1), a1=F(2), p=1),
        dict(base, y0=F(1)),  # f = 0 everywhere: flat branch
        dict(base, y0=Z),  # everything zero
        dict(base, y0=F(1), a0=F(-1), a1=F(1)),  # f(u0) = 0, f' != 0
        # quadratic / time dependent
        dict(base, y0=F(1, 2), a1=F(2), a2=F(-2), p=2),
        dict(base, y0=F(1), a2=F(1), b=F(1), p=1),
        dict(base, y0=F(3), a1=F(-1, 2), b=F(1), t0=F(1), p=3),
        dict(base, y0=F(20), a1=F(1, 2), a2=F(-1, 20), atol=F(1, 1000), rtol=F(1, 1000), p=5),
        dict(base, y0=F(1), a1=F(-1), p=12),
        dict(base, y0=F(2), a1=F(-1), atol=F(1, 2), rtol=F(1, 4), p=12),
    ]
    return out


def random_instance(rng: random.Random):
    """small rational data (larger numerators/denominators leave TLC's 32 bits and the instance is dropped)"""
    pick = rng.choice
    small = [F(0), F(1), F(-1), F(2), F(-2), F(1, 2), F(-1, 2), F(3), F(1, 4), F(-3, 2)]
    a2 = pick([F(0), F(0), F(1), F(-1), F(1, 2), F(-1, 20)])
    ys = [F(0), F(1), F(-1), F(2), F(1, 2), F(-3, 2), F(5), F(1, 10), F(20), F(-7, 4), F(10)]
    if a2 == 0:
        ys += [F(1, 1000), F(1, 1000000), F(-1, 100)]
    tol = [F(1), F(1, 2), F(1, 10), F(1, 100), F(1, 1000), F(1, 4)]
    p = pick([1, 1, 2, 2, 3, 3, 4, 5, 5, 7, 9, 12])
    return dict(y0=pick(ys), t0=pick([F(0), F(0), F(1), F(1, 2)]), a0=pick(small), a1=pick(small), a2=a2,
                b=pick([F(0), F(0), F(1), F(-1, 2)]), atol=pick(tol), rtol=pick(tol), p=p)


HNW_LAWS = ["HnwPositive", "HnwGuardValue", "HnwBounded", "HnwUnitInvariant", "HnwShiftInvariant"]


def eval_exact(instances):
    return exact.eval_instances("Dt0", [dict(i) for i in instances], invariants=HNW_LAWS + ["CheckAndPrint"], batch=40, extra_consts=dict(CODE_CONSTS))


def call_instance(inst):
    a0, a1, a2, b = (float(inst[k]) for k in ("a0", "a1", "a2", "b"))

    def f(y, /, *, t):
        return a0 + a1 * y + a2 * y * y + b * t

    vf = probdiffeq.ode(f)
    with warnings.catch_warnings():
        warnings.simplefilter("ignore")
        h = ivpsolve.dt0_adaptive(vf, (jnp.asarray(float(inst["y0"])),), float(inst["t0"]), error_contraction_rate=inst["p"],
                                  rtol=float(inst["rtol"]), atol=float(inst["atol"]))
    return float(h)


LAYOUTS = {
    "flat(4,)": lambda v: jnp.full((4,), v),
    "dict{(2,),(1,),()}": lambda v: {"a": jnp.full((2,), v), "b": jnp.full((1,), v), "c": jnp.asarray(v)},
    "tuple((1,),((2,),(1,)))": lambda v: (jnp.full((1,), v), (jnp.full((2,), v), jnp.full((1,), v))),
}


def halved(inst):
    """four identical, independent copies of a scalar problem: the (Euclidean) norms of the library double, which is the
    scalar instance with atol and rtol halved (sc halves, d0, d1, d2 double, nothing else depends on sc)"""
    return dict(inst, atol=inst["atol"] / 2, rtol=inst["rtol"] / 2)


def call_instance_copies(inst, layout):
    """dt0_adaptive on four copies of the scalar instance, the state being a pytree with the given leaf partition"""
    a0, a1, a2, b = (float(inst[k]) for k in ("a0", "a1", "a2", "b"))

    def f(y, /, *, t):
        return jax.tree_util.tree_map(lambda x: a0 + a1 * x + a2 * x * x + b * t, y)

    vf = probdiffeq.ode(f)
    with warnings.catch_warnings():
        warnings.simplefilter("ignore")
        h = ivpsolve.dt0_adaptive(vf, (LAYOUTS[layout](float(inst["y0"])),), float(inst["t0"]), error_contraction_rate=inst["p"],
                                  rtol=float(inst["rtol"]), atol=float(inst["atol"]))
    return float(h)


def rel_err(a, b):
    if not (math.isfinite(a) and math.isfinite(b)):
        return float("inf")
    if b == 0.0:
        return abs(a)
    return abs(a - b) / abs(b)


def near_threshold(e):
    """instances on which a float evaluation may legitimately take the other branch of a comparison with 1e-5"""
    for k in ("d0", "d1"):
        v = float(e[k])
        if v != 0.0 and abs(v - 1e-5) <= 1e-9 * 1e-5:
            return True
    return False


def compare_instance(inst, e, h):
    """relative deviation of dt0_adaptive from the specification (on the step or on its (p+1)-th power)"""
    if e["kind"] == "value":
        return rel_err(h, float(e["val"]))
    if e["kind"] == "either":  # the specification gives both candidates of the final min exactly; only the min is taken in floats
        return rel_err(h, min(float(e["val"]), float(e["alt"]) ** (1.0 / (inst["p"] + 1))))
    return rel_err(h ** (inst["p"] + 1), float(e["val"]))


def unweighted_variant(inst):
    """Diagnosis only (names the violation key, never decides a verdict): the same two-stage heuristic with
    d0 = |y0|, d1 = |f0| *not* divided by the tolerance weights."""
    y0, t0 = float(inst["y0"]), float(inst["t0"])
    a0, a1, a2, b = (float(inst[k]) for k in ("a0", "a1", "a2", "b"))
    atol, rtol, p = float(inst["atol"]), float(inst["rtol"]), inst["p"]

    def f(t, y):
        return a0 + a1 * y + a2 * y * y + b * t

    sc = atol + abs(y0) * rtol
    f0 = f(t0, y0)
    d0, d1 = abs(y0), abs(f0)
    h0 = 1e-6 if (d0 < 1e-5 or d1 < 1e-5) else 0.01 * d0 / d1
    f1 = f(t0 + h0, y0 + h0 * f0)
    d2 = abs(f1 - f0) / sc / h0
    m = max(d1, d2)
    h1 = max(1e-6, h0 * 1e-3) if m <= 1e-15 else (0.01 / m) ** (1.0 / (p + 1.0))
    return min(100.0 * h0, h1)
