"""Spec-derived relational replays on the REAL state-space models.

The step history comes from a TLC behaviour of AdaptiveLoop (scripted error powers keyed by (t, dt)), the numbers come
from the real dense / isotropic / block-diagonal models on a real ODE.  Used for relations that the specification
proves on terms (same posterior => same numbers): smoothing vs filtering at the final time, fixed-interval vs
fixed-point at shared times, checkpoint supersets, scale equivariance, factorisation agreement.
"""

from __future__ import annotations

import warnings

import jax
import jax.numpy as jnp
import numpy as np

jax.config.update("jax_enable_x64", True)

from probdiffeq import ivpsolve  # noqa: E402
from probdiffeq import probdiffeq as pdq  # noqa: E402
from probdiffeq.util import test_util  # noqa: E402

from harness import l0, l1, scripted  # noqa: E402

SSMS = {"dense": pdq.state_space_model_dense, "iso": pdq.state_space_model_isotropic, "bd": pdq.state_space_model_blockdiag}


def logistic2(u, *, t):
    return u * (1.0 - u) + 0.1 * jnp.sin(t) * jnp.ones_like(u)


def vdp(u, du, *, t):
    return 0.5 * (1.0 - u**2) * du - u


PROBLEMS = {
    "logistic": dict(order=1, vf=logistic2, u0=(jnp.asarray([0.2, 0.4]),)),
    "vdp2": dict(order=2, vf=vdp, u0=(jnp.asarray([1.0, 0.5]), jnp.asarray([0.0, 0.3]))),
}


def setup(problem, ssm_name, num, *, ts="ts0", output_scale=None, jac=None):
    """-> (ssm, ode, prior, constraint)"""
    P = PROBLEMS[problem]
    jac = jac or pdq.jacobian_materialize()
    ode = pdq.ode(P["vf"], jacobian=jac) if P["order"] == 1 else pdq.ode_order_two(P["vf"], jacobian=jac)
    tc, _ = pdq.jetexpand_ode_padded_scan(num=num)(ode, P["u0"], t=0.0)
    ssm = SSMS[ssm_name]()
    kw = {} if output_scale is None else {"output_scale": output_scale}
    prior = ssm.prior_wiener_integrated(tc, **kw)
    constraint = ssm.constraint_ode_ts0(ode) if ts == "ts0" else ssm.constraint_ode_ts1(ode)
    return ssm, ode, prior, constraint


SOLVERS = l1.SOLVERS
STRATEGIES = l1.STRATEGIES


def make_solver(solver, strategy, constraint):
    return SOLVERS[solver](strategy=STRATEGIES[strategy](), constraint=constraint)


class ScriptedRun:
    """adaptive solves of a real solver whose accept/reject history is scripted by a TLC behaviour"""

    def __init__(self, cfg, solver, *, mode="save_at", save_at=None):
        self.cfg = cfg
        self.log = scripted.EventLog()
        err = l1.ScriptedErrorL1(self.log)
        ctrl = l0.real_control(cfg)
        self.save_at = jnp.asarray([c / l0.UNIT for c in (save_at if save_at is not None else cfg["Ckpts"])])
        dt0, eps = cfg["Dt0"] / l0.UNIT, cfg["Eps"] / l0.UNIT
        wl = scripted.bounded_while_loop(200)
        with warnings.catch_warnings():
            warnings.simplefilter("ignore")
            if mode == "save_at":
                solve = ivpsolve.solve_adaptive_save_at(solver=solver, error=err, control=ctrl, clip_dt=cfg["Clip"], while_loop=wl)
                self.fn = jax.jit(lambda prior, table: solve(prior, save_at=self.save_at, atol=table, rtol=0.0, dt0=dt0, eps=eps))
            elif mode == "terminal":
                solve = ivpsolve.solve_adaptive_terminal_values(solver=solver, error=err, control=ctrl, clip_dt=cfg["Clip"], while_loop=wl)
                self.fn = jax.jit(lambda prior, table: solve(prior, t0=self.save_at[0], t1=self.save_at[-1], atol=table, rtol=0.0, dt0=dt0, eps=eps))
            elif mode == "every_step":
                solve = test_util.solve_adaptive_save_every_step(solver, err, control=ctrl, clip_dt=cfg["Clip"])
                self.fn = lambda prior, table: solve(prior, self.save_at[0], self.save_at[-1], atol=table, rtol=0.0, dt0=dt0, eps=eps)
            else:
                raise ValueError(mode)

    def run(self, prior, beh):
        self.log.clear()
        table = tuple(jnp.asarray(x) for x in l0.script_table(beh))
        sol = self.fn(prior, table)
        jax.effects_barrier()
        return sol, l1.accepted_steps(self.log.events)


def flat(tree):
    return np.concatenate([np.asarray(x, dtype=np.float64).reshape(-1) for x in jax.tree_util.tree_leaves(tree)])


def rel(a, b):
    a, b = np.asarray(a, dtype=np.float64), np.asarray(b, dtype=np.float64)
    if a.shape != b.shape:
        return float("inf")
    if not (np.all(np.isfinite(a)) and np.all(np.isfinite(b))):
        return float("inf")
    return float(np.max(np.abs(a - b)) / max(1e-300, max(1.0, float(np.max(np.abs(b))))))


def at_times(sol, times, tol=1e-12):
    """indices of sol.t matching the given times"""
    ts = np.asarray(sol.t)
    return [int(np.argmin(np.abs(ts - t))) for t in times]


def take(tree, idx):
    return jax.tree_util.tree_map(lambda x: x[np.asarray(idx)], tree)
