"""Evidence / violation / known-finding bookkeeping shared by all checks."""

from __future__ import annotations

import json
import os
import time

VERIF = os.path.dirname(os.path.dirname(os.path.abspath(__file__)))


LAST = {"keys": [], "known": []}  # violation keys of the most recent Report.finish() (used by the generic replay)


def load_findings():
    with open(os.path.join(VERIF, "known_findings.json")) as f:
        return json.load(f)


class Report:
    def __init__(self, pid: str, tier: str, seed: int, level: str = "model_checking"):
        self.pid, self.tier, self.seed, self.level = pid, tier, seed, level
        self.t0 = time.time()
        self.states = 0
        self.transitions = 0
        self.traces = 0  # traces / behaviours validated against the implementation
        self.evaluations = 0
        self.distinct = set()
        self.samples = []
        self.violations = []  # (key, what, replay_path)
        self.known_hit = {}  # key -> what
        self.assumptions = []
        self.extra = {}
        self.rule = ""
        self.exhaustive = None
        self._known = [k for k in load_findings().get("known", []) if k.get("property") == pid]

    # ---- counting ----
    def add_tlc(self, res):
        self.states += res.distinct
        self.transitions += res.generated

    def add_case(self, ident=None):
        self.evaluations += 1
        if ident is not None:
            self.distinct.add(ident)

    def sample(self, obj, cap=4):
        if len(self.samples) < cap:
            self.samples.append(obj)

    # ---- verdicts ----
    def violation(self, key: str, what: str, replay: dict | None = None):
        """Record a divergence.  `key` names the specific input / call site / history class."""
        for k in self._known:
            if k["key"] == key or (k.get("key_prefix") and key.startswith(k["key_prefix"])):
                self.known_hit.setdefault(k["key"], k["what"])
                return
        if any(v[0] == key for v in self.violations):
            return
        os.makedirs(os.path.join(VERIF, "replays"), exist_ok=True)
        safe = "".join(c if c.isalnum() or c in "-_." else "_" for c in key)[:80]
        path = os.path.join(VERIF, "replays", f"{self.pid}_{safe}.json")
        with open(path, "w") as f:
            json.dump({"property": self.pid, "key": key, "what": what, "tier": self.tier, "seed": self.seed, "replay": replay}, f, indent=1, default=str)
        self.violations.append((key, what, path))

    def finish(self) -> int:
        wall = time.time() - self.t0
        cov = {
            "states": int(self.states),
            "transitions": int(self.transitions),
            "traces_validated_against_impl": int(self.traces),
            "samples": self.samples if self.samples else ["<none>"],
            "evaluations": int(self.evaluations),
            "distinct_nontrivial": len(self.distinct),
            "rule": self.rule,
        }
        if self.exhaustive is not None:
            cov["exhaustive"] = bool(self.exhaustive)
        cov.update(self.extra)
        ev = {
            "property_id": self.pid,
            "tier": self.tier,
            "seed": int(self.seed),
            "level": self.level,
            "coverage": cov,
            "assumptions": self.assumptions,
            "wall_s": round(wall, 2),
            "violations": len(self.violations),
            "known_findings_hit": sorted(self.known_hit),
        }
        # runs against a scratch worktree (VERIF_REPO set by tools/run_seeded.py) must not overwrite the evidence of /repo
        evdir = "evidence" if os.environ.get("VERIF_REPO", "/repo").rstrip("/") == "/repo" else os.path.join(".scratch", "evidence_other_tree")
        os.makedirs(os.path.join(VERIF, evdir), exist_ok=True)
        with open(os.path.join(VERIF, evdir, f"{self.pid}.json"), "w") as f:
            json.dump(ev, f, indent=1, default=str)
        LAST["keys"] = [v[0] for v in self.violations]
        LAST["known"] = sorted(self.known_hit)
        for key, what in sorted(self.known_hit.items()):
            print(f"KNOWN-FINDING: property={self.pid} {key}: {what}")
        for key, what, path in self.violations:
            print(f"VIOLATION property={self.pid} replay={path}")
            print(f"  {key}: {what}")
        print(
            f"[{self.pid}] tier={self.tier} states={self.states} transitions={self.transitions} "
            f"impl-traces={self.traces} cases={self.evaluations} distinct={len(self.distinct)} "
            f"violations={len(self.violations)} wall={wall:.1f}s"
        )
        return 1 if self.violations else 0
