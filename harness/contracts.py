"""L3 (C20): InputContracts.tla  <->  the public API of probdiffeq.

TLC exports the relation (entry, field, corruption, factorisation) -> raise | warn | accept.  Every tuple is applied to
an otherwise valid call of the real public API (2-dimensional first-order ODE, three Taylor coefficients):

    raise  = any Python exception at construction or first use (first use = the cheapest documented way to use the
             object: `transition` and one `solver.step` for a prior, one `solver.step` for a constraint, evaluating a
             loss, one short adaptive solve for an error estimator);
    warn   = a warning whose text names a strategy that does suit the routine;
    accept = returns finite numbers.

Several concrete variants may realise one corruption class (e.g. which leaf of a container is hit); all of them have
to show the specified outcome.  The valid call of every (entry, field, factorisation) is replayed as well and must
be accepted - otherwise the harness itself is broken (machinery failure, not a verdict).
"""

from __future__ import annotations

import warnings

import jax
import jax.numpy as jnp
import numpy as np

from harness import tlc

jax.config.update("jax_enable_x64", True)

from probdiffeq import ivpsolve, probdiffeq  # noqa: E402

INVARIANTS = [
    "TypeOK",
    "ShapeFieldsComplete",
    "MissingOnlyWhereUndocumented",
    "GroupsCovered",
    "StatementCovered",
    "Functional",
    "AcceptOnlyDocumentedBroadcast",
    "DocumentedBroadcastAccepted",
    "PairingsWarn",
    "WarningsNameRemedy",
    "DefaultIsRaise",
    "Export",
]


def relation():
    """run TLC on InputContracts.tla: (TlcResult, tuples)"""
    wd = tlc.make_workdir()
    try:
        mod = tlc.write_model(wd, "contracts", "InputContracts", {}, invariants=INVARIANTS, check_deadlock=False)
        res = tlc.run_tlc(wd, mod, workers=4, timeout_s=300, heap="2g")
    finally:
        tlc.cleanup(wd)
    tuples = [obj for tag, obj in res.prints if tag == "TUP"]
    tuples.sort(key=lambda t: (t["entry"], t["field"], t["fact"], t["corruption"]))
    return res, tuples


# ----------------------------------------------------------------------------------------------------------------
# the otherwise valid call
# ----------------------------------------------------------------------------------------------------------------
SSM = {
    "dense": probdiffeq.state_space_model_dense,
    "isotropic": probdiffeq.state_space_model_isotropic,
    "blockdiag": probdiffeq.state_space_model_blockdiag,
}
D = 2  # state dimension
NUM = 2  # derivatives -> three Taylor coefficients
N_GRID = 5
DT = 0.1


def _vf(y, /, *, t):
    del t
    return -y * (1.0 + 0.1 * y)


def _residual_fn(y, dy, /, *, t):
    del t
    return dy + y * (1.0 + 0.1 * y)


class World:
    """valid objects shared by all replays (built once)"""

    def __init__(self):
        self.u0 = jnp.asarray([1.0, 0.5])
        self.ode = probdiffeq.ode(_vf, jacobian=probdiffeq.jacobian_materialize())
        self.residual = probdiffeq.residual_velocity(_residual_fn, jacobian=probdiffeq.jacobian_materialize())
        tcoeffs, _ = probdiffeq.jetexpand_ode_padded_scan(num=NUM)(self.ode, (self.u0,), t=0.0)
        self.tcoeffs = [jnp.asarray(c) for c in tcoeffs]
        assert len(self.tcoeffs) == NUM + 1 and all(c.shape == (D,) for c in self.tcoeffs)
        # a linear autonomous ODE of order 3 for the exponential priors: u''' = -u''
        self.exp_ode = self.make_exp_ode(NUM + 1)
        self._cache = {}

    @staticmethod
    def make_exp_ode(order):
        def f(*coeffs):
            return -coeffs[-1]

        return probdiffeq.ode_autonomous_order_arbitrary(f, num_tcoeffs_in_args=order)

    # ---- valid field values
    def base_scale(self, fact):
        return jnp.asarray(2.0) if fact == "isotropic" else jnp.asarray([2.0, 3.0])

    def calibrated_scale(self, fact):
        return jnp.asarray([1.5, 0.5]) if fact == "blockdiag" else jnp.asarray(1.5)

    def is_exact(self, fact):
        if fact == "isotropic":
            return [jnp.asarray(True), jnp.asarray(False), jnp.asarray(False)]
        return [jnp.asarray([True, True]), jnp.asarray([False, True]), jnp.asarray([False, False])]

    def tcoeffs_std(self, fact):
        if fact == "isotropic":
            return [jnp.asarray(0.0), jnp.asarray(0.1), jnp.asarray(0.2)]
        return [jnp.asarray([0.0, 0.0]), jnp.asarray([0.1, 0.2]), jnp.asarray([0.3, 0.4])]

    def noise_terminal(self, fact):
        return jnp.asarray(0.1) if fact == "isotropic" else jnp.asarray([0.1, 0.2])

    def noise_timeseries(self, fact):
        return 0.1 * jnp.ones((N_GRID,)) if fact == "isotropic" else 0.1 * jnp.ones((N_GRID, D))

    # ---- valid composite objects
    def solver(self, fact, constraint=None, strategy=None):
        ssm = SSM[fact]()
        if constraint is None:
            constraint = ssm.constraint_ode_ts0(self.ode)
        if strategy is None:
            strategy = probdiffeq.strategy_filter()
        return probdiffeq.solver(strategy=strategy, constraint=constraint)

    def prior(self, fact):
        return SSM[fact]().prior_wiener_integrated(self.tcoeffs)

    def terminal_solution(self, fact):
        """marginals after two solver steps (what a terminal-value solve hands to the loss)"""
        key = ("terminal", fact)
        if key not in self._cache:
            solver = self.solver(fact)
            state = solver.init(t=0.0, u=self.prior(fact), damp=0.0)
            for _ in range(2):
                state = solver.step(state=state, dt=DT, damp=0.0)
            self._cache[key] = state
        return self._cache[key]

    def timeseries_solution(self, fact):
        """a smoothing solution on N_GRID points (fixed-interval smoother on a fixed grid)"""
        key = ("timeseries", fact)
        if key not in self._cache:
            solver = self.solver(fact, strategy=probdiffeq.strategy_smoother_fixedinterval())
            solve = ivpsolve.solve_fixed_grid(solver=solver)
            self._cache[key] = solve(self.prior(fact), grid=jnp.linspace(0.0, 0.4, N_GRID))
        return self._cache[key]

    # ---- first uses
    def use_prior(self, fact, prior):
        """`transition` with a valid calibrated scale, then one solver step started from the prior"""
        cond = prior.transition(dt=DT, output_scale=self.calibrated_scale(fact))
        solver = self.solver(fact)
        state = solver.init(t=0.0, u=prior, damp=0.0)
        state = solver.step(state=state, dt=DT, damp=0.0)
        return [jax.tree.leaves(cond), state.u.mean, state.u.std]

    def use_constraint(self, fact, constraint, prior=None):
        """one solver step with the constraint"""
        solver = self.solver(fact, constraint=constraint)
        state = solver.init(t=0.0, u=self.prior(fact) if prior is None else prior, damp=0.0)
        state = solver.step(state=state, dt=DT, damp=0.0)
        return [state.u.mean, state.u.std]


_WORLD = None


def world() -> World:
    global _WORLD
    if _WORLD is None:
        _WORLD = World()
    return _WORLD


# ----------------------------------------------------------------------------------------------------------------
# corruptions
# ----------------------------------------------------------------------------------------------------------------
class NotAnArray:
    """an arbitrary object"""

    def __repr__(self):
        return "<NotAnArray>"


def corrupt_leaf(x, corruption, *, flags=False):
    """variants [(label, corrupted value)] of one valid leaf (an array of rank >= 1, or a rank-0 array)"""
    x = np.asarray(x)
    is_array = x.ndim >= 1
    if corruption == "wrong_rank":
        if is_array:
            return [("trailing axis", jnp.asarray(x[..., None])), ("leading axis", jnp.asarray(x[None, ...]))]
        return [(f"shape ({D},)", jnp.asarray(np.full((D,), x)))]
    if corruption == "wrong_length":
        assert is_array
        return [("one more", jnp.asarray(np.concatenate([x, x[..., :1]], axis=-1)))]
    if corruption == "broadcastable_length":
        if is_array:
            return [("length 1", jnp.asarray(x[..., :1]))]
        return [("shape (1,)", jnp.asarray(np.full((1,), x)))]
    if corruption == "scalar":
        assert is_array
        return [("rank 0", jnp.asarray(x.reshape(-1)[0]))]
    if corruption == "wrong_tree":
        return [("dict around the leaf", {"a": jnp.asarray(x)}), ("pair of leaves", (jnp.asarray(x), jnp.asarray(x)))]
    if corruption == "wrong_dtype":
        if flags:
            return [("float flags", jnp.asarray(x.astype(np.float64))), ("int flags", jnp.asarray(x.astype(np.int32)))]
        return [("string array", np.full(x.shape, "1.0"))]
    if corruption == "wrong_type":
        return [("str", "not-an-array"), ("object", NotAnArray())]
    raise ValueError(corruption)


def corrupt_container(leaves, corruption, *, flags=False, stackable=False, all_leaves=False):
    """variants of a list of per-coefficient leaves: one leaf is hit (the second, then the last); with `all_leaves`
    (containers whose reference shape is given by *another* argument: flags and standard deviations against the Taylor
    coefficients) also every leaf in the same way; for wrong_tree also a container that is one element short; for
    wrong_type (Taylor coefficients) an array in place of the list"""
    out = []
    for pos in (1, len(leaves) - 1):
        for label, bad in corrupt_leaf(leaves[pos], corruption, flags=flags):
            new = list(leaves)
            new[pos] = bad
            out.append((f"leaf {pos}: {label}", new))
    if all_leaves:
        per_leaf = [corrupt_leaf(x, corruption, flags=flags) for x in leaves]
        for j, (label, _) in enumerate(per_leaf[0]):
            out.append((f"every leaf: {label}", [v[j][1] for v in per_leaf]))
    if corruption == "wrong_tree":
        out.append(("one element short", list(leaves[:-1])))
        if all_leaves:  # containers that must match the Taylor coefficients in LENGTH as well
            out.append(("a single element (a container length that would broadcast)", [leaves[0]]))
            out.append(("one element too many", list(leaves) + [leaves[-1]]))
    if corruption == "wrong_type" and stackable:
        out.insert(0, ("stacked array instead of a list", jnp.stack(leaves)))
    return out


# ----------------------------------------------------------------------------------------------------------------
# entries: (field, corruption, fact) -> [(variant label, thunk)]   (corruption None = the valid call)
# ----------------------------------------------------------------------------------------------------------------
def _variants_of(field_kind, valid, corruption, **kw):
    if corruption is None:
        return [("valid", valid)]
    if field_kind == "leaf":
        return corrupt_leaf(valid, corruption, **kw)
    return corrupt_container(valid, corruption, **kw)


def _prior_thunks(entry, field, corruption, fact):
    w = world()
    ssm = SSM[fact]()
    diffuse = entry.endswith("_diffuse")
    exponential = "exponential" in entry
    args = {
        "tcoeffs": list(w.tcoeffs),
        "is_exact": w.is_exact(fact),
        "tcoeffs_std": w.tcoeffs_std(fact),
        "output_scale": w.base_scale(fact),
        "ode": w.exp_ode,
    }
    name = "tcoeffs" if field == "tcoeffs_mean" else field
    if name == "tcoeffs_tree":
        return _tree_tcoeffs_thunks(ssm, corruption)
    if name == "ode_order":
        order = {None: NUM + 1, "too_small": NUM, "too_large": NUM + 2}[corruption]
        variants = [(f"ODE order {order}, {NUM + 1} Taylor coefficients", ("ode", w.make_exp_ode(order)))]
    elif name == "output_scale":
        variants = [(lab, (name, v)) for lab, v in _variants_of("leaf", args[name], corruption)]
    else:
        variants = [(lab, (name, v)) for lab, v in _variants_of("container", args[name], corruption, flags=(name == "is_exact"), stackable=(name == "tcoeffs"), all_leaves=(name != "tcoeffs"))]

    def make(key, value, dd=0):
        a = dict(args)
        a[key] = value

        def thunk():
            if exponential and diffuse:
                prior = ssm.prior_exponential_diffuse(a["ode"], a["tcoeffs"], a["tcoeffs_std"], output_scale=a["output_scale"])
            elif exponential:
                prior = ssm.prior_exponential(a["ode"], a["tcoeffs"], is_exact=a["is_exact"], output_scale=a["output_scale"])
            elif diffuse:
                prior = ssm.prior_wiener_integrated_diffuse(a["tcoeffs"], a["tcoeffs_std"], output_scale=a["output_scale"], diffuse_derivatives=dd)
            else:
                prior = ssm.prior_wiener_integrated(a["tcoeffs"], is_exact=a["is_exact"], output_scale=a["output_scale"], diffuse_derivatives=dd)
            return w.use_prior(fact, prior)

        return thunk

    out = [(lab, make(k, v)) for lab, (k, v) in variants]
    if not exponential and name in ("tcoeffs_std", "is_exact", "tcoeffs"):
        # the same call with one appended diffuse derivative (the containers are padded internally: a malformed one must not
        # be repaired silently by the padding)
        out += [(lab + " + diffuse_derivatives=1", make(k, v, dd=1)) for lab, (k, v) in variants]
    return out


def _tree_tcoeffs_thunks(ssm, corruption):
    """Taylor coefficients with three array leaves each; corrupted: ONE coefficient has some leaves of another shape
    (same tree structure, same total size, so nothing downstream can notice by accident)"""

    def coeff(k, shapes):
        return {"a": jnp.full(shapes[0], 0.5 + k), "b": jnp.full(shapes[1], -0.25 * k), "c": jnp.full(shapes[2], 1.0)}

    good = ((2, 3), (3,), ())
    variants = {
        None: [("valid three-leaf coefficients", [good, good, good])],
        "mismatch": [
            ("two of three fields swapped in coefficient 1", [good, ((3,), (2, 3), ()), good]),
            ("one field of another rank in coefficient 2", [good, good, ((6,), (3,), ())]),
            ("one field transposed in coefficient 1", [good, ((3, 2), (3,), ()), good]),
        ],
    }[corruption]

    def make(shapes_per_coeff):
        def thunk():
            tc = [coeff(k, sh) for k, sh in enumerate(shapes_per_coeff)]
            prior = ssm.prior_wiener_integrated(tc)
            scale = prior.init.prototype_output_scale_calibrated()
            cond = prior.transition(dt=DT, output_scale=jnp.ones_like(scale))
            rv = cond.apply_flat(prior.init.mean_flat)
            return [prior.init.mean, rv.mean, rv.std]

        return thunk

    return [(lab, make(sh)) for lab, sh in variants]


def _transition_thunks(entry, field, corruption, fact):
    w = world()
    ssm = SSM[fact]()
    if entry.startswith("exponential"):
        prior = ssm.prior_exponential(w.exp_ode, list(w.tcoeffs))
    else:
        prior = ssm.prior_wiener_integrated(list(w.tcoeffs))

    def make(v):
        def thunk():
            cond = prior.transition(dt=DT, output_scale=v)
            rv = cond.apply_flat(prior.init.mean_flat)
            return [jax.tree.leaves(cond), rv.mean, rv.std]

        return thunk

    return [(lab, make(v)) for lab, v in _variants_of("leaf", w.calibrated_scale(fact), corruption)]


def _loss_terminal_thunks(entry, field, corruption, fact):
    w = world()
    sol = w.terminal_solution(fact)
    loss = probdiffeq.loss_lml_terminal_values()
    data = sol.u.mean[0]

    def make(v):
        return lambda: loss(data, marginals=sol.u, std=v)

    return [(lab, make(v)) for lab, v in _variants_of("leaf", w.noise_terminal(fact), corruption)]


def _loss_timeseries_thunks(entry, field, corruption, fact):
    w = world()
    sol = w.timeseries_solution(fact)
    loss = probdiffeq.loss_lml_timeseries()
    data = sol.u.mean[0]
    std = w.noise_timeseries(fact)
    if field == "posterior":
        if corruption is None:
            return [("valid", lambda: loss(data, posterior=sol.solution_full.posterior, std=std))]
        assert corruption == "wrong_type"
        return [
            ("marginals instead of the posterior", lambda: loss(data, posterior=sol.u, std=std)),
            ("whole solution instead of the posterior", lambda: loss(data, posterior=sol, std=std)),
        ]

    def make(v):
        return lambda: loss(data, posterior=sol.solution_full.posterior, std=v)

    return [(lab, make(v)) for lab, v in _variants_of("leaf", std, corruption)]


def _constraint_thunks(entry, field, corruption, fact):
    w = world()
    ssm = SSM[fact]()
    build = {
        "constraint_ode_ts0": lambda x: ssm.constraint_ode_ts0(x),
        "constraint_ode_ts1": lambda x: ssm.constraint_ode_ts1(x),
        "constraint_residual": lambda x: ssm.constraint_residual(x),
    }[entry]
    valid = w.residual if entry == "constraint_residual" else w.ode
    plain = _residual_fn if entry == "constraint_residual" else _vf
    variants = [("valid", valid)] if corruption is None else [("plain function", plain), ("jitted plain function", jax.jit(plain))]

    def make(v):
        return lambda: w.use_constraint(fact, build(v))

    return [(lab, make(v)) for lab, v in variants]


def _jet_lift_thunks(entry, field, corruption, fact):
    w = world()
    ssm = SSM[fact]()
    # three Taylor coefficients (indices 0..2), first-order ODE: the lifted constraint has outputs u', ..., u^(1+lift_by),
    # which the state carries only for 0 <= lift_by <= 1; lift_by = 2 is the first inadmissible order (the lifted
    # FUNCTION still has enough inputs there - only the output coefficient is missing - which is the boundary where
    # array indexing clamps silently, see known_findings.json "fixed")
    values = {
        None: [("lift_by=1", 1)],
        "wrong_dtype": [("lift_by=1.0", 1.0), ("lift_by=array(1)", jnp.asarray(1))],
        "wrong_type": [("lift_by='1'", "1"), ("lift_by=None", None)],
        "too_small": [("lift_by=-1", -1)],
        "too_large": [("lift_by=2", NUM), ("lift_by=3", NUM + 1), ("lift_by=7", 7)],
    }[corruption]

    def make(v, residual):
        def thunk():
            if residual:
                lifted = probdiffeq.residual_from_ode(w.ode).jet_lift(lift_by=v)
                constraint = ssm.constraint_residual(lifted)
            else:
                lifted = w.ode.jet_lift(lift_by=v)
                constraint = ssm.constraint_ode_ts0(lifted)
            return w.use_constraint(fact, constraint)

        return thunk

    out = []
    for lab, v in values:
        out.append((f"JetOde.jet_lift({lab})", make(v, False)))
        if corruption is not None and isinstance(v, int) and v > 0:
            # the residual u' - f(u) already takes two coefficients: its admissible range ends one earlier
            out.append((f"JetResidual.jet_lift({lab})", make(v, True)))
        elif corruption is not None and not isinstance(v, int):
            out.append((f"JetResidual.jet_lift({lab})", make(v, True)))
    return out


def _error_estimate_thunks(entry, field, corruption, fact):
    w = world()
    ssm = SSM[fact]()

    def make(lift_by):
        def thunk():
            vf = w.ode if lift_by is None else w.ode.jet_lift(lift_by=lift_by)
            c = ssm.constraint_ode_ts0(vf)
            solver = probdiffeq.solver(strategy=probdiffeq.strategy_filter(), constraint=c)
            error = probdiffeq.error_residual_std(constraint=c)
            solve = ivpsolve.solve_adaptive_terminal_values(solver=solver, error=error)
            sol = solve(w.prior(fact), t0=0.0, t1=0.2, dt0=0.1, atol=1e-2, rtol=1e-2)
            return [sol.u.mean, sol.u.std]

        return thunk

    def make_scalar(lift_by):
        """the same mismatch on a ONE-dimensional state (shape (1,)) with four Taylor coefficients"""

        def thunk():
            vf0 = probdiffeq.ode(lambda u, /, *, t: u * (1.0 - u))
            u0 = jnp.asarray([0.3])
            tc, _ = probdiffeq.jetexpand_ode_padded_scan(num=3)(vf0, (u0,), t=0.0)
            vf = vf0 if lift_by is None else vf0.jet_lift(lift_by=lift_by)
            c = ssm.constraint_ode_ts0(vf)
            prior = ssm.prior_wiener_integrated([jnp.asarray(x) for x in tc])
            solver = probdiffeq.solver(strategy=probdiffeq.strategy_filter(), constraint=c)
            error = probdiffeq.error_residual_std(constraint=c)
            solve = ivpsolve.solve_adaptive_terminal_values(solver=solver, error=error)
            sol = solve(prior, t0=0.0, t1=0.2, dt0=0.1, atol=1e-2, rtol=1e-2)
            return [sol.u.mean, sol.u.std]

        return thunk

    if corruption is None:
        return [("valid", make(None)), ("valid, scalar state", make_scalar(None))]
    return [("jet-lifted ODE (lift_by=1): two constraint rows per state entry", make(1)), ("jet-lifted ODE (lift_by=2)", make(2)),
            ("scalar state, jet-lifted ODE (lift_by=1)", make_scalar(1)), ("scalar state, jet-lifted ODE (lift_by=2)", make_scalar(2))]


def _ensemble_thunks(entry, field, corruption, fact):
    w = world()

    def make(n):
        def thunk():
            ssm = probdiffeq.state_space_model_matfree(key=jax.random.PRNGKey(1), num_ensembles=n)
            prior = ssm.prior_wiener_integrated(list(w.tcoeffs))
            c = ssm.constraint_ode_ts1(w.ode)
            solver = probdiffeq.solver_dynamic(strategy=probdiffeq.strategy_filter(), constraint=c)
            state = solver.init(t=0.0, u=prior, damp=0.0)
            state = jax.jit(lambda s: solver.step(state=s, dt=DT, damp=0.0))(state)
            return [state.u.mean, state.u.std]

        return thunk

    if corruption is None:
        return [("valid", make(7))]
    return [(f"{n} ensemble members, {NUM + 1} Taylor coefficients", make(n)) for n in (NUM, 1)]


def _pairing_thunks(entry, field, corruption, fact):
    w = world()
    ssm = SSM[fact]()
    ts0 = ssm.constraint_ode_ts0(w.ode)
    good = {"solve_adaptive_save_at": probdiffeq.strategy_smoother_fixedpoint, "solve_fixed_grid": probdiffeq.strategy_smoother_fixedinterval}[entry]
    bad = {"solve_adaptive_save_at": probdiffeq.strategy_smoother_fixedinterval, "solve_fixed_grid": probdiffeq.strategy_smoother_fixedpoint}[entry]

    def make(strategy_fun):
        def thunk():
            # the warning is due when the routine is built for the solver; no solve is needed to observe it
            solver = probdiffeq.solver(strategy=strategy_fun(), constraint=ts0)
            if entry == "solve_adaptive_save_at":
                error = probdiffeq.error_residual_std(constraint=ts0)
                solve = ivpsolve.solve_adaptive_save_at(solver=solver, error=error)
            else:
                solve = ivpsolve.solve_fixed_grid(solver=solver)
            assert callable(solve)
            return [jnp.zeros(())]

        return thunk

    return [("valid", make(good))] if corruption is None else [(f"{bad.__name__} in {entry}", make(bad))]


HANDLERS = {
    "prior_wiener_integrated": _prior_thunks,
    "prior_wiener_integrated_diffuse": _prior_thunks,
    "prior_exponential": _prior_thunks,
    "prior_exponential_diffuse": _prior_thunks,
    "wiener.transition": _transition_thunks,
    "exponential.transition": _transition_thunks,
    "loss_lml_terminal_values": _loss_terminal_thunks,
    "loss_lml_timeseries": _loss_timeseries_thunks,
    "constraint_ode_ts0": _constraint_thunks,
    "constraint_ode_ts1": _constraint_thunks,
    "constraint_residual": _constraint_thunks,
    "jet_lift": _jet_lift_thunks,
    "error_residual_std": _error_estimate_thunks,
    "state_space_model_matfree": _ensemble_thunks,
    "solve_adaptive_save_at": _pairing_thunks,
    "solve_fixed_grid": _pairing_thunks,
}


def thunks(entry, field, corruption, fact):
    return HANDLERS[entry](entry, field, corruption, fact)


# ----------------------------------------------------------------------------------------------------------------
# observation
# ----------------------------------------------------------------------------------------------------------------
def _numeric_leaves(out):
    res = []
    for leaf in jax.tree.leaves(out):
        try:
            a = np.asarray(leaf)
        except Exception:
            continue
        if a.dtype.kind in "fiub":
            res.append(a)
    return res


def observe(thunk):
    """run one call; {'outcome': raise | returned, 'exception', 'warnings': [...], 'finite': bool, 'shapes': [...]}"""
    with warnings.catch_warnings(record=True) as caught:
        warnings.simplefilter("always")
        try:
            out = thunk()
            out = jax.block_until_ready(out)
        except Exception as e:  # noqa: BLE001  (any Python exception counts as loud)
            return {"outcome": "raise", "exception": type(e).__name__, "message": str(e)[:300], "warnings": [str(x.message)[:300] for x in caught]}
    leaves = _numeric_leaves(out)
    finite = bool(leaves) and all(bool(np.all(np.isfinite(a))) for a in leaves if a.dtype.kind == "f")
    return {
        "outcome": "returned",
        "warnings": [str(x.message) for x in caught if issubclass(x.category, UserWarning)],
        "finite": finite,
        "shapes": [list(a.shape) for a in leaves][:8],
    }


def judge(expect, obs, remedy=()):
    """(ok?, what was observed in words)"""
    if expect == "raise":
        if obs["outcome"] == "raise":
            return True, f"raises {obs['exception']}"
        return False, f"returns {'finite numbers' if obs['finite'] else 'non-finite numbers'} without an exception (output shapes {obs['shapes']})"
    if expect == "accept":
        if obs["outcome"] == "raise":
            return False, f"raises {obs['exception']}: {obs['message']}"
        if not obs["finite"]:
            return False, "returns non-finite numbers"
        return True, "returns finite numbers"
    if expect == "warn":
        msgs = obs["warnings"]
        if not msgs:
            if obs["outcome"] == "raise":
                return False, f"raises {obs['exception']} instead of warning: {obs['message']}"
            return False, "no warning is emitted"
        for m in msgs:
            low = m.lower().replace("fixed point", "fixed-point").replace("fixed interval", "fixed-interval")
            if any(r in low for r in remedy):
                return True, f"warns: {m[:120]}"
        return False, f"warns without naming a remedy ({sorted(remedy)}): {msgs[0][:160]}"
    raise ValueError(expect)
