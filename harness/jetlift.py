"""C11 binding: JetPoly.tla instances of kind "lift" / "lin" -> jet_lift, jet_lift_max, residual_from_ode,
residual_from_stack and the constraint constructors of the three state-space-model factorisations."""

from __future__ import annotations

import traceback
from fractions import Fraction as F

import jax
import jax.numpy as jnp
import numpy as np
from jax.flatten_util import ravel_pytree
from probdiffeq._probdiffeq import taylor_points

from harness import jets
from harness.exact import close, maxerr, to_float
from harness.jets import pdq

TOL = 1e-9


# ------------------------------------------------------------------ programs
def lift_program(rng, *, dmax=2, lmax=4, inadmissible=False):
    d = rng.randint(1, dmax)
    fromode = rng.random() < 0.5
    J = rng.choice([1, 2]) if fromode else rng.choice([1, 2, 3])
    dout = d if fromode else rng.choice([d, d, 1])
    tdep = rng.random() < 0.65
    polys = jets.gen_poly(rng, d, J, tdep=tdep, dout=dout, max_terms=3, p_empty=0.05)
    if inadmissible:
        n = J + rng.randint(0, 2)
        L = rng.choice([n - J + 1, n - J + 2, -1])
    else:
        L = rng.randint(0, lmax)
        n = J + L + rng.choice([0, 1, 1, 2])
    return dict(
        kind="lift",
        d=d,
        J=J,
        dout=dout,
        fromode=fromode,
        polys=polys,
        tdep=jets.is_tdep(polys),
        L=L,
        c=[[rng.randint(-2, 2) for _ in range(d)] for _ in range(n)],
        t=rng.choice([-1, 0, 1, 2]),
        tree=rng.random() < 0.35,
        tree_variant=rng.randint(0, 1),
    )


def lift_tla(p):
    d, J, L, n = p["d"], p["J"], p["L"], len(p["c"])
    N = max(n, J + 1 + max(L, 0)) + 1
    return {
        "kind": "lift",
        "d": d,
        "J": J,
        "N": N,
        "g": jets.polys_tla(p["polys"], J, d, N),
        "fromode": bool(p["fromode"]),
        "c": [[F(x) for x in row] for row in p["c"]],
        "t": F(p["t"]),
        "L": L,
    }


def stack_program(rng, *, dmax=2):
    """a differential part (d outputs) and an algebraic-like part (1 output) of different orders on shared coefficients"""
    d = rng.randint(1, dmax)
    J1, J2 = rng.choice([(2, 1), (3, 1), (3, 2), (1, 2), (2, 2)])
    L1, L2 = rng.randint(0, 2), rng.randint(0, 3)
    n = max(J1 + L1, J2 + L2)
    t = rng.choice([-1, 0, 1, 2])
    c = [[rng.randint(-2, 2) for _ in range(d)] for _ in range(n)]
    parts = []
    for J, L, dout in [(J1, L1, d), (J2, L2, 1)]:
        polys = jets.gen_poly(rng, d, J, tdep=rng.random() < 0.6, dout=dout, max_terms=3, p_empty=0.0)
        parts.append(dict(kind="lift", d=d, J=J, dout=dout, fromode=False, polys=polys, tdep=jets.is_tdep(polys), L=L, c=c[: J + L], t=t, tree=False, tree_variant=0))
    return dict(kind="stack", d=d, parts=parts, c=c, t=t)


def lin_program(rng, *, dmax=2, lmax=2, mc_exact=False):
    """mc_exact: an unlifted element-wise residual of the state alone in d >= 2 dimensions (the stochastic Jacobian
    handlers are exact on it for every probe, see replay_lin)"""
    d = rng.randint(2, 3) if mc_exact else rng.randint(1, dmax)
    fromode = (not mc_exact) and rng.random() < 0.55
    J = 1 if mc_exact else (rng.choice([1, 2]) if fromode else rng.choice([1, 2, 3]))
    tdep = rng.random() < 0.6
    polys = jets.gen_poly(rng, d, J, tdep=tdep, dout=d, max_terms=3, p_empty=0.0 if mc_exact else 0.05, elementwise=mc_exact)
    L = 0 if mc_exact else rng.randint(0, lmax)
    jeff = J + 1 if fromode else J
    n = jeff + L + (0 if mc_exact else rng.choice([0, 0, 1]))
    return dict(
        kind="lin",
        d=d,
        J=J,
        fromode=fromode,
        polys=polys,
        tdep=jets.is_tdep(polys),
        L=L,
        xi=[[rng.randint(-2, 2) for _ in range(d)] for _ in range(n)],
        t=rng.choice([-1, 0, 1, 2]),
        damp=rng.choice([F(0), F(1, 2), F(2)]),
    )


def lin_tla(p):
    d, J, L, n = p["d"], p["J"], p["L"], len(p["xi"])
    N = max(n, J + 1 + L) + 1
    return {
        "kind": "lin",
        "d": d,
        "J": J,
        "N": N,
        "g": jets.polys_tla(p["polys"], J, d, N),
        "fromode": bool(p["fromode"]),
        "xi": [[F(x) for x in row] for row in p["xi"]],
        "t": F(p["t"]),
        "L": L,
        "damp": F(p["damp"]),
    }


def describe(p):
    if p["kind"] == "stack":
        return "stack(" + "; ".join(describe(q) for q in p["parts"]) + f") c={p['c']} t={p['t']}"
    head = f"u{chr(39) * p['J']} = " if p["fromode"] else "0 = "
    pt = p.get("c", p.get("xi"))
    return f"{head}{jets.pretty(p['polys'], p['J'], p['d'])} lift_by={p['L']} coefficients={pt} t={p['t']}"


# ------------------------------------------------------------------ replay helpers
class _Rec:
    def __init__(self, cls):
        self.calls = 0
        self.fails = []
        self.cls = cls

    def fail(self, site, quantity, what, with_class=True):
        key = f"impl:{site}:{quantity}" + (f":{self.cls}" if with_class else "")
        self.fails.append((key, what))

    def values(self, site, got, want, quantity="values"):
        """got: sequence of arrays / pytrees, want: list of vectors"""
        self.calls += 1
        try:
            g = [np.asarray(ravel_pytree(x)[0], dtype=np.float64) for x in got]
        except Exception as e:
            self.fail(site, quantity, f"output not array-like: {e}")
            return
        if len(g) != len(want):
            self.fail(site, quantity, f"{len(g)} outputs, expected {len(want)}")
            return
        for l, (a, b) in enumerate(zip(g, want)):
            if not close(a, b, TOL):
                self.fail(site, quantity, f"output {l} (d^{l}/dt^{l}) = {a.tolist()} but exact {np.asarray(b).tolist()} (relerr {maxerr(a, b):.2e})")
                return

    def array(self, site, quantity, got, want, tol=TOL):
        self.calls += 1
        got = np.asarray(got, dtype=np.float64)
        want = np.asarray(want, dtype=np.float64)
        if not close(got, want, tol):
            self.fail(site, quantity, f"shape {got.shape} vs {want.shape}; got {got.tolist()} but exact {want.tolist()} (relerr {maxerr(got, want):.2e})", with_class=quantity != "damping")

    def must_raise(self, site, quantity, thunk, why):
        self.calls += 1
        try:
            thunk()
        except Exception:
            return
        self.fail(site, quantity, f"accepted although {why}", with_class=False)

    def equal(self, site, quantity, got, want):
        self.calls += 1
        if got != want:
            self.fail(site, quantity, f"{got!r} but specification says {want!r}", with_class=False)


def _coords(p, unravel):
    arrs = [jnp.asarray([float(x) for x in row]) for row in p.get("c", p.get("xi"))]
    return arrs if unravel is None else [unravel(a) for a in arrs]


def _fl(v):
    return [np.array([float(x) for x in row]) for row in v]


def replay_lift(p, exp):
    rec = _Rec("time-dependent" if p["tdep"] else "autonomous")
    d, J, L, t = p["d"], p["J"], p["L"], float(p["t"])
    unravel = jets.tree_unravel(d, p["tree_variant"]) if p["tree"] else None
    # residual outputs keep shape (dout,); an ODE right-hand side has the structure of the state
    coords = _coords(p, unravel)
    n = len(coords)
    if p["fromode"]:
        ode = jets.make_ode(p["polys"], J, d, unravel=unravel)
        lift = lambda L_: ode.jet_lift(lift_by=L_)  # noqa: E731
        lift_max = lambda L_: ode.jet_lift_max(num_tcoeffs=J + L_ + 1)  # noqa: E731
        call = lambda obj, cs: obj.vector_field(jet_coords=cs, t=t)  # noqa: E731
        site = "JetOde"
    else:
        res = jets.make_residual(p["polys"], J, d, unravel=unravel)
        lift = lambda L_: res.jet_lift(lift_by=L_)  # noqa: E731
        lift_max = lambda L_: res.jet_lift_max(num_tcoeffs=J + L_)  # noqa: E731
        call = lambda obj, cs: obj.residual_function(jet_coords=cs, t=t)  # noqa: E731
        site = "JetResidual"

    if not exp["admissible"]:
        why = f"lift_by={L} is outside 0..{n - J} for {n} coefficients and a function of {J} jet arguments"
        rec.must_raise(f"{site}.jet_lift", "inadmissible-accepted", lambda: call(lift(L), coords), why)
        rec.must_raise(f"{site}.jet_lift_max", "inadmissible-accepted", lambda: call(lift_max(L), coords), why)
        if p["fromode"]:
            rec.must_raise("residual_from_ode.jet_lift", "inadmissible-accepted", lambda: pdq.residual_from_ode(ode).jet_lift(lift_by=L).residual_function(jet_coords=coords, t=t), why)
        return rec

    want = _fl(exp["vals"])
    num_args = int(exp["num_args"])
    # evaluated on exactly the coefficients the lifted function declares, and on the whole list (prefix rule)
    for tag, cs in [("exact-length", coords[:num_args]), ("longer-list", coords)]:
        for name, mk in [("jet_lift", lift), ("jet_lift_max", lift_max)]:
            try:
                obj = mk(L)
                out = call(obj, cs)
            except Exception as e:
                rec.calls += 1
                rec.fail(f"{site}.{name}", "values", f"raised {type(e).__name__}: {str(e)[:160]} ({tag})")
                continue
            rec.values(f"{site}.{name}", out, want)
            rec.equal(f"{site}.{name}", "num_tcoeffs_in_args", obj.num_tcoeffs_in_args, num_args)
            if p["fromode"]:
                rec.equal(f"{site}.{name}", "tcoeff_indices_output", list(obj.tcoeff_indices_output), [int(x) for x in exp["out_idx"]])
                rec.equal(f"{site}.{name}", "tcoeff_indices_input", list(obj.tcoeff_indices_input), list(range(num_args)))
                rec.equal(f"{site}.{name}", "is_jet_lifted", bool(obj.is_jet_lifted), L >= 1)
                if unravel is not None:  # the lifted right-hand side keeps the pytree structure of the state
                    rec.equal(f"{site}.{name}", "output-structure", all(jets.jax.tree_util.tree_structure(o) == jets.jax.tree_util.tree_structure(coords[0]) for o in out), True)
    # non-integer lift orders are rejected
    for bad in (1.5, "1", None):
        rec.must_raise(f"{site}.jet_lift", "non-integer-accepted", lambda bad=bad: call(lift(bad), coords), f"lift_by={bad!r} is not an integer")

    if p["fromode"]:
        r0 = pdq.residual_from_ode(ode)
        rec.equal("residual_from_ode", "num_tcoeffs_in_args", r0.num_tcoeffs_in_args, J + 1)
        if exp["admissible_res"]:
            rwant = _fl(exp["rvals"])
            if n >= J + 1:
                rec.values("residual_from_ode", r0.residual_function(jet_coords=coords[: J + 1], t=t), rwant[:1])
            for name, thunk in [
                ("residual_from_ode.jet_lift", lambda: r0.jet_lift(lift_by=L)),
                ("residual_from_ode.jet_lift_max", lambda: r0.jet_lift_max(num_tcoeffs=J + 1 + L)),
                ("residual_from_ode(lifted-ode)", lambda: pdq.residual_from_ode(ode.jet_lift(lift_by=L))),
            ]:
                try:
                    obj = thunk()
                    out = obj.residual_function(jet_coords=coords[: J + 1 + L], t=t)
                except Exception as e:
                    rec.calls += 1
                    rec.fail(name, "values", f"raised {type(e).__name__}: {str(e)[:160]}")
                    continue
                rec.values(name, out, rwant)
                rec.equal(name, "num_tcoeffs_in_args", obj.num_tcoeffs_in_args, J + 1 + L)
        else:
            why = f"u^({J}) - f lifted by {L} needs {J + 1 + L} coefficients, {n} supplied"
            rec.must_raise("residual_from_ode.jet_lift", "inadmissible-accepted", lambda: r0.jet_lift(lift_by=L).residual_function(jet_coords=coords, t=t), why)
    return rec


def replay_stack(p, exps):
    rec = _Rec("time-dependent" if any(q["tdep"] for q in p["parts"]) else "autonomous")
    d, t = p["d"], float(p["t"])
    coords = [jnp.asarray([float(x) for x in row]) for row in p["c"]]
    rs = [jets.make_residual(q["polys"], q["J"], d) for q in p["parts"]]
    wants = [_fl(e["vals"]) for e in exps]
    # plain stack: every part sees its own prefix of the coefficients
    st = pdq.residual_from_stack(*rs)
    nargs = max(q["J"] for q in p["parts"])
    rec.equal("residual_from_stack", "num_tcoeffs_in_args", st.num_tcoeffs_in_args, nargs)
    try:
        out = st.residual_function(jet_coords=coords[:nargs], t=t)
        if len(out) != len(rs):
            rec.fail("residual_from_stack", "values", f"{len(out)} parts, expected {len(rs)}")
        for k, o in enumerate(out):
            rec.values("residual_from_stack", o, wants[k][:1])
    except Exception as e:
        rec.fail("residual_from_stack", "values", f"raised {type(e).__name__}: {str(e)[:160]}")
    # stack of lifted parts
    ls = [r.jet_lift(lift_by=q["L"]) for r, q in zip(rs, p["parts"])]
    st = pdq.residual_from_stack(*ls)
    nargs = max(q["J"] + q["L"] for q in p["parts"])
    rec.equal("residual_from_stack(lifted)", "num_tcoeffs_in_args", st.num_tcoeffs_in_args, nargs)
    try:
        out = st.residual_function(jet_coords=coords[:nargs], t=t)
        for k, o in enumerate(out):
            rec.values("residual_from_stack(lifted)", o, wants[k])
    except Exception as e:
        rec.fail("residual_from_stack(lifted)", "values", f"raised {type(e).__name__}: {str(e)[:160]}")
    return rec


SSMS = {"dense": pdq.state_space_model_dense, "isotropic": pdq.state_space_model_isotropic, "blockdiag": pdq.state_space_model_blockdiag}


def _layout(kind, e, which):
    """the specification's quantities in the model's own layout"""
    E = {k: to_float(v) for k, v in e.items()}
    if which == "A":
        return {"dense": E["Jfull"], "isotropic": E["Jtr"], "blockdiag": E["Jdiag"]}[kind]
    if which == "b":
        return {"dense": E["b_dense"], "isotropic": E["b_iso"], "blockdiag": E["b_bd"]}[kind]
    if which == "chol":
        d = len(E["Jdiag"])
        return {"dense": E["chol_dense"], "isotropic": E["chol_block"], "blockdiag": np.stack([E["chol_block"]] * d)}[kind]
    if which == "val":
        v = np.asarray(E["val"])
        return {"dense": v.reshape((-1,)), "isotropic": v, "blockdiag": v.T}[kind]
    raise KeyError(which)


def _elementwise_single_block(e, d):
    """every output dimension depends on its own state dimension only (all d x d blocks of the exact Jacobian are
    diagonal) and on a single Taylor coefficient (one non-zero block column)"""
    Jf = np.asarray(to_float(e["Jfull"]))
    r, c = Jf.shape
    if any(Jf[i, j] != 0 for i in range(r) for j in range(c) if i % d != j % d):
        return False
    blocks = {j // d for i in range(r) for j in range(c) if Jf[i, j] != 0}
    return len(blocks) <= 1


def replay_lin(p, exp):
    rec = _Rec("time-dependent" if p["tdep"] else "autonomous")
    d, J, L, t = p["d"], p["J"], p["L"], float(p["t"])
    damp = float(p["damp"])
    tcoeffs = _coords(p, None)
    for kind, ctor in SSMS.items():
        ssm = ctor()
        rv = ssm.prior_wiener_integrated(tcoeffs).init

        def lin(constraint):
            return constraint.linearize(rv, constraint.init_linearization(), damp=damp, t=t)[0]

        def compare(site, cond, e):
            rec.array(f"{kind}:{site}", "A", cond.A, _layout(kind, e, "A"))
            rec.array(f"{kind}:{site}", "offset", cond.noise.mean_flat, _layout(kind, e, "b"))
            rec.array(f"{kind}:{site}", "damping", cond.noise.cholesky_flat, _layout(kind, e, "chol"), tol=1e-15)
            # the affine model reproduces the constraint value at the linearisation point (unit en/decoders)
            rec.array(f"{kind}:{site}", "value-at-mean", cond.apply_flat(rv.mean_flat).mean_flat, _layout(kind, e, "val"))

        if kind == "dense":
            _shifted_point(rec, p, ssm, rv, damp, t)
        if p["fromode"]:
            ode = jets.make_ode(p["polys"], J, d)
            odeL = ode.jet_lift(lift_by=L) if L > 0 else ode
            conds = {}
            for site, thunk in [
                ("constraint_ode_ts1", lambda: ssm.constraint_ode_ts1(odeL)),
                ("constraint_residual(residual_from_ode)", lambda: ssm.constraint_residual(pdq.residual_from_ode(odeL))),
                ("constraint_residual(residual_from_ode.jet_lift)", lambda: ssm.constraint_residual(pdq.residual_from_ode(ode).jet_lift(lift_by=L))),
            ]:
                try:
                    conds[site] = lin(thunk())
                except Exception as e:
                    rec.calls += 1
                    rec.fail(f"{kind}:{site}", "A", f"raised {type(e).__name__}: {str(e)[:160]}")
                    continue
                compare(site, conds[site], exp["res"])
            if "constraint_ode_ts1" in conds and "constraint_residual(residual_from_ode)" in conds:
                a, b = conds["constraint_ode_ts1"], conds["constraint_residual(residual_from_ode)"]
                same = all(np.array_equal(np.asarray(x), np.asarray(y)) for x, y in [(a.A, b.A), (a.noise.mean_flat, b.noise.mean_flat), (a.noise.cholesky_flat, b.noise.cholesky_flat)])
                rec.equal(f"{kind}:constraint_ode_ts1", "identical-to-residual-constraint", same, True)
            # a state that lacks the highest output coefficient u^(J+L) cannot support this lift order: every
            # constraint constructor must reject it (at construction or at the first linearisation), never return numbers
            need = J + L + 1
            if len(tcoeffs) >= need and need >= 2:
                rv_short = ssm.prior_wiener_integrated(tcoeffs[: need - 1]).init
                why = f"the ODE lifted by {L} has the output coefficient u^({J + L}) but the state carries only {need - 1} coefficients"
                for site, mk in [("constraint_ode_ts0", lambda: ssm.constraint_ode_ts0(odeL)), ("constraint_ode_ts1", lambda: ssm.constraint_ode_ts1(odeL))]:
                    def short(mk=mk):
                        c = mk()
                        cond = c.linearize(rv_short, c.init_linearization(), damp=damp, t=t)[0]
                        return [np.asarray(x) for x in (cond.A, cond.noise.mean_flat)]
                    rec.must_raise(f"{kind}:{site}", "state-too-short-accepted", short, why)
            # zeroth order
            try:
                c0 = lin(ssm.constraint_ode_ts0(odeL))
            except Exception as e:
                rec.calls += 1
                rec.fail(f"{kind}:constraint_ode_ts0", "A", f"raised {type(e).__name__}: {str(e)[:160]}")
                continue
            A0 = to_float(exp["ts0_A"])
            b0 = to_float(exp["ts0_b"])
            A_want = {"dense": to_float(exp["ts0_A_dense"]), "isotropic": A0, "blockdiag": np.stack([A0] * d)}[kind]
            b_want = {"dense": b0.reshape((-1,)), "isotropic": b0, "blockdiag": b0.T}[kind]
            rec.array(f"{kind}:constraint_ode_ts0", "A", c0.A, A_want)
            rec.array(f"{kind}:constraint_ode_ts0", "offset", c0.noise.mean_flat, b_want)
            rec.array(f"{kind}:constraint_ode_ts0", "damping", c0.noise.cholesky_flat, _layout(kind, exp["res"], "chol"), tol=1e-15)
        else:
            res = jets.make_residual(p["polys"], J, d)
            if kind != "dense" and d > 1 and L == 0 and len(tcoeffs) == 1 and _elementwise_single_block(exp["res"], d):
                # element-wise constraints of a state with ONE Taylor coefficient and one output row: the stochastic trace /
                # diagonal estimators are exact for ANY Rademacher probe (v_a J_aa v_a = J_aa); with several coefficient
                # blocks in the state (forward mode) or several output rows (reverse mode) the probes of different blocks
                # mix and the estimate is exact in expectation only (C17), so those programs are not used here
                for hname, hctor in [("monte_carlo_fwd", lambda: pdq.jacobian_monte_carlo_fwd(seed=3, num_probes=2)), ("monte_carlo_rev", lambda: pdq.jacobian_monte_carlo_rev(seed=3, num_probes=2))]:
                    resh = jets.make_residual(p["polys"], J, d, JM=hctor)
                    site = f"constraint_residual(jet_lift)[{hname}]"
                    try:
                        cond = lin(ssm.constraint_residual(resh.jet_lift(lift_by=L)))
                    except Exception as e:
                        rec.calls += 1
                        rec.fail(f"{kind}:{site}", "A", f"raised {type(e).__name__}: {str(e)[:160]}")
                        continue
                    rec.array(f"{kind}:{site}", "A", cond.A, _layout(kind, exp["res"], "A"), tol=1e-12)
                    rec.array(f"{kind}:{site}", "offset", cond.noise.mean_flat, _layout(kind, exp["res"], "b"), tol=1e-12)
            sites = [("constraint_residual(jet_lift)", lambda: ssm.constraint_residual(res.jet_lift(lift_by=L))), ("constraint_residual(jet_lift_max)", lambda: ssm.constraint_residual(res.jet_lift_max(num_tcoeffs=J + L)))]
            if L == 0:
                sites.append(("constraint_residual", lambda: ssm.constraint_residual(res)))
            for site, thunk in sites:
                try:
                    cond = lin(thunk())
                except Exception as e:
                    rec.calls += 1
                    rec.fail(f"{kind}:{site}", "A", f"raised {type(e).__name__}: {str(e)[:160]}")
                    continue
                compare(site, cond, exp["res"])
    return rec


class _ShiftedPoint(taylor_points.TaylorPoint):
    """linearisation point = mean + fixed offsets; remembers the constraint and the point it was asked about"""

    def __init__(self):
        self.seen = []

    def __call__(self, constraint_flat, rv, **kw):
        m = rv.mean_flat
        xi = m + jnp.asarray([(0.5, -0.25, 0.75, -1.0)[i % 4] for i in range(m.shape[0])])
        self.seen.append((constraint_flat, xi, kw))
        return xi


def _shifted_point(rec, p, ssm, rv, damp, t):
    """a user-supplied Taylor point (dense model): every constructor that takes one must linearise THERE - the affine
    model reproduces the constraint value and its Jacobian at that point, and the TS1 ODE constraint stays identical to the
    residual constraint u^(k) - f = 0."""
    d, J, L = p["d"], p["J"], p["L"]
    if p["fromode"]:
        ode = jets.make_ode(p["polys"], J, d)
        odeL = ode.jet_lift(lift_by=L) if L > 0 else ode
        sites = [("constraint_ode_ts1(taylor_point)", lambda tp: ssm.constraint_ode_ts1(odeL, taylor_point=tp)),
                 ("constraint_residual(residual_from_ode, taylor_point)", lambda tp: ssm.constraint_residual(pdq.residual_from_ode(odeL), taylor_point=tp))]
    else:
        res = jets.make_residual(p["polys"], J, d)
        sites = [("constraint_residual(jet_lift, taylor_point)", lambda tp: ssm.constraint_residual(res.jet_lift(lift_by=L), taylor_point=tp))]
    got = {}
    for site, mk in sites:
        tp = _ShiftedPoint()
        try:
            c = mk(tp)
            cond = c.linearize(rv, c.init_linearization(), damp=damp, t=t)[0]
        except Exception as e:
            rec.calls += 1
            rec.fail(f"dense:{site}", "A", f"raised {type(e).__name__}: {str(e)[:160]}")
            continue
        rec.equal(f"dense:{site}", "taylor-point-consulted", len(tp.seen) >= 1, True)
        if not tp.seen:
            continue
        g, xi, kw = tp.seen[-1]
        rec.array(f"dense:{site}", "value-at-taylor-point", cond.apply_flat(xi).mean_flat, np.asarray(g(xi, **kw)))
        rec.array(f"dense:{site}", "jacobian-at-taylor-point", cond.A, np.asarray(jax.jacfwd(lambda s_: g(s_, **kw))(xi)))
        got[site] = cond
    if len(got) == 2:
        a, b = got.values()
        same = all(np.array_equal(np.asarray(x), np.asarray(y)) for x, y in [(a.A, b.A), (a.noise.mean_flat, b.noise.mean_flat), (a.noise.cholesky_flat, b.noise.cholesky_flat)])
        rec.equal("dense:constraint_ode_ts1(taylor_point)", "identical-to-residual-constraint", same, True)


def replay_job(job):
    kind = job[0]
    try:
        if kind == "lift":
            rec = replay_lift(job[1], job[2])
        elif kind == "stack":
            rec = replay_stack(job[1], job[2])
        else:
            rec = replay_lin(job[1], job[2])
        return dict(calls=rec.calls, fails=rec.fails)
    except Exception:
        return dict(calls=0, fails=[], crash=traceback.format_exc())
