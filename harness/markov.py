"""C12 / C13 binding: MarkovSeqExact.tla instances -> real MarkovSequence objects of the three factorisations."""

from __future__ import annotations

import random
from fractions import Fraction as F

import jax
import jax.numpy as jnp
import numpy as np

jax.config.update("jax_enable_x64", True)

from probdiffeq import probdiffeq as pdq  # noqa: E402
from probdiffeq._probdiffeq import estimators_and_losses as eal  # noqa: E402
from probdiffeq._probdiffeq import ssm_impl_blockdiag as bd  # noqa: E402
from probdiffeq._probdiffeq import ssm_impl_dense as de  # noqa: E402
from probdiffeq._probdiffeq import ssm_impl_isotropic as iso  # noqa: E402
from probdiffeq.backend import random as pd_random  # noqa: E402

from harness.exact import ratify  # noqa: E402

SC = [F(1, 2), F(1), F(2)]


def _mat(rng, r, c, lo=-1, hi=1):
    return [[rng.randint(lo, hi) for _ in range(c)] for _ in range(r)]


def _tril(rng, n, unit=True):
    return [[(rng.randint(-1, 1) if j < i else (rng.randint(1, 2) if j == i else 0)) for j in range(n)] for i in range(n)]


def make_instance(rng, kind, *, K=None, n=None, d=None, zero_init=False, force_full=False):
    """reverse Markov sequence with K conditionals (K+1 time points)"""
    K = rng.randint(0, 2) if K is None else K
    # (a quarter of the instances carry three Taylor coefficients, so that the observed coefficient index 2 occurs)
    n = (3 if rng.random() < 0.25 else rng.randint(1, 2)) if n is None else n
    if n == 3:
        K = min(K, 1)
    d = 1 if kind == "dense" and rng.random() < 0.3 and not force_full else (rng.randint(1, 2) if d is None else d)
    if force_full:
        d = 2
    while (K + 1) * d > 4:  # observed joint must stay <= 4 x 4 for the exact inverse
        if K > 0:
            K -= 1
        else:
            d -= 1

    def block():
        return dict(m=[rng.randint(-2, 2) for _ in range(n)], LP=_tril(rng, n) if not zero_init else [[0] * n for _ in range(n)],
                    conds=[dict(A=_mat(rng, n, n), b=[rng.randint(-1, 1) for _ in range(n)], LQ=_tril(rng, n),
                                tl=[rng.choice(SC) for _ in range(n)], to=[rng.choice(SC) for _ in range(n)]) for _ in range(K)])

    blocks = [block() for _ in range(d)]
    if kind == "iso":
        for b in blocks[1:]:
            b["LP"] = blocks[0]["LP"]
            for c, c0 in zip(b["conds"], blocks[0]["conds"]):
                for f in ("A", "LQ", "tl", "to"):
                    c[f] = c0[f]
    full = None
    if kind == "dense" and d > 1 and (force_full or rng.random() < 0.6):
        # genuinely dense pieces: cross-dimension coupling in the initial factor, the transitions and the noise factors
        # (the embedded per-dimension blocks alone never correlate the dimensions of the dense model)
        N = n * d

        def couple(M, lower):
            M = [list(r) for r in M]
            for i in range(N):
                for j in range(N):
                    if (i % d) != (j % d) and (j < i or not lower) and rng.random() < 0.5:
                        M[i][j] = F(rng.randint(-1, 1))
            return M

        full = dict(LP=couple(_emb_mat(blocks, lambda b: b["LP"], n, n, d), True) if not zero_init else _emb_mat(blocks, lambda b: b["LP"], n, n, d),
                    conds=[dict(A=couple(_emb_mat(blocks, lambda b, s=s: b["conds"][s]["A"], n, n, d), False),
                                LQ=couple(_emb_mat(blocks, lambda b, s=s: b["conds"][s]["LQ"], n, n, d), True)) for s in range(K)])
    idx = rng.randint(0, n - 1) if n < 3 or rng.random() < 0.4 else 2
    noise_sd = []
    for _ in range(K + 1):
        v = [rng.choice([F(1, 2), F(1), F(2)]) for _ in range(d)]
        if kind == "iso":
            v = [v[0]] * d
        noise_sd.append(v)
    data = [[rng.randint(-2, 2) for _ in range(d)] for _ in range(K + 1)]
    return dict(kind=kind, K=K, n=n, d=d, blocks=blocks, full=full, idx=idx, noise_sd=noise_sd, data=data, average=rng.random() < 0.5)


def _LP(inst):
    if inst.get("full"):
        return inst["full"]["LP"]
    return _emb_mat(inst["blocks"], lambda b: b["LP"], inst["n"], inst["n"], inst["d"])


def _A(inst, s):
    if inst.get("full"):
        return inst["full"]["conds"][s]["A"]
    return _emb_mat(inst["blocks"], lambda b: b["conds"][s]["A"], inst["n"], inst["n"], inst["d"])


def _LQ(inst, s):
    if inst.get("full"):
        return inst["full"]["conds"][s]["LQ"]
    return _emb_mat(inst["blocks"], lambda b: b["conds"][s]["LQ"], inst["n"], inst["n"], inst["d"])


def _emb_mat(blocks, get, n_r, n_c, d):
    M = [[F(0)] * (n_c * d) for _ in range(n_r * d)]
    for a in range(d):
        A = get(blocks[a])
        for i in range(n_r):
            for j in range(n_c):
                M[i * d + a][j * d + a] = F(A[i][j])
    return M


def _emb_vec(blocks, get, n_r, d):
    return [F(get(blocks[a])[i]) for i in range(n_r) for a in range(d)]


def tla_instance(inst):
    """chain order = anchor (terminal time) outward; time j <-> chain K - j"""
    K, n, d, B = inst["K"], inst["n"], inst["d"], inst["blocks"]
    conds = []
    for k in range(K):  # chain step k+1 uses the conditional from t_{K-k} to t_{K-k-1} = stacked index K-k-1
        s = K - k - 1
        conds.append(dict(
            A=_A(inst, s), b=_emb_vec(B, lambda b: b["conds"][s]["b"], n, d),
            LQ=_LQ(inst, s), tl=_emb_vec(B, lambda b: b["conds"][s]["tl"], n, d),
            to=_emb_vec(B, lambda b: b["conds"][s]["to"], n, d), useQd=False, Qd=[[F(0)]]))
    H = [[F(1) if q == inst["idx"] * d + a else F(0) for q in range(n * d)] for a in range(d)]
    noise = [[F(s) * F(s) for s in inst["noise_sd"][K - k]] for k in range(K + 1)]
    data = [[F(v) for v in inst["data"][K - k]] for k in range(K + 1)]
    return ratify(dict(m=_emb_vec(B, lambda b: b["m"], n, d), LP=_LP(inst), conds=conds, H=H, noise=noise, data=data))


def _f(x):
    return jnp.asarray(np.array(x, dtype=object).astype(np.float64))


def build(inst):
    """-> real MarkovSequence (reverse=True) of the instance's factorisation"""
    kind, K, n, d, B = inst["kind"], inst["K"], inst["n"], inst["d"], inst["blocks"]
    g = lambda f: [f(b) for b in B]  # noqa: E731
    if kind == "dense":
        tf = de.DenseTreeFlatten.from_example([jnp.zeros((d,))] * n)
        t = tla_instance(inst)  # dense embedding of the pieces (floats below)
        marg = de.DenseNormal(_f(_emb_vec(B, lambda b: b["m"], n, d)), _f(_LP(inst)), tf)
        conds = []
        for s in range(K):
            conds.append(de.DenseLatentCond(
                _f(_A(inst, s)),
                de.DenseNormal(_f(_emb_vec(B, lambda b: b["conds"][s]["b"], n, d)), _f(_LQ(inst, s)), tf),
                to_latent=_f(_emb_vec(B, lambda b: b["conds"][s]["tl"], n, d)), to_observed=_f(_emb_vec(B, lambda b: b["conds"][s]["to"], n, d))))
    elif kind == "iso":
        tf = iso.IsotropicTreeFlatten.from_example([jnp.zeros((d,))] * n)
        b0 = B[0]
        marg = iso.IsotropicNormal(_f(g(lambda b: b["m"])).T, _f(b0["LP"]), tf)
        conds = []
        for s in range(K):
            c0 = b0["conds"][s]
            conds.append(iso.IsotropicLatentCond(_f(c0["A"]), iso.IsotropicNormal(_f(g(lambda b: b["conds"][s]["b"])).T, _f(c0["LQ"]), tf),
                                                 to_latent=_f(c0["tl"]), to_observed=_f(c0["to"])))
    else:
        tf = bd.BlockDiagTreeFlatten.from_example([jnp.zeros((d,))] * n)
        marg = bd.BlockDiagNormal(_f(g(lambda b: b["m"])), _f(g(lambda b: b["LP"])), tf)
        conds = []
        for s in range(K):
            conds.append(bd.BlockDiagLatentCond(
                _f(g(lambda b: b["conds"][s]["A"])), bd.BlockDiagNormal(_f(g(lambda b: b["conds"][s]["b"])), _f(g(lambda b: b["conds"][s]["LQ"])), tf),
                to_latent=_f(g(lambda b: b["conds"][s]["tl"])), to_observed=_f(g(lambda b: b["conds"][s]["to"]))))
    if K == 0:
        return marg, None
    stacked = jax.tree_util.tree_map(lambda *xs: jnp.stack(xs), *conds)
    return marg, eal.MarkovSequence(marg, stacked, reverse=True)


def loss_inputs(inst):
    """(data u, std) in the layout the losses expect for this factorisation"""
    K, d = inst["K"], inst["d"]
    u = _f(inst["data"])  # (K+1, d)
    sd = _f(inst["noise_sd"])  # (K+1, d)
    std = sd[:, 0] if inst["kind"] == "iso" else sd
    return u, std


def expected_logpdf(exp, inst):
    maha = float(exp["maha"])
    det = float(exp["det"])
    M = (inst["K"] + 1) * inst["d"]
    total = -0.5 * maha - 0.5 * np.log(det) - 0.5 * M * np.log(2 * np.pi)
    return total / (inst["K"] + 1) if inst["average"] else total


# ------------------------------------------------------------------ sampling with prescribed base draws
class DrawTable:
    """replaces probdiffeq.backend.random.normal: the draw is looked up by the key it is called with"""

    def __init__(self):
        self.keys = None
        self.draws = None
        self.calls = []
        self.seen_keys = []

    def install(self):
        self._orig = pd_random.normal
        pd_random.normal = self.normal

    def uninstall(self):
        pd_random.normal = self._orig

    def normal(self, key, /, shape, dtype=None):
        size = int(np.prod(shape)) if len(shape) else 1
        kd = jnp.asarray(key, dtype=jnp.uint32)
        match = jnp.all(self.keys == kd[None, :], axis=1)
        row = jnp.sum(jnp.where(match[:, None], self.draws[:, :size], 0.0), axis=0)
        self.calls.append(tuple(shape))
        if not isinstance(kd, jax.core.Tracer):
            self.seen_keys.append(np.asarray(kd))
        return row.reshape(shape)


def key_schedule(key, K):
    """the keys MarkovSequence.sample hands to sample_flat, in time order t_0..t_K (reverse sequence)"""
    key, sub0 = jax.random.split(key, num=2)
    subs = []
    for _ in range(K):  # the scan runs from the last conditional to the first
        key, sub = jax.random.split(key, num=2)
        subs.append(sub)
    # scan(reverse=True) visits stacked index K-1 first (time K-1), ..., index 0 (time 0)
    by_time = {K: sub0}
    for step, sub in enumerate(subs):
        by_time[K - 1 - step] = sub
    return [by_time[j] for j in range(K + 1)]


def flatten_sample(tree, K, n, d):
    """sample tree (list over coefficients of (K+1, d) arrays) -> (K+1, n*d) coefficient-major"""
    arr = np.stack([np.asarray(x).reshape(K + 1, d) for x in tree], axis=1)  # (K+1, n, d)
    return arr.reshape(K + 1, n * d)
