"""C19 binding: GaussNewton.tla behaviours -> real taylor_points.lstsq_constrained_gauss_newton / MAP Taylor point.

The specification is a genuine multi-state machine (one behaviour per instance, one state per Gauss-Newton
iterate); `run_spec` batches instances through TLC and collects the exported states.  `check_instance` replays an
instance into the real routine with a Python-level `while_loop` injected through its `while_loop=` parameter, so
that every iterate and every evaluation of the loop guard is observed and compared with the exact rationals.
"""

from __future__ import annotations

import concurrent.futures as cf
import re
from fractions import Fraction as F

import jax
import jax.numpy as jnp
import numpy as np

jax.config.update("jax_enable_x64", True)

from probdiffeq._probdiffeq import jacobians, problems, taylor_points  # noqa: E402
from probdiffeq._probdiffeq import ssm_impl_dense as de  # noqa: E402
from probdiffeq.backend import linalg  # noqa: E402

from harness import tlc  # noqa: E402
from harness.exact import close, maxerr, ratify  # noqa: E402

INVARIANTS = ["Export", "InvBudget", "InvAffine", "InvRange", "InvTruthful", "InvOutcome"]
TOLS = [2**10, 2**20]  # T, tol = 1 / T


# ------------------------------------------------------------------ instances
def _rank(M):
    """rank over the rationals (sampling aid only: never used as an oracle)"""
    M = [[F(v) for v in row] for row in M]
    r = 0
    rows, cols = len(M), len(M[0])
    for c in range(cols):
        piv = next((i for i in range(r, rows) if M[i][c] != 0), None)
        if piv is None:
            continue
        M[r], M[piv] = M[piv], M[r]
        for i in range(r + 1, rows):
            f = M[i][c] / M[r][c]
            M[i] = [a - f * b for a, b in zip(M[i], M[r])]
        r += 1
        if r == rows:
            break
    return r


def _factor(rng, D, mode):
    """integer covariance factor, D x D: general / lower triangular / diagonal / singular ones"""
    M = [[rng.randint(-2, 2) for _ in range(D)] for _ in range(D)]
    if mode == "tril":
        M = [[(M[i][j] if j < i else (rng.choice([1, 2, -1]) if j == i else 0)) for j in range(D)] for i in range(D)]
    elif mode == "diag":
        M = [[(rng.randint(1, 3) if i == j else 0) for j in range(D)] for i in range(D)]
    elif mode == "identity":
        M = [[(1 if i == j else 0) for j in range(D)] for i in range(D)]
    elif mode == "sing_row":  # repeated row: a direction of state space without prior variance
        M[-1] = list(M[0])
    elif mode == "sing_col":  # zero column (a D x (D-1) factor, zero-padded)
        for row in M:
            row[-1] = 0
    elif mode == "sing_zero_row":  # one coordinate known exactly
        M[rng.randrange(D)] = [0] * D
    return M


LMODES = ["general", "tril", "diag", "identity", "sing_row", "sing_col", "sing_zero_row"]


def _jac(inst, x):
    K, D = len(inst["b"]), len(inst["m"])
    return [[F(inst["A"][k][c]) + sum((F(inst["Q"][k][c][q]) + F(inst["Q"][k][q][c])) * x[q] for q in range(D)) for c in range(D)] for k in range(K)]


def _matmul(A, B):
    return [[sum(F(a) * F(b) for a, b in zip(row, col)) for col in zip(*B)] for row in A]


def make_instance(rng, *, kind=None, D=None, K=None, lmode=None, near=None, T=None, maxiter=None, x0_is_mean=None, strong=False, mrange=3):
    """one seeded instance; resampled until J(x0) L has full row rank (the spec's restriction)"""
    for _ in range(200):
        d = rng.randint(2, 4) if D is None else D
        k = rng.randint(1, d - 1) if K is None else K
        knd = rng.choice(["affine", "quad", "quad"]) if kind is None else kind
        lm = rng.choice(LMODES) if lmode is None else lmode
        nr = (rng.random() < 0.5) if near is None else near
        m = [rng.randint(-mrange, mrange) for _ in range(d)]
        same = (rng.random() < 0.8) if x0_is_mean is None else x0_is_mean
        x0 = list(m) if same else [v + rng.randint(-1, 1) for v in m]
        L = _factor(rng, d, lm)
        A = [[rng.randint(-2, 2) for _ in range(d)] for _ in range(k)]
        qden = 1
        Q = [[[F(0)] * d for _ in range(d)] for _ in range(k)]
        if knd == "quad":
            qden = 1 if strong else rng.choice([1, 1, 4, 16])
            for kk in range(k):
                # strong: a less mild nonlinearity (residual and increment of comparable size after a step)
                for _ in range(rng.randint(2, 4) if strong else rng.randint(1, 2)):
                    Q[kk][rng.randrange(d)][rng.randrange(d)] = F(rng.choice([-2, -1, 1, 2] if strong else [-1, 1]), qden)
            if all(all(v == 0 for row in Qk for v in row) for Qk in Q):
                continue
        if nr:
            # the mean nearly satisfies the constraint: g(m) in {-1, 0, 1}^K / (1 or 2)
            e = [F(rng.randint(-1, 1), rng.choice([1, 2])) for _ in range(k)]
            b = [sum(F(A[kk][c]) * m[c] for c in range(d)) + sum(Q[kk][r][c] * m[r] * m[c] for r in range(d) for c in range(d)) - e[kk] for kk in range(k)]
        else:
            b = [F(rng.randint(-3, 3)) for _ in range(k)]
        inst = dict(
            kind=knd, D=d, K=k, lmode=lm, near=nr, m=m, x0=x0, L=L, A=A, b=b, Q=Q, qden=qden,
            T=rng.choice(TOLS) if T is None else T,
            maxiter=rng.randint(1, 4) if maxiter is None else maxiter,
        )  # fmt: skip
        if _rank(_matmul(_jac(inst, [F(v) for v in x0]), L)) == k:
            return inst
    raise RuntimeError("no full-row-rank instance found")


def tla_instance(inst):
    return {
        "m": ratify(inst["m"]),
        "x0": ratify(inst["x0"]),
        "L": ratify(inst["L"]),
        "A": ratify(inst["A"]),
        "b": ratify(inst["b"]),
        "Q": ratify(inst["Q"]),
        "T": int(inst["T"]),
        "maxiter": int(inst["maxiter"]),
    }


def to_json(inst):
    """JSON-friendly form (Fractions as 'n/d' strings) for evidence samples and replay files"""

    def enc(v):
        if isinstance(v, (list, tuple)):
            return [enc(q) for q in v]
        if isinstance(v, F):
            return str(v)
        return v

    return {k: enc(v) for k, v in inst.items()}


def from_json(obj):
    def dec_(v, frac):
        if isinstance(v, list):
            return [dec_(q, frac) for q in v]
        if isinstance(v, str) and frac:
            return F(v)
        return v

    out = {}
    for k, v in obj.items():
        if k in ("b", "Q"):
            out[k] = dec_(v, True)
        else:
            out[k] = v
    return out


# ------------------------------------------------------------------ guard-band instances (two phases)
T_PHASE1 = 2**20  # phase 1: a tolerance so small that only an exactly zero residual stops the exact iteration
BAND_KINDS = ("fx_band", "dx_above", "dx_below")


def _isqrt_candidates(lo, hi):
    """integers T >= 2 with lo < T^2 < hi (exact, Fractions), nearest to the geometric middle first"""
    if lo <= 0 or hi <= lo:
        return []
    mid = (float(lo) * float(hi)) ** 0.25
    if not (mid < 2.0**30):
        return []
    t0 = int(round(mid))
    return [t for t in (t0, t0 - 1, t0 + 1, t0 - 2, t0 + 2) if t >= 2 and lo < F(t * t) < hi]


def band_instances(rng, base, spec, *, margin=F(1, 1000)):
    """Phase 2.  `spec` is the exact behaviour of `base` under the tolerance 1/T_PHASE1 (the iterates do not depend on
    the tolerance).  For every iterate k >= 1 whose guard evaluates in 32 bits choose an integer T (tol = 1/T) that puts
      fx_band : |fx_k|^2 strictly inside (K/T^2, D/T^2)   and |dx_k|^2 above D/T^2      -> the loop must continue
      dx_above: |dx_k|^2 inside (D/T^2, 2D/T^2)           and |fx_k|^2 above K/T^2      -> the loop must continue
      dx_below: |dx_k|^2 inside (max(K, D/2)/T^2, D/T^2)  and |fx_k|^2 above K/T^2      -> the loop must stop ("stalled")
    every comparison of the whole prefix 0..k at least `margin` (relative) away from its threshold, budget > k."""
    D, K = base["D"], base["K"]
    states = spec["states"]
    up, dn = 1 + margin, 1 - margin
    out = []
    k = 1
    while k in states and k <= 3 and not states[k]["blocked"] and not states[k - 1]["blocked"]:
        f, d = states[k]["n2fx"], states[k]["n2dx"]
        if f == 0 or d == 0:
            break
        windows = {
            "fx_band": (K / f * up, D / f * dn),
            "dx_above": (D / d * up, 2 * D / d * dn),
            "dx_below": (max(F(K), F(D, 2)) / d * up, D / d * dn),
        }
        for kind, (lo, hi) in windows.items():
            for T in _isqrt_candidates(lo, hi):
                T2 = F(T * T)
                # every earlier guard continues, clearly
                if any(not (states[q]["n2fx"] * T2 > K * up and states[q]["n2dx"] * T2 > D * up) for q in range(k)):
                    continue
                # the other clause at k is decided clearly, and so that the banded clause is the deciding one
                if kind == "fx_band" and not d * T2 > D * up:
                    continue
                if kind != "fx_band" and not f * T2 > K * up:
                    continue
                out.append(dict(base, T=T, maxiter=rng.randint(k + 1, 4), band=kind, band_k=k))
                break
        k += 1
    return out


# ------------------------------------------------------------------ TLC
def dec(x):
    """ToJson'd value -> Fractions; the absorbing NaNR = [0, 0] -> None"""
    if isinstance(x, dict):
        return {k: dec(v) for k, v in x.items()}
    if isinstance(x, list):
        if len(x) == 2 and all(isinstance(v, int) and not isinstance(v, bool) for v in x):
            return None if x[1] == 0 else F(x[0], x[1])
        return [dec(v) for v in x]
    return x


_J_RE = re.compile(r"^/?\\?\s*j = (\d+)\s*$", re.M)


def _run_batch(tla_insts, idx, timeout_s, bname):
    # Export integrity: the export is accepted only if every PrintT line parses and there is exactly one GN/RET line per
    # distinct state (older versions of tlc.run_tlc could misplace a line while polling TLC's output); else run again.
    for attempt in range(5):
        wd = tlc.make_workdir()
        try:
            mod = tlc.write_model(wd, f"{bname}_{attempt}", "GaussNewton", {"Instances": [tla_insts[q] for q in idx]}, invariants=INVARIANTS, check_deadlock=False)
            res = tlc.run_tlc(wd, mod, workers=1, timeout_s=timeout_s, heap="2g")
        except tlc.MachineryError as e:
            if "unparsable PrintT payload" in str(e) and attempt < 4:
                continue
            raise
        finally:
            tlc.cleanup(wd)
        if not res.ok or sum(1 for tag, _ in res.prints if tag in ("GN", "RET")) == res.distinct:
            break
    else:
        raise tlc.MachineryError(f"GaussNewton export incomplete on batch {bname}")
    out = {}
    for tag, obj in res.prints:
        g = idx[obj["j"] - 1]
        slot = out.setdefault(g, {"states": {}, "ret": None, "aff": None})
        if tag == "GN":
            slot["states"][obj["k"]] = dec(obj)
        elif tag == "RET":
            slot["ret"] = dec(obj)
        elif tag == "AFF":
            slot["aff"] = dec(obj)
    fail = None
    if not res.ok:
        js = _J_RE.findall(res.stdout)
        fail = {"violated": res.violated, "instance": idx[int(js[-1]) - 1] if js else None, "tlc_tail": res.stdout[-3500:]}
    return out, res.distinct, res.generated, fail


def run_spec(tla_insts, *, batch=25, parallel=12, timeout_s=900):
    """-> (per-instance exports, distinct states, generated states, list of invariant failures)"""
    chunks = [list(range(p, min(p + batch, len(tla_insts)))) for p in range(0, len(tla_insts), batch)]
    results, states, gen, fails = {}, 0, 0, []
    with cf.ThreadPoolExecutor(max_workers=parallel) as ex:
        futs = [ex.submit(_run_batch, tla_insts, c, timeout_s, f"gn{n}") for n, c in enumerate(chunks)]
        for f in futs:
            out, s, g, fail = f.result()
            results.update(out)
            states += s
            gen += g
            if fail:
                fails.append(fail)
    return results, states, gen, fails


# ------------------------------------------------------------------ the implementation
def _arr(x):
    return jnp.asarray(np.array([[float(v) for v in row] for row in x] if x and isinstance(x[0], (list, tuple)) else [float(v) for v in x], dtype=np.float64))


def constraint_of(inst):
    A, b = _arr(inst["A"]), _arr(inst["b"])
    if inst["kind"] == "affine":
        return lambda x: A @ x - b
    Q = jnp.asarray(np.array([[[float(v) for v in row] for row in Qk] for Qk in inst["Q"]], dtype=np.float64))
    return lambda x: A @ x - b + jnp.einsum("i,kij,j->k", x, Q, x)


def jac_float(inst, x):
    A = np.array([[float(v) for v in row] for row in inst["A"]])
    Q = np.array([[[float(v) for v in row] for row in Qk] for Qk in inst["Q"]])
    return A + np.einsum("kij,j->ki", Q, x) + np.einsum("kji,j->ki", Q, x)


class Recorder:
    """a Python while loop with the signature of backend.flow.while_loop that records every state and guard value"""

    def __init__(self):
        self.rec = []

    def __call__(self, cond_fun, body_fun, init):
        s = init
        c = bool(cond_fun(s))
        self._push(s, c)
        while c:
            s = body_fun(s)
            c = bool(cond_fun(s))
            self._push(s, c)
        return s

    def _push(self, s, c):
        self.rec.append(dict(x=np.asarray(s.x), fx=np.asarray(s.fx), dx=np.asarray(s.dx), i=int(s.i), cont=c))


def _constraint_from_arrays(kind, A, b, Q):
    if kind == "affine":
        return lambda x: A @ x - b
    return lambda x: A @ x - b + jnp.einsum("i,kij,j->k", x, Q, x)


def _arrays(inst):
    Q = jnp.asarray(np.array([[[float(v) for v in row] for row in Qk] for Qk in inst["Q"]], dtype=np.float64))
    return _arr(inst["A"]), _arr(inst["b"]), Q, _arr(inst["x0"]), _arr(inst["m"]), _arr(inst["L"])


def run_real(inst):
    """the real routine with the recording Python loop injected through `while_loop=`"""
    rec = Recorder()
    gn = taylor_points.lstsq_constrained_gauss_newton(maxiter=inst["maxiter"], tol=1.0 / inst["T"], while_loop=rec)
    x, stats = gn(constraint_of(inst), _arr(inst["x0"]), _arr(inst["m"]), _arr(inst["L"]))
    return np.asarray(x), {k: np.asarray(v) for k, v in stats.items()}, rec.rec


_JIT = {}


def run_real_default_loop(inst):
    """the same call with the library's own loop (backend.flow.while_loop), under jit; one compilation per shape"""
    key = ("default", inst["kind"], inst["D"], inst["K"])
    if key not in _JIT:
        kind = inst["kind"]

        def call(A, b, Q, x0, m, L, maxiter, tol):
            gn = taylor_points.lstsq_constrained_gauss_newton(maxiter=maxiter, tol=tol)
            return gn(_constraint_from_arrays(kind, A, b, Q), x0, m, L)

        _JIT[key] = jax.jit(call)
    x, stats = _JIT[key](*_arrays(inst), inst["maxiter"], 1.0 / inst["T"])
    return np.asarray(x), {k: np.asarray(v) for k, v in stats.items()}


class _Spy(taylor_points.TaylorPoint):
    """records the point that the wrapped Taylor-point strategy hands to DenseResidual.linearize"""

    def __init__(self, inner):
        self.inner = inner
        self.seen = None

    def __call__(self, constraint_flat, rv, **kw):
        self.seen = self.inner(constraint_flat, rv, **kw)
        return self.seen


def run_map_update(inst):
    """state_space_model_dense().constraint_residual(residual, taylor_point=taylor_point_maximum_a_posteriori(nlstsq)):
    linearise at the MAP point, then one filter update on data 0 (as the solvers do); D coefficients of dimension 1.
    -> (Taylor point, {solver name: (mean, cov, whitened rms)})"""
    key = ("map", inst["kind"], inst["D"], inst["K"])
    if key not in _JIT:
        kind, D = inst["kind"], inst["D"]

        def call(A, b, Q, x0, m, L, maxiter, tol):
            del x0  # the MAP strategy starts at the mean
            g = _constraint_from_arrays(kind, A, b, Q)

            def resfun(*, jet_coords, t):
                del t
                return g(jnp.concatenate([jnp.reshape(c, (-1,)) for c in jet_coords]))

            res = problems.JetResidual(resfun, jacobian=jacobians.jacobian_materialize(), num_tcoeffs_in_args=D)
            nlstsq = taylor_points.lstsq_constrained_gauss_newton(maxiter=maxiter, tol=tol)
            spy = _Spy(taylor_points.taylor_point_maximum_a_posteriori(nlstsq))
            con = de.state_space_model_dense().constraint_residual(res, taylor_point=spy)
            rv = de.DenseNormal(m, L, de.DenseTreeFlatten.from_example([jnp.zeros((1,))] * D))
            cond, _ = con.linearize(rv, con.init_linearization(), damp=0.0, t=0.0)
            zeros = jax.tree_util.tree_map(jnp.zeros_like, cond.noise.mean)
            out = {}
            for sname, solve in (("lstsq", linalg.lstsq_svd), ("solve_triu", linalg.solve_triu)):
                rms, upd = cond.bayes_rule_and_residual_whitened_rms_tree(zeros, rv, solve_triu=solve)
                mean, cov = upd.to_multivariate_normal()
                out[sname] = (mean, cov, rms)
            return spy.seen, out

        _JIT[key] = jax.jit(call)
    xi, out = _JIT[key](*_arrays(inst), inst["maxiter"], 1.0 / inst["T"])
    return np.asarray(xi), {k: tuple(np.asarray(v) for v in t) for k, t in out.items()}


def outcome_of(stats, inst):
    """what the reported statistics say about the exit"""
    fc = stats["final_constraint"]
    if float(np.linalg.norm(fc)) <= (1.0 / inst["T"]) * np.sqrt(fc.size):
        return "feasible"
    if int(stats["iters"]) >= inst["maxiter"]:
        return "budget_exhausted"
    return "stalled"


def _has_nan(v):
    return any(q is None for q in v)


def _fl(v):
    return np.array([float(q) for q in v], dtype=np.float64)


def _fl2(M):
    return np.array([[float(q) for q in row] for row in M], dtype=np.float64)


def _borderline(st, inst, margin=1e-6):
    """the exact squared norms are within `margin` (relative) of a threshold: a float guard may legitimately differ"""
    T2 = float(inst["T"]) ** 2
    for n2, size in ((st["n2fx"], len(st["fx"])), (st["n2dx"], len(st["dx"]))):
        thr = size / T2
        if abs(float(n2) - thr) <= margin * thr:
            return True
    return False


def check_instance(inst, spec, *, tol=1e-9, with_default_loop=True):
    """replay one instance; returns (list of (key, detail), info dict)"""
    bad = []
    info = {"compared_states": 0, "returned": False, "borderline": False, "map": False, "filter_update": False, "max_relerr": 0.0, "range_checked": 0, "guards_compared": []}

    def cmp(key, got, want, what=""):
        err = maxerr(got, want)
        if np.isfinite(err):
            info["max_relerr"] = max(info["max_relerr"], err)
        if not close(got, want, tol):
            bad.append((key, f"{what} relerr={maxerr(got, want):.3e} got={np.asarray(got).tolist()} want={np.asarray(want).tolist()}"))
            return False
        return True

    x, stats, rec = run_real(inst)
    m, L = _fl(inst["m"]), _fl2(inst["L"])
    P = L @ L.T

    # (c) truthful reporting, on the implementation alone: the statistics are the last state of the loop
    last = rec[-1]
    if not (int(stats["iters"]) == last["i"] and np.array_equal(stats["final_constraint"], last["fx"]) and np.array_equal(stats["final_increment"], last["dx"]) and np.array_equal(x, last["x"])):
        bad.append(("stats.not_last_state", f"stats={ {k: v.tolist() for k, v in stats.items()} } last={ {k: (v.tolist() if hasattr(v, 'tolist') else v) for k, v in last.items()} }"))
    if last["cont"] or any(not r["cont"] for r in rec[:-1]) or [r["i"] for r in rec] != list(range(len(rec))):
        bad.append(("loop.guard_protocol", f"guards={[r['cont'] for r in rec]} counters={[r['i'] for r in rec]}"))

    # iterate by iterate against the exact behaviour
    states = spec["states"]
    k = 0
    diverged = False
    while k in states and not _has_nan(states[k]["x"]):
        st = states[k]
        if k >= len(rec):
            bad.append(("iterates.stopped_early", f"the routine stopped after {len(rec) - 1} iterations, the specification continues to iterate {k}"))
            diverged = True
            break
        r = rec[k]
        ok = True
        for fld in ("x", "fx", "dx"):  # a field that left the 32-bit range is not judged
            if not _has_nan(st[fld]):
                ok &= cmp(f"iterate.{fld}", r[fld], _fl(st[fld]), f"k={k}")
        info["compared_states"] += 1
        if not ok:
            diverged = True
            break
        if st["blocked"]:
            break
        if _borderline(st, inst):
            info["borderline"] = True
            break
        info["guards_compared"].append(k)
        if r["cont"] != st["cont"]:
            bad.append(("guard", f"k={k}: the routine {'continues' if r['cont'] else 'stops'}, the specification {'continues' if st['cont'] else 'stops'} (|fx|^2={float(st['n2fx']):.3e} |dx|^2={float(st['n2dx']):.3e} cond1={st['cond1']} cond3={st['cond3']} maxiter={inst['maxiter']} tol=1/{inst['T']})"))
            diverged = True
            break
        if st["cont"] and not st["solvable"]:
            break  # rank-deficient solve: not modelled
        k += 1

    # (b) range membership of the real iterates themselves, for the steps that the specification models (the exact
    # J L has full row rank at the previous iterate) and that are well conditioned in float64
    for q in range(1, min(len(rec), k + 2)):
        prev = states.get(q - 1)
        if prev is None or prev["blocked"] or not (prev["cont"] and prev["solvable"]):
            break
        J = jac_float(inst, rec[q - 1]["x"])
        H = J @ L
        sv = np.linalg.svd(H, compute_uv=False)
        if sv[-1] <= 1e-6 * max(1.0, np.linalg.norm(J, 2) * np.linalg.norm(L, 2)) or not np.all(np.isfinite(rec[q]["x"])):
            break
        M = P @ J.T
        v = rec[q]["x"] - m
        y = np.linalg.lstsq(M, v, rcond=None)[0]
        info["range_checked"] += 1
        if not close(M @ y, v, tol):
            bad.append(("range", f"k={q}: x - m is not in range(P J^T): residual {np.max(np.abs(M @ y - v)):.3e}, x - m = {v.tolist()}"))
            break

    ret = spec["ret"]
    fully = ret is not None and not diverged and not info["borderline"]
    if fully:
        info["returned"] = True
        if int(stats["iters"]) != int(ret["iters"]):
            bad.append(("stats.iters", f"reported iters={int(stats['iters'])}, specification {ret['iters']}"))
        cmp("return.x", x, _fl(ret["x"]))
        cmp("stats.final_constraint", stats["final_constraint"], _fl(ret["final_constraint"]))
        cmp("stats.final_increment", stats["final_increment"], _fl(ret["final_increment"]))
        # (d) what the statistics say about the exit
        oc = outcome_of(stats, inst)
        if oc != ret["outcome"]:
            bad.append(("stats.outcome", f"the statistics read '{oc}', the specification says '{ret['outcome']}' (iters={int(stats['iters'])} maxiter={inst['maxiter']} |fc|={float(np.linalg.norm(stats['final_constraint'])):.3e})"))
        # (a) affine: conditional mean after one iteration
        if inst["kind"] == "affine" and spec["aff"] and spec["aff"]["lin"]["ok"] and int(ret["iters"]) == 1:
            cmp("affine.conditional_mean", x, _fl(spec["aff"]["lin"]["mean"]))

    if fully and with_default_loop:
        # the same call with the library's own while loop (lax.while_loop), jitted
        x2, stats2 = run_real_default_loop(inst)
        if int(stats2["iters"]) != int(ret["iters"]):
            bad.append(("default_loop.stats.iters", f"reported iters={int(stats2['iters'])}, specification {ret['iters']}"))
        cmp("default_loop.return.x", x2, _fl(ret["x"]))
        cmp("default_loop.stats.final_constraint", stats2["final_constraint"], _fl(ret["final_constraint"]))
        cmp("default_loop.stats.final_increment", stats2["final_increment"], _fl(ret["final_increment"]))

    # the routine as Taylor point of the dense residual constraint, then one filter update
    if fully and inst["x0"] == inst["m"]:
        xi, upd = run_map_update(inst)
        cmp("map.taylor_point", xi, _fl(ret["x"]))
        info["map"] = True
        lin = ret["lin"]
        if inst["kind"] == "affine" and spec["aff"] and spec["aff"]["lin"]["ok"]:
            lin = spec["aff"]["lin"]  # exact for affine constraints whatever the point
        if lin["ok"]:
            tag = "affine" if inst["kind"] == "affine" else "quad"
            for sname, (mean, cov, rms) in upd.items():
                cmp(f"map.filter_update[{sname}].{tag}.mean", mean, _fl(lin["mean"]))
                cmp(f"map.filter_update[{sname}].{tag}.cov", cov, _fl2(lin["cov"]))
                cmp(f"map.filter_update[{sname}].{tag}.rms", rms, np.sqrt(float(lin["maha"]) / inst["K"]))
            info["filter_update"] = True
    return bad, info
