"""C08 binding: GaussExact.tla instances  ->  real Dense / Isotropic / BlockDiag classes."""

from __future__ import annotations

import random
from fractions import Fraction as F

import jax
import jax.numpy as jnp
import numpy as np

jax.config.update("jax_enable_x64", True)

from probdiffeq._probdiffeq import ssm_impl_blockdiag as bd  # noqa: E402
from probdiffeq._probdiffeq import ssm_impl_dense as de  # noqa: E402
from probdiffeq._probdiffeq import ssm_impl_isotropic as iso  # noqa: E402
from probdiffeq.backend import linalg  # noqa: E402

from harness.exact import close, maxerr, to_float  # noqa: E402

SCALES = [F(1, 4), F(1, 2), F(1), F(2), F(4)]
SCALES_WIDE = [F(1, 256), F(1, 16), F(1), F(16), F(256)]


def _mat(rng, r, c, lo=-2, hi=2, zero_p=0.0):
    if rng.random() < zero_p:
        return [[0] * c for _ in range(r)]
    return [[rng.randint(lo, hi) for _ in range(c)] for _ in range(r)]


def _factor(rng, n, mode):
    """covariance factor: general / triangular / rank-deficient / zero"""
    if mode == "zero":
        return [[0] * n for _ in range(n)]
    M = _mat(rng, n, n)
    if mode == "tril":
        M = [[M[i][j] if j <= i else 0 for j in range(n)] for i in range(n)]
        for i in range(n):
            if M[i][i] == 0:
                M[i][i] = 1
    if mode == "rankdef" and n >= 2:
        M[-1] = list(M[0])  # repeated row -> singular
    if mode == "diag":
        M = [[(rng.randint(1, 2) if i == j else 0) for j in range(n)] for i in range(n)]
    return M


def _vec(rng, n, lo=-3, hi=3):
    return [rng.randint(lo, hi) for _ in range(n)]


def make_block(rng, n, m, k, *, pmode, qmode, scales):
    return dict(
        A=_mat(rng, m, n),
        b=_vec(rng, m),
        LQ=_factor(rng, m, qmode),
        tl=[rng.choice(scales) for _ in range(n)],
        to=[rng.choice(scales) for _ in range(m)],
        mx=_vec(rng, n),
        LP=_factor(rng, n, pmode),
        data=_vec(rng, m),
        pt=_vec(rng, n),
        A2=_mat(rng, k, m),
        b2=_vec(rng, k),
        LQ2=_factor(rng, k, rng.choice(["tril", "zero", "general"])),
        tl2=[rng.choice(scales) for _ in range(m)],
        to2=[rng.choice(scales) for _ in range(k)],
        v=_vec(rng, m, -2, 2),
    )


SHARED = ("A", "LQ", "tl", "to", "LP", "A2", "LQ2", "tl2", "to2")


def make_instance(rng, kind, *, max_n=3, max_d=2, wide=False):
    scales = SCALES_WIDE if wide else SCALES
    pmode = rng.choice(["tril", "general", "rankdef", "zero", "diag"])
    qmode = rng.choice(["tril", "general", "zero", "diag", "rankdef"])
    if kind == "dense":
        n = rng.randint(1, max_n + 1)
        d = 1
    else:
        n = rng.randint(1, max_n)
        d = rng.randint(1, max_d)
    m = rng.randint(1, n)
    k = rng.randint(1, m)
    blocks = [make_block(rng, n, m, k, pmode=pmode, qmode=qmode, scales=scales) for _ in range(d)]
    if kind == "iso":
        for b in blocks[1:]:
            for f in SHARED:
                b[f] = blocks[0][f]
    return dict(kind=kind, blocks=blocks, factor=rng.choice([F(1, 2), F(2), F(3), F(1)]), n=n, m=m, k=k, d=d, pmode=pmode, qmode=qmode)


def tla_instance(inst):
    from harness.exact import ratify

    return {"blocks": [ratify(b) for b in inst["blocks"]], "factor": F(inst["factor"])}


# ------------------------------------------------------------------ building the real objects
def _f(x):
    return jnp.asarray(np.array(x, dtype=object).astype(np.float64))


def build(inst):
    """-> dict(c1, c2, x, fmt_m, fmt_n, fmt_k) with fmt_* converting dense-embedded vectors into the model's flat layout"""
    kind, B, n, m, k, d = inst["kind"], inst["blocks"], inst["n"], inst["m"], inst["k"], inst["d"]
    g = lambda f: [b[f] for b in B]  # noqa: E731
    if kind == "dense":
        b0 = B[0]
        tf = lambda r: de.DenseTreeFlatten.from_example([jnp.zeros((1,))] * r)  # noqa: E731
        N = de.DenseNormal
        x = N(_f(b0["mx"]), _f(b0["LP"]), tf(n))
        c1 = de.DenseLatentCond(_f(b0["A"]), N(_f(b0["b"]), _f(b0["LQ"]), tf(m)), to_latent=_f(b0["tl"]), to_observed=_f(b0["to"]))
        c2 = de.DenseLatentCond(_f(b0["A2"]), N(_f(b0["b2"]), _f(b0["LQ2"]), tf(k)), to_latent=_f(b0["tl2"]), to_observed=_f(b0["to2"]))
        fmt = lambda vec, r: jnp.asarray(vec)  # noqa: E731
    elif kind == "iso":
        b0 = B[0]
        tf = lambda r: iso.IsotropicTreeFlatten.from_example([jnp.zeros((d,))] * r)  # noqa: E731
        N = iso.IsotropicNormal
        cols = lambda f: _f(g(f)).T  # noqa: E731  (r, d)
        x = N(cols("mx"), _f(b0["LP"]), tf(n))
        c1 = iso.IsotropicLatentCond(_f(b0["A"]), N(cols("b"), _f(b0["LQ"]), tf(m)), to_latent=_f(b0["tl"]), to_observed=_f(b0["to"]))
        c2 = iso.IsotropicLatentCond(_f(b0["A2"]), N(cols("b2"), _f(b0["LQ2"]), tf(k)), to_latent=_f(b0["tl2"]), to_observed=_f(b0["to2"]))
        fmt = lambda vec, r: jnp.asarray(vec).reshape((r, d))  # noqa: E731
    else:
        tf = lambda r: bd.BlockDiagTreeFlatten.from_example([jnp.zeros((d,))] * r)  # noqa: E731
        N = bd.BlockDiagNormal
        x = N(_f(g("mx")), _f(g("LP")), tf(n))
        c1 = bd.BlockDiagLatentCond(_f(g("A")), N(_f(g("b")), _f(g("LQ")), tf(m)), to_latent=_f(g("tl")), to_observed=_f(g("to")))
        c2 = bd.BlockDiagLatentCond(_f(g("A2")), N(_f(g("b2")), _f(g("LQ2")), tf(k)), to_latent=_f(g("tl2")), to_observed=_f(g("to2")))
        fmt = lambda vec, r: jnp.asarray(vec).reshape((r, d)).T  # noqa: E731
    return dict(c1=c1, c2=c2, x=x, fmt=fmt)


def mvn(rv):
    mean, cov = rv.to_multivariate_normal()
    return np.asarray(mean), np.asarray(cov)


def _flat_tree(tree_list, kind, d):
    """mean/std tree (list over coefficients) -> dense coefficient-major vector"""
    out = []
    for leaf in tree_list:
        a = np.asarray(leaf).reshape(-1)
        if a.size == 1 and d > 1:
            a = np.repeat(a, d)
        out.extend(a.tolist())
    return np.array(out)


class Mismatch(Exception):
    pass


def check_instance(inst, exp, *, tol=1e-9):
    """Run the real ops on one instance; return list of (opname, detail) divergences."""
    E = {k: to_float(v) for k, v in exp["dense"].items()}
    kind, n, m, k, d = inst["kind"], inst["n"], inst["m"], inst["k"], inst["d"]
    o = build(inst)
    c1, c2, x, fmt = o["c1"], o["c2"], o["x"], o["fmt"]
    bad = []

    def cmp(name, got, want):
        if not close(got, want, tol):
            bad.append((name, f"relerr={maxerr(got, want):.3e} got={np.asarray(got).tolist()} want={np.asarray(want).tolist()}"))

    def cmp_rv(name, rv, mean, cov):
        gm, gc = mvn(rv)
        cmp(name + ".mean", gm, mean)
        cmp(name + ".cov", gc, cov)

    # dense conversion, mean, std of a Gaussian
    cmp_rv("to_multivariate_normal(x)", x, _emb_vec(inst, "mx"), E["P"])
    cmp("x.std", _flat_tree(x.std, kind, d), np.sqrt(np.diag(E["P"])))
    cmp("x.mean", _flat_tree(x.mean, kind, d), _emb_vec(inst, "mx"))
    f = float(inst["factor"])
    cmp_rv("x.rescale_cholesky", x.rescale_cholesky(jnp.asarray(f)), _emb_vec(inst, "mx"), E["resc_P"])

    # marginalise
    y = c1.marginalise(x)
    cmp_rv("marginalise", y, E["marg_mean"], E["marg_cov"])
    # apply to a point
    pt = fmt(_emb_vec(inst, "pt"), n)
    cmp_rv("apply_flat", c1.apply_flat(pt), E["apply_mean"], E["Qeff"])
    # preconditioner removal
    cp = c1.preconditioner_apply()
    if not (np.all(np.asarray(cp.to_latent) == 1.0) and np.all(np.asarray(cp.to_observed) == 1.0)):
        bad.append(("preconditioner_apply", "scalings not removed"))
    cmp_rv("preconditioner_apply.marginalise", cp.marginalise(x), E["marg_mean"], E["marg_cov"])
    cmp_rv("preconditioner_apply.apply_flat", cp.apply_flat(pt), E["apply_mean"], E["Qeff"])
    # rescale noise
    cmp_rv("rescale_noise.marginalise", c1.rescale_noise(jnp.asarray(f)).marginalise(x), E["marg_mean"], E["resc_marg_cov"])
    # composition
    c21 = c2.merge(c1)
    cmp_rv("merge.marginalise", c21.marginalise(x), E["z_mean"], E["z_cov"])
    cmp_rv("merge.apply_flat", c21.apply_flat(pt), np.asarray(E["merge_A"]) @ _emb_vec(inst, "pt") + E["merge_b"], E["merge_Q"])
    cmp_rv("marginalise.marginalise", c2.marginalise(y), E["z_mean"], E["z_cov"])
    # identity conditional
    idc = x.identity_conditional()
    cmp_rv("identity.marginalise", idc.marginalise(x), _emb_vec(inst, "mx"), E["P"])
    cmp_rv("merge(c, identity).marginalise", c1.merge(idc).marginalise(x), E["marg_mean"], E["marg_cov"])

    # a datum equal to the mean has whitened residual exactly zero (no nugget may enter the RMS)
    if bool(E["invertible"]):
        cmp("residual_whitened_rms(data = mean)", np.asarray(y.residual_whitened_rms_flat(y.mean_flat)).reshape(-1), np.zeros(d if kind == "bd" else 1))

    # reversal: joint law of (x, y)
    solvers = [("lstsq", linalg.lstsq_svd)]
    if bool(E["invertible"]):
        solvers.append(("solve_triu", linalg.solve_triu))
    for sname, solve in solvers:
        obs, bw = c1.revert(x, solve_triu=solve)
        cmp_rv(f"revert[{sname}].observed", obs, E["marg_mean"], E["marg_cov"])
        # E[x] and Cov(x) reconstructed from p(x|y) p(y)
        cmp_rv(f"revert[{sname}].backward.marginalise(observed)", bw.marginalise(obs), _emb_vec(inst, "mx"), E["P"])
        # conditioning on data = my + S v  (division-free, valid for singular S): mean = mx + C v
        dv = fmt(E["data_v"], m)
        post_v = bw.apply_flat(dv)
        cmp(f"revert[{sname}].backward.apply_flat(my+Sv).mean", mvn(post_v)[0], E["post_mean_v"])
        if bool(E["invertible"]):
            data = fmt(_emb_vec(inst, "data"), m)
            cmp_rv(f"revert[{sname}].backward.apply_flat(data)", bw.apply_flat(data), E["post_mean"], E["post_cov"])
            data_tree = obs.tree_flatten.unflatten_array(data)
            cmp_rv(f"bayes_rule_tree[{sname}]", c1.bayes_rule_tree(data_tree, x, solve_triu=solve), E["post_mean"], E["post_cov"])
            M = m * d
            want_lp = -0.5 * float(E["maha"]) - 0.5 * np.log(float(E["det"])) - 0.5 * M * np.log(2 * np.pi)
            cmp(f"logpdf_flat[{sname}]", obs.logpdf_flat(data), want_lp)
            # log-density AT THE MEAN of the same Gaussian with its factor rescaled by c = 2^-60 (pivots far below machine
            # epsilon): -1/2 log det S - dim/2 log 2 pi - dim * log(c), exactly
            c60 = 2.0**-60
            obs_c = obs.rescale_cholesky(jnp.asarray(c60))
            cmp(f"logpdf_flat[{sname}].rescaled(2^-60).at-mean", obs_c.logpdf_flat(obs_c.mean_flat),
                -0.5 * np.log(float(E["det"])) - 0.5 * M * np.log(2 * np.pi) - M * np.log(c60))
            # ... and by c = 2^-300 / 2^300: the DETERMINANT of the factor leaves the floating-point range (its logarithm
            # does not), so the log-determinant must be accumulated pivot by pivot
            for e300 in (-300, 300):
                c300 = 2.0**e300
                obs_c = obs.rescale_cholesky(jnp.asarray(c300))
                cmp(f"logpdf_flat[{sname}].rescaled(2^{e300}).at-mean", obs_c.logpdf_flat(obs_c.mean_flat),
                    -0.5 * np.log(float(E["det"])) - 0.5 * M * np.log(2 * np.pi) - M * np.log(c300))
            lp, upd = c1.bayes_rule_and_logpdf_tree(data_tree, x, solve_triu=solve)
            cmp(f"bayes_rule_and_logpdf_tree[{sname}].logpdf", lp, want_lp)
            cmp_rv(f"bayes_rule_and_logpdf_tree[{sname}].updated", upd, E["post_mean"], E["post_cov"])
            rms, upd2 = c1.bayes_rule_and_residual_whitened_rms_tree(data_tree, x, solve_triu=solve)
            if kind == "bd":
                want_rms = np.sqrt(np.array([float(v) for v in exp["block_maha"]]) / m)
                ok_blocks = all(bool(v) for v in exp["block_inv"])
            else:
                want_rms = np.sqrt(float(E["maha"]) / M)
                ok_blocks = True
            if ok_blocks:
                cmp(f"residual_whitened_rms[{sname}]", rms, want_rms)
                cmp(f"residual_whitened_rms_tree[{sname}]", obs.residual_whitened_rms_tree(data_tree), want_rms)
            cmp_rv(f"bayes_rule_and_rms_tree[{sname}].updated", upd2, E["post_mean"], E["post_cov"])
    return bad


def gauge(inst, alpha):
    """(tl, b, LQ, to) -> (alpha tl, alpha b, alpha LQ, to / alpha): same effective conditional (LawGauge of GaussExact.tla),
    but every latent quantity of the reversal is scaled by alpha"""
    out = dict(inst)
    a = F(alpha)
    blocks = []
    for b in inst["blocks"]:
        nb = dict(b)
        nb["tl"] = [F(v) * a for v in b["tl"]]
        nb["b"] = [F(v) * a for v in b["b"]]
        nb["LQ"] = [[F(v) * a for v in row] for row in b["LQ"]]
        nb["to"] = [F(v) / a for v in b["to"]]
        blocks.append(nb)
    out["blocks"] = blocks
    return out


def check_gauged(inst, exp, alpha, *, tol=1e-9):
    """the gauge-transformed instance must give the same marginal / joint / posterior as TLC computed for the original"""
    E = {k: to_float(v) for k, v in exp["dense"].items()}
    g = gauge(inst, alpha)
    o = build(g)
    c1, x, fmt = o["c1"], o["x"], o["fmt"]
    m = inst["m"]
    bad = []

    def cmp_rv(name, rv, mean, cov):
        gm, gc = mvn(rv)
        if not close(gm, mean, tol):
            bad.append((name + ".mean", f"relerr={maxerr(gm, mean):.3e}"))
        if not close(gc, cov, tol):
            bad.append((name + ".cov", f"relerr={maxerr(gc, cov):.3e}"))

    tag = f"gauge[2^{int(round(float(np.log2(float(alpha)))))}]"
    cmp_rv(f"{tag}.marginalise", c1.marginalise(x), E["marg_mean"], E["marg_cov"])
    if bool(E["invertible"]):
        for sname, solve in (("lstsq", linalg.lstsq_svd), ("solve_triu", linalg.solve_triu)):
            obs, bw = c1.revert(x, solve_triu=solve)
            cmp_rv(f"{tag}.revert[{sname}].observed", obs, E["marg_mean"], E["marg_cov"])
            cmp_rv(f"{tag}.revert[{sname}].backward.marginalise(observed)", bw.marginalise(obs), _emb_vec(inst, "mx"), E["P"])
            data = fmt(_emb_vec(inst, "data"), m)
            cmp_rv(f"{tag}.revert[{sname}].backward.apply_flat(data)", bw.apply_flat(data), E["post_mean"], E["post_cov"])
    return bad


def row_gauge(inst, e):
    """(A, b, LQ, data) -> (E A, E b, E LQ, E data) with E = diag(e): the observation y' = E y of the same x.  Its marginal
    is E m_y, E S E; the posterior of x given y' = E data is the one TLC computed for the original instance - but the
    innovation factor the reversal has to solve with has a condition number larger by max(e) / min(e)."""
    out = dict(inst)
    blocks = []
    for b in inst["blocks"]:
        nb = dict(b)
        nb["A"] = [[F(v) * F(e[i]) for v in row] for i, row in enumerate(b["A"])]
        nb["b"] = [F(v) * F(e[i]) for i, v in enumerate(b["b"])]
        nb["LQ"] = [[F(v) * F(e[i]) for v in row] for i, row in enumerate(b["LQ"])]
        nb["data"] = [F(v) * F(e[i]) for i, v in enumerate(b["data"])]
        blocks.append(nb)
    out["blocks"] = blocks
    return out


def check_row_gauged(inst, exp, spread=21, *, tol=1e-7):
    """ill-conditioned but regular innovations (every other observed row scaled by 2^-spread): marginal and joint law of
    the reversal against the exact values of the well-scaled instance"""
    m, d = inst["m"], inst["d"]
    if m < 2:
        return []
    E = {k: to_float(v) for k, v in exp["dense"].items()}
    if not bool(E["invertible"]):
        return []
    e = [F(1) if i % 2 == 0 else F(1, 2**spread) for i in range(m)]
    g = row_gauge(inst, e)
    o = build(g)
    c1, x, fmt = o["c1"], o["x"], o["fmt"]
    ev = np.array([float(e[i]) for i in range(m) for _ in range(d)])
    bad = []

    def cmp_rv(name, rv, mean, cov):
        gm, gc = mvn(rv)
        if not close(gm, mean, tol):
            bad.append((name + ".mean", f"relerr={maxerr(gm, mean):.3e}"))
        if not close(gc, cov, tol):
            bad.append((name + ".cov", f"relerr={maxerr(gc, cov):.3e}"))

    tag = f"rows[2^-{spread}]"
    for sname, solve in (("lstsq", linalg.lstsq_svd), ("solve_triu", linalg.solve_triu)):
        obs, bw = c1.revert(x, solve_triu=solve)
        cmp_rv(f"{tag}.revert[{sname}].backward.marginalise(observed)", bw.marginalise(obs), _emb_vec(inst, "mx"), E["P"])
        data = fmt(_emb_vec(g, "data"), m)
        cmp_rv(f"{tag}.revert[{sname}].backward.apply_flat(data)", bw.apply_flat(data), E["post_mean"], E["post_cov"])
        gm, _ = mvn(obs)
        if not close(gm, ev * np.asarray(E["marg_mean"]), tol):
            bad.append((f"{tag}.revert[{sname}].observed.mean", f"relerr={maxerr(gm, ev * np.asarray(E['marg_mean'])):.3e}"))
    return bad


def _emb_vec(inst, field):
    B, d = inst["blocks"], inst["d"]
    r = len(B[0][field])
    return np.array([float(B[a][field][i]) for i in range(r) for a in range(d)])


def check_batched(insts, exps, *, tol=1e-9):
    """vmap marginalise / revert+apply / merge over same-shaped instances and compare each member."""
    bad = []
    objs = [build(i) for i in insts]
    stack = lambda xs: jax.tree_util.tree_map(lambda *a: jnp.stack(a), *xs)  # noqa: E731
    c1s, c2s, xs = stack([o["c1"] for o in objs]), stack([o["c2"] for o in objs]), stack([o["x"] for o in objs])
    ys = jax.vmap(lambda c, x: c.marginalise(x))(c1s, xs)
    zs = jax.vmap(lambda c2, c1, x: c2.merge(c1).marginalise(x))(c2s, c1s, xs)
    back = jax.vmap(lambda c, x: (lambda ob: ob[1].marginalise(ob[0]))(c.revert(x, solve_triu=linalg.lstsq_svd)))(c1s, xs)
    ym, yc = ys.to_multivariate_normal()
    zm, zc = zs.to_multivariate_normal()
    bm, bc = back.to_multivariate_normal()
    for j, (inst, exp) in enumerate(zip(insts, exps)):
        E = {k: to_float(v) for k, v in exp["dense"].items()}
        for name, got, want in [
            ("vmap.marginalise.mean", ym[j], E["marg_mean"]),
            ("vmap.marginalise.cov", yc[j], E["marg_cov"]),
            ("vmap.merge.marginalise.mean", zm[j], E["z_mean"]),
            ("vmap.merge.marginalise.cov", zc[j], E["z_cov"]),
            ("vmap.revert.joint.mean", bm[j], _emb_vec(inst, "mx")),
            ("vmap.revert.joint.cov", bc[j], E["P"]),
        ]:
            if not close(got, want, tol):
                bad.append((j, name, f"relerr={maxerr(got, want):.3e}"))
    return bad
