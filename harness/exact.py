"""Shared helpers for the L2 (exact data-plane) checks: instance batches through TLC, rational decoding, comparisons."""

from __future__ import annotations

import re
from fractions import Fraction

import numpy as np

from harness import tlc


def rat(x) -> Fraction:
    """decode a ToJson'd rational [n, d]"""
    return Fraction(int(x[0]), int(x[1]))


def is_rat(x):
    return isinstance(x, list) and len(x) == 2 and all(isinstance(v, int) and not isinstance(v, bool) for v in x)


def decode(x):
    """ToJson'd structure with rationals as [n,d] -> nested lists of Fraction / dict"""
    if isinstance(x, dict):
        return {k: decode(v) for k, v in x.items()}
    if is_rat(x):
        return rat(x)
    if isinstance(x, list):
        return [decode(v) for v in x]
    return x


def to_float(x):
    if isinstance(x, Fraction):
        return float(x)
    if isinstance(x, list):
        return np.array([to_float(v) for v in x], dtype=np.float64)
    return x


def R(x) -> Fraction:
    return Fraction(x)


def ratify(x):
    """python ints/Fractions (nested lists) -> Fractions everywhere (tlc.tla emits <<n, d>>)"""
    if isinstance(x, (list, tuple)):
        return [ratify(v) for v in x]
    if isinstance(x, dict):
        return {k: ratify(v) for k, v in x.items()}
    if isinstance(x, bool):
        return x
    if isinstance(x, (int, Fraction)):
        return Fraction(x)
    return x


_I_RE = re.compile(r"^/?\\?\s*i = (\d+)\s*$", re.M)


def _eval_batch(module, instances, idx, invariants, extra_consts, timeout_s, tag, bname):
    """one batch, own workdir; returns (results, dropped, states, gen, fail)"""
    results, dropped = {}, []
    states = gen = 0
    wd = tlc.make_workdir()
    try:
        bno = 0
        while idx:
            bno += 1
            consts = {"Instances": [instances[j] for j in idx]}
            if extra_consts:
                consts.update(extra_consts)
            mod = tlc.write_model(wd, f"{bname}_{bno}", module, consts, invariants=list(invariants), check_deadlock=False)
            try:
                res = tlc.run_tlc(wd, mod, workers=1, timeout_s=timeout_s, heap="2g")
            except tlc.MachineryError as e:
                msg = getattr(e, "out", str(e))
                if "overflow" in msg.lower() or "out of range" in msg.lower():
                    m = _I_RE.findall(msg)
                    if not m:
                        raise
                    bad = int(m[-1]) - 1
                    dropped.append(idx[bad])
                    # states 1..bad were evaluated (and printed) before the overflow: keep them, go on behind it
                    for t, obj in tlc.parse_prints(msg):
                        if t == tag and obj["i"] - 1 < bad:
                            if obj.get("nan"):
                                dropped.append(idx[obj["i"] - 1])
                            else:
                                results[idx[obj["i"] - 1]] = decode(obj["e"])
                    states += bad
                    gen += bad
                    idx = idx[bad + 1 :]
                    continue
                raise
            if not res.ok:
                return results, dropped, states, gen, (res, [instances[j] for j in idx], idx)
            states += res.distinct
            gen += res.generated
            for t, obj in res.prints:
                if t == tag:
                    if obj.get("nan"):
                        dropped.append(idx[obj["i"] - 1])
                    else:
                        results[idx[obj["i"] - 1]] = decode(obj["e"])
            break
    finally:
        tlc.cleanup(wd)
    return results, dropped, states, gen, None


def eval_instances(module: str, instances: list, *, invariants, batch=60, extra_consts=None, timeout_s=900, workers=1, tag="EXP", parallel=8):
    """Run TLC over `instances` (state i = instance index); returns (results by global index, dropped, states, generated, fail).

    An instance on which TLC's 32-bit arithmetic overflows is dropped (reported in `dropped`) and evaluation resumes behind it."""
    import concurrent.futures as cf

    results, dropped = {}, []
    states = gen = 0
    fail = None
    chunks = [list(range(p, min(p + batch, len(instances)))) for p in range(0, len(instances), batch)]
    with cf.ThreadPoolExecutor(max_workers=parallel) as ex:
        futs = [ex.submit(_eval_batch, module, instances, c, invariants, extra_consts, timeout_s, tag, f"b{n}") for n, c in enumerate(chunks)]
        for f in futs:
            r, d, s, g, fl = f.result()
            results.update(r)
            dropped += d
            states += s
            gen += g
            fail = fail or fl
    return results, dropped, states, gen, fail


def close(a, b, tol=1e-9):
    a = np.asarray(a, dtype=np.float64)
    b = np.asarray(b, dtype=np.float64)
    if a.shape != b.shape:
        return False
    if a.size == 0:
        return True
    if not (np.all(np.isfinite(a)) and np.all(np.isfinite(b))):
        return False
    scale = max(1.0, float(np.max(np.abs(b))))
    return bool(np.max(np.abs(a - b)) <= tol * scale)


def maxerr(a, b):
    a = np.asarray(a, dtype=np.float64)
    b = np.asarray(b, dtype=np.float64)
    if a.shape != b.shape:
        return float("inf")
    if a.size == 0:
        return 0.0
    return float(np.max(np.abs(a - b)) / max(1.0, float(np.max(np.abs(b)))))
