"""C02 / C14 binding: KalmanExact.tla instances -> the real solvers on the three real state-space models.

An *instance* is a record of KalmanExact.tla (polynomial ODE, exact Taylor coefficients at t0, step, scales, damping,
linearisation structure, calibration mode, 1 or 2 steps).  TLC evaluates it over the rationals; `check_exact` runs the
real `solve_fixed_grid` with the state-space model whose *documented* structure the instance describes

    dense     <-> lin in {ts0, ts1_dense},      one scalar output scale
    isotropic <-> lin in {ts0, ts1_isotropic},  one scalar output scale, scalar base scale
    blockdiag <-> lin in {ts0, ts1_blockdiag},  one output scale per dimension (percal)

and compares means / covariances (`to_multivariate_normal()`, dense coefficient-major layout) and `output_scale**2`
with the rationals at 1e-9 relative.  `relational_*` are the float-only factorisation-agreement replays of C14.
"""

from __future__ import annotations

import functools
import os
import random
import warnings
from fractions import Fraction as F

import jax
import jax.numpy as jnp
import numpy as np

jax.config.update("jax_enable_x64", True)

from probdiffeq import ivpsolve  # noqa: E402
from probdiffeq import probdiffeq as pdq  # noqa: E402

from harness.exact import close, maxerr, ratify, to_float  # noqa: E402

SSMS = {"dense": pdq.state_space_model_dense, "iso": pdq.state_space_model_isotropic, "bd": pdq.state_space_model_blockdiag}
CALS = ["none", "mle", "mle_nocorr", "dynamic", "dynamic_relin"]
SOLVERS = {
    "none": lambda **kw: pdq.solver(**kw),
    "mle": lambda **kw: pdq.solver_mle(**kw),
    "mle_nocorr": lambda **kw: pdq.solver_mle(correct_asymptotic_underconfidence=False, **kw),
    "dynamic": lambda **kw: pdq.solver_dynamic(**kw),
    "dynamic_relin": lambda **kw: pdq.solver_dynamic(re_linearize_after_calibration=True, **kw),
}
STRATEGIES = {"filter": pdq.strategy_filter, "fixedinterval": pdq.strategy_smoother_fixedinterval}
LIN_OF = {"dense": ("ts0", "ts1_dense"), "iso": ("ts0", "ts1_isotropic"), "bd": ("ts0", "ts1_blockdiag")}
SHAPES = [(1, 1, 1), (1, 2, 1), (2, 1, 1), (2, 2, 1), (2, 1, 2), (2, 2, 2)]  # (q, d, k)
TOL = 1e-9


# ------------------------------------------------------------------ the polynomial problem family
def _vf(k, par):
    c0, c1, c2, c3 = par["c0"], par["c1"], par["c2"], par["c3"]
    if k == 1:

        def vf(u, *, t):
            return c0 + c3 * t + c1 @ u + c2 * u**2

        return vf
    e1, e2 = par["e1"], par["e2"]

    def vf2(u, du, *, t):
        return c0 + c3 * t + c1 @ u + c2 * u**2 + e1 @ du + e2 * u * du

    return vf2


def _ode(k, par):
    jac = pdq.jacobian_materialize()
    return pdq.ode(_vf(k, par), jacobian=jac) if k == 1 else pdq.ode_order_two(_vf(k, par), jacobian=jac)


COEF_KEYS = ("c0", "c1", "c2", "c3", "e1", "e2")


def _par(inst):
    p = {key: jnp.asarray(np.array([[float(x) for x in row] for row in inst[key]] if key in ("c1", "e1") else [float(x) for x in inst[key]], dtype=np.float64)) for key in COEF_KEYS}
    return p


@functools.lru_cache(maxsize=None)
def _jet_fn(q, d, k):
    def run(par, inits, t0):
        tc, _ = pdq.jetexpand_ode_padded_scan(num=q + 1 - k)(_ode(k, par), tuple(inits), t=t0)
        return jnp.stack(tc)

    return jax.jit(run)


def taylor_coefficients(inst, bound=4096):
    """exact initialisation by the library's jet routine -> rationals (None if not a simple dyadic)"""
    q, d, k = inst["q"], inst["d"], inst["k"]
    inits = [jnp.asarray([float(x) for x in inst["inits"][j]]) for j in range(k)]
    tc = np.asarray(_jet_fn(q, d, k)(_par(inst), inits, float(inst["t0"])))
    out = []
    for j in range(q + 1):
        for a in range(d):
            v = F(float(tc[j, a])).limit_denominator(64)
            if abs(float(v) - float(tc[j, a])) > 1e-12 * max(1.0, abs(float(v))) or abs(v) > bound:
                return None
            out.append(v)
    return out


# ------------------------------------------------------------------ instance generation
def gen_instance(rng, *, ssm, q, d, k, nsteps, cal, lin=None, exact=None, initc=False, kind=None, simple=False, lam_one=False, bound=4096, diffuse=0):
    """one KalmanExact instance for the documented structure of `ssm`; `kind` in {None, 'decoupled', 'scalarjac'}"""
    lin = lin or rng.choice(LIN_OF[ssm])
    small = simple or nsteps == 2 or q == 2

    def ci(lo, hi):
        return rng.randint(lo, hi)

    def diag(vals):
        return [[vals[a] if a == b else 0 for b in range(d)] for a in range(d)]

    if kind == "scalarjac":
        c1 = diag([ci(-1, 1) or 1] * d)
        e1 = diag([ci(-1, 1)] * d) if k == 2 else diag([0] * d)
        c2 = [0] * d
        e2 = [0] * d
    else:
        c1 = [[ci(-1, 1) for _ in range(d)] for _ in range(d)]
        e1 = [[ci(-1, 1) for _ in range(d)] for _ in range(d)] if k == 2 else diag([0] * d)
        if kind == "decoupled":
            c1 = diag([c1[a][a] for a in range(d)])
            e1 = diag([e1[a][a] for a in range(d)])
        c2 = [rng.choice([0, 1, -1]) if not small or rng.random() < 0.6 else 0 for _ in range(d)]
        e2 = [rng.choice([0, 0, 1, -1]) for _ in range(d)] if k == 2 else [0] * d
    c0 = [ci(-1, 1) for _ in range(d)]
    c3 = [rng.choice([0, 0, 1, -1]) for _ in range(d)]
    inits = [[rng.choice([1, -1, 2, 0]) if j == 0 else ci(-1, 1) for _ in range(d)] for j in range(k)]
    exact = (rng.random() < 0.6) if exact is None else exact
    if initc:
        exact = False  # with an exact initial value the initial update is singular (S = 0 for damp = 0)
    lam = [rng.choice([1, 1, 2]) for _ in range(d)]
    if ssm == "iso":
        lam = [lam[0]] * d
    if lam_one:
        lam = [1] * d
    inst = dict(
        ssm=ssm, q=q, d=d, k=k, nsteps=nsteps, t0=F(rng.choice([0, 0, 1])), h=rng.choice([F(1), F(1, 2), F(1, 2), F(2)] if not small else [F(1), F(1, 2)]),
        eps=F(0) if exact else F(1, 4), damp=rng.choice([F(0), F(1, 2)]), lam=[F(x) for x in lam], lin=lin, cal=cal,
        percal=(ssm == "bd"), initc=bool(initc), c0=c0, c1=c1, c2=c2, c3=c3, e1=e1, e2=e2, inits=inits, kind=kind or "general",
    )
    m0 = taylor_coefficients(inst, bound=bound)
    if m0 is None:
        return None
    # diffuse derivatives: only the first q + 1 - diffuse coefficients are handed to the prior; the appended ones have
    # mean zero and standard deviation deps (prior_wiener_integrated(..., diffuse_derivatives=diffuse, diffuse_eps=deps))
    diffuse = min(diffuse, q + 1 - k)  # the ODE needs its k arguments among the given coefficients
    inst["diffuse"] = int(diffuse)
    inst["deps"] = rng.choice([F(1), F(1, 2), F(2)])
    if diffuse:
        given = q + 1 - diffuse
        m0 = [x if (idx // d) < given else F(0) for idx, x in enumerate(m0)]
    inst["m0"] = m0
    return inst




def tla_instance(inst, laws=True):
    rec = {k: inst[k] for k in ("q", "d", "k", "nsteps", "lin", "cal", "percal", "initc")}
    for k in ("t0", "h", "eps", "damp"):
        rec[k] = F(inst[k])
    rec["diffuse"] = int(inst.get("diffuse", 0))
    rec["deps"] = F(inst.get("deps", 1))
    for k in ("lam", "m0") + COEF_KEYS:
        rec[k] = ratify(inst[k])
    rec["laws"] = bool(laws)
    return rec


def describe(inst):
    return {k: (str(v) if isinstance(v, F) else ([str(x) for x in v] if k in ("lam", "m0") else v)) for k, v in inst.items()}


# ------------------------------------------------------------------ the real solvers
def _config(inst, ssm, strategy, nsteps=None, lin=None, cal=None):
    return (ssm, inst["q"], inst["d"], inst["k"], lin or inst["lin"], cal or inst["cal"], strategy, nsteps or inst["nsteps"], inst["eps"] == 0, inst["initc"], int(inst.get("diffuse", 0)), F(inst.get("deps", 1)) == 1, int(inst.get("lift", 0)))


@functools.lru_cache(maxsize=None)
def _runner(cfg):
    """jitted real solve for one configuration; everything numeric is an argument (one compilation per configuration)"""
    ssm_name, q, d, k, lin, cal, strategy, nsteps, exact, initc, diffuse, default_deps, lift = cfg

    def run(par, tc, lam, eps, damp, grid, deps):
        ode = _ode(k, par)
        ssm = SSMS[ssm_name]()
        tcoeffs = [tc[j] for j in range(q + 1 - diffuse)]
        base = lam[0] if ssm_name == "iso" else lam
        # a diffuse standard deviation of one is the documented default of every factorisation: rely on it
        dkw = {} if default_deps else {"diffuse_eps": deps}
        prior = ssm.prior_wiener_integrated(tcoeffs, is_exact=exact, inexact_eps=eps, output_scale=base, diffuse_derivatives=diffuse, **dkw)
        if lift:  # relational scenarios only: constraints with several output rows per dimension
            ode = ode.jet_lift(lift_by=lift)
        constraint = ssm.constraint_ode_ts0(ode) if lin == "ts0" else ssm.constraint_ode_ts1(ode)
        solver = SOLVERS[cal](strategy=STRATEGIES[strategy](), constraint=constraint, constraint_init=constraint if initc else None)
        sol = ivpsolve.solve_fixed_grid(solver=solver)(prior, grid=grid, damp=damp)
        out = {"scale": sol.output_scale, "t": sol.t}
        if strategy == "filter":
            out["means"], out["covs"] = sol.solution_full.to_multivariate_normal()
            um, uc = sol.u.to_multivariate_normal()
            out["u_means"], out["u_covs"] = um, uc
        else:
            out["sm_means"], out["sm_covs"] = sol.u.to_multivariate_normal()
            out["means"], out["covs"] = sol.solution_full.filtering.to_multivariate_normal()
            # the marginals of the returned backward Markov sequence are the smoothed marginals again
            mm, mc = sol.solution_full.posterior.evaluate_marginals().to_multivariate_normal()
            out["seq_means"], out["seq_covs"] = mm, mc
        return out

    return jax.jit(run)


def run_real(inst, ssm, strategy, *, nsteps=None, lin=None, cal=None, grid=None):
    """-> dict of numpy arrays: means/covs (filtering), sm_means/sm_covs (smoother), scale"""
    nsteps = nsteps or inst["nsteps"]
    cfg = _config(inst, ssm, strategy, nsteps=nsteps, lin=lin, cal=cal)
    q, d = inst["q"], inst["d"]
    tc = jnp.asarray(np.array([float(x) for x in inst["m0"]]).reshape(q + 1, d))
    lam = jnp.asarray([float(x) for x in inst["lam"]])
    if grid is None:
        grid = [float(inst["t0"]) + j * float(inst["h"]) for j in range(nsteps + 1)]
    with warnings.catch_warnings():
        warnings.simplefilter("ignore")
        out = _runner(cfg)(_par(inst), tc, lam, float(inst["eps"]), float(inst["damp"]), jnp.asarray(grid, dtype=jnp.float64), float(inst.get("deps", 1)))
    return {k: np.asarray(v) for k, v in out.items()}


def scale2_steps(out, inst, cal=None):
    """reported output_scale**2 as (rows, d) array: one row (mle / uncalibrated: the final scale) or one row per step (dynamic)"""
    cal = cal or inst["cal"]
    s = np.asarray(out["scale"], dtype=np.float64)
    if s.ndim == 1:
        s = np.repeat(s[:, None], inst["d"], axis=1)
    return s**2


def check_exact(inst, exp, ssm=None, strategies=("filter", "fixedinterval"), tol=TOL):
    """compare the real solvers with the rationals of KalmanExact; -> [(what, detail)]"""
    ssm = ssm or inst["ssm"]
    E = {k: to_float(v) for k, v in exp.items() if k not in ("sing", "zscale")}
    # a dynamic scale of exactly zero (zero residual) makes the predicted covariance singular: the backward
    # conditionals of the smoother are then undefined (0/0) although the smoothed marginal itself exists; the
    # smoothed values are not judged there (the filtering values are)
    degenerate = bool(exp.get("zscale"))
    bad = []
    n = inst["nsteps"]

    def cmp(name, got, want):
        if not close(got, want, tol):
            bad.append((name, f"relerr={maxerr(got, want):.3e}"))

    want_means = np.stack([np.asarray(m) for m in E["means"]])
    want_covs = np.stack([np.asarray(c) for c in E["covs"]])
    want_scale = np.stack([np.asarray(s) for s in E["scale2"]])
    for strategy in strategies:
        out = run_real(inst, ssm, strategy)
        cmp(f"{strategy}:mean", out["means"], want_means)
        cmp(f"{strategy}:cov", out["covs"], want_covs)
        s2 = scale2_steps(out, inst)
        if inst["cal"] in ("dynamic", "dynamic_relin"):
            cmp(f"{strategy}:output_scale[0]", s2[0], np.ones(inst["d"]))
            cmp(f"{strategy}:output_scale", s2[1:], want_scale)
        else:
            if s2.shape[0] != n:
                bad.append((f"{strategy}:output_scale.shape", f"{s2.shape}"))
            cmp(f"{strategy}:output_scale", s2, np.repeat(want_scale, s2.shape[0], axis=0))
        if strategy == "filter":
            cmp("filter:u.mean", out["u_means"], want_means)
            cmp("filter:u.cov", out["u_covs"], want_covs)
        elif not degenerate:
            cmp("fixedinterval:smoothed.mean", out["sm_means"], np.stack([np.asarray(m) for m in E["sm_means"]]))
            cmp("fixedinterval:smoothed.cov", out["sm_covs"], np.stack([np.asarray(c) for c in E["sm_covs"]]))
            cmp("fixedinterval:posterior.evaluate_marginals.mean", out["seq_means"], np.stack([np.asarray(m) for m in E["sm_means"]]))
            cmp("fixedinterval:posterior.evaluate_marginals.cov", out["seq_covs"], np.stack([np.asarray(c) for c in E["sm_covs"]]))
    return bad


# ------------------------------------------------------------------ C14: the statements of the property, directly on the implementations
def sub_instance(inst, a):
    """component a of a componentwise-decoupled problem as a scalar (d = 1) instance"""
    q, d = inst["q"], inst["d"]
    sub = dict(inst)
    sub.update(
        d=1, lam=[inst["lam"][a]], m0=[inst["m0"][j * d + a] for j in range(q + 1)],
        c0=[inst["c0"][a]], c1=[[inst["c1"][a][a]]], c2=[inst["c2"][a]], c3=[inst["c3"][a]], e1=[[inst["e1"][a][a]]], e2=[inst["e2"][a]],
    )
    return sub


def _rel(a, b):
    a, b = np.asarray(a, dtype=np.float64), np.asarray(b, dtype=np.float64)
    if a.shape != b.shape:
        return float("inf")
    if not (np.all(np.isfinite(a)) and np.all(np.isfinite(b))):
        return float("inf")
    return float(np.max(np.abs(a - b)) / max(1.0, float(np.max(np.abs(b))))) if a.size else 0.0



def dynamic_tolerance(scn, ref, grid, per_dim):
    """The dynamic scale is |z| / sqrt(S d) with z = mp_k - f(mp) formed by cancellation: its relative condition number with
    respect to the filtering mean is kappa = (|mp_k| + |f|) / |z|, which is large exactly when the solver is accurate (small
    residual; kappa ~ 1e6 for q = 4 on smooth problems).  Two correct implementations whose means differ by accumulated rounding
    (taken as 1000 units in the last place, 1.1e-13) agree on scale^2, and on everything computed from it, only to about
    kappa * 1.1e-13; that is the tolerance argued for the dynamic modes (never below 1e-9)."""
    import math

    q, d, k = scn["q"], scn["d"], scn["k"]
    n = q + 1
    if grid is None:
        grid = [float(scn["t0"]) + j * float(scn["h"]) for j in range(scn["nsteps"] + 1)]
    par = {key: np.asarray(v) for key, v in _par(scn).items()}
    vf = _vf(k, par)
    kappa = 1.0
    means = np.asarray(ref["means"])
    for j in range(1, len(grid)):
        h = grid[j] - grid[j - 1]
        A = np.array([[h ** (b - a) / math.factorial(b - a) if b >= a else 0.0 for b in range(n)] for a in range(n)])
        mp = A @ means[j - 1].reshape(n, d)
        f = np.asarray(vf(*[mp[i] for i in range(k)], t=grid[j]), dtype=np.float64)
        z = mp[k] - f
        mag = np.abs(mp[k]) + np.abs(f)
        with np.errstate(divide="ignore", invalid="ignore"):
            kj = np.max(mag / np.abs(z)) if per_dim else math.sqrt(d) * np.max(mag) / np.linalg.norm(z)
        if not np.isfinite(kj):
            return float("inf")
        kappa = max(kappa, float(kj))
    return kappa * 1000.0 * 2.0**-53


def check_relational(scn, tol=TOL):
    """factorisation agreement on one scenario (instance fields + 'grid', 'strategy', 'kind'); -> [(what, detail)]"""
    kind, cal, strategy, grid = scn["kind"], scn["cal"], scn["strategy"], scn.get("grid")
    nsteps = len(grid) - 1 if grid is not None else scn["nsteps"]
    d, q = scn["d"], scn["q"]
    bad = []
    keys = ["means", "covs"] + (["sm_means", "sm_covs"] if strategy == "fixedinterval" else [])
    T = {"tol": tol}
    dyn = cal in ("dynamic", "dynamic_relin")

    def run(ssm, lin, inst=scn):
        return run_real(inst, ssm, strategy, nsteps=nsteps, lin=lin, grid=grid)

    def ok(e):
        return e <= T["tol"]

    def same(tag, A, B, ks):
        for k in ks:
            e = _rel(A[k], B[k])
            if not ok(e):
                bad.append((f"{tag}:{k}", f"relerr={e:.3e} tol={T['tol']:.1e}"))

    def set_tolerance(ref, per_dim):
        if dyn:
            T["tol"] = max(tol, dynamic_tolerance(scn, ref, grid, per_dim))

    def degenerate(out):
        # a dynamic scale of (numerically) zero: zero residual, singular predicted covariance, 0/0 in every factorisation alike
        return cal in ("dynamic", "dynamic_relin") and bool(np.any(~(np.asarray(out["scale"])[1:] > 1e-8)))

    if kind == "general":  # TS0, equal base scales
        D, I, B = run("dense", "ts0"), run("iso", "ts0"), run("bd", "ts0")
        if degenerate(D):
            return [("@@degenerate", "zero dynamic scale")]
        set_tolerance(D, False)
        same("ts0:dense==iso", I, D, keys)
        e = _rel(scale2_steps(I, scn), scale2_steps(D, scn))
        if not ok(e):
            bad.append(("ts0:dense==iso:output_scale", f"relerr={e:.3e}"))
        if cal in ("none", "mle", "mle_nocorr"):
            same("ts0:bd==dense", B, D, [k for k in keys if k.endswith("means")])
        if cal == "none":
            same("ts0:bd==dense", B, D, [k for k in keys if k.endswith("covs")])
        if cal in ("mle", "mle_nocorr"):
            sb, sd = scale2_steps(B, scn), scale2_steps(D, scn)
            e = _rel(np.sum(sb, axis=1), d * sd[:, 0])
            if not ok(e):
                bad.append(("ts0:bd.mle_scale==split(dense)", f"sum_a s_a^2={np.sum(sb, axis=1)[-1]:.12g} d*s^2={d * sd[-1, 0]:.12g} relerr={e:.3e}"))
            # the calibrated covariances are then the per-dimension rescaling of the same uncalibrated ones
            for k in [k for k in keys if k.endswith("covs")]:
                n = q + 1
                cb = B[k].reshape(B[k].shape[0], n, d, n, d)
                cd = D[k].reshape(D[k].shape[0], n, d, n, d)
                for a in range(d):
                    if not (sb[-1, a] > 0 and sd[-1, 0] > 0):
                        continue
                    e = _rel(cb[:, :, a, :, a] / sb[-1, a], cd[:, :, a, :, a] / sd[-1, 0])
                    if not ok(e):
                        bad.append((f"ts0:bd.cov/s_a^2==dense.cov/s^2:{k}", f"relerr={e:.3e}"))
    elif kind == "decoupled":  # TS1: block-diagonal == independent scalar dense solves
        B = run("bd", "ts1_blockdiag")
        if degenerate(B):
            return [("@@degenerate", "zero dynamic scale")]
        set_tolerance(B, True)
        n = q + 1
        sb = scale2_steps(B, scn)
        for a in range(d):
            sub = sub_instance(scn, a)
            S = run("dense", "ts1_dense", inst=sub)
            for k in keys:
                got = B[k].reshape((B[k].shape[0], n, d) + ((n, d) if k.endswith("covs") else ()))
                got = got[:, :, a, :, a] if k.endswith("covs") else got[:, :, a]
                e = _rel(got, S[k])
                if not ok(e):
                    bad.append((f"ts1:bd[dim]==scalar_dense:{k}", f"dimension {a} relerr={e:.3e}"))
            e = _rel(sb[:, a], scale2_steps(S, sub)[:, 0])
            if not ok(e):
                bad.append(("ts1:bd[dim]==scalar_dense:output_scale", f"dimension {a} relerr={e:.3e}"))
    elif kind == "scalarjac":  # TS1, Jacobian = multiple of the identity: isotropic == dense
        D, I = run("dense", "ts1_dense"), run("iso", "ts1_isotropic")
        if degenerate(D):
            return [("@@degenerate", "zero dynamic scale")]
        set_tolerance(D, False)
        same("ts1:iso==dense", I, D, keys)
        e = _rel(scale2_steps(I, scn), scale2_steps(D, scn))
        if not ok(e):
            bad.append(("ts1:iso==dense:output_scale", f"relerr={e:.3e}"))
    else:
        raise ValueError(kind)
    return bad


def gen_scenario(rng, *, kind, q, d, k, nsteps, cal, strategy, float_grid=True):
    """a scenario for the relational replays: any order, any increasing grid (float steps)"""
    for _ in range(20):
        inst = gen_instance(rng, ssm="bd" if kind == "decoupled" else "dense", q=q, d=d, k=k, nsteps=nsteps, cal=cal, lin="ts0", exact=rng.random() < 0.7, kind=None if kind == "general" else kind, simple=True, bound=1e7)
        if inst is None:
            continue
        # no polynomial solutions (zero residual => zero dynamic scale => 0/0 in every factorisation alike)
        if any(inst["c1"][a][a] == 0 and inst["c2"][a] == 0 for a in range(d)):
            continue
        break
    else:
        return None
    if kind in ("general", "scalarjac"):
        inst["lam"] = [F(1)] * d  # default scales
    inst["kind"] = kind
    inst["strategy"] = strategy
    # jet-lifted constraints (two output rows per dimension) with observation damping, where the state can hold them
    if kind in ("general", "decoupled") and q >= k + 1 and rng.random() < 0.4:
        inst["lift"] = 1
        inst["damp"] = rng.choice([F(1, 4), F(1, 2), F(0)])
    t0 = float(inst["t0"])
    steps = [rng.choice([1 / 16, 1 / 8, 3 / 16, 1 / 10, 0.07, 1 / 4]) for _ in range(nsteps)]
    inst["grid"] = [t0 + float(sum(steps[:j])) for j in range(nsteps + 1)]
    inst["h"] = F(0)
    return inst


# ------------------------------------------------------------------ job runner (spawned processes; one jit cache per process)
def _do_job(job):
    try:
        if job["kind"] == "exact":
            return check_exact(job["inst"], job["exp"], ssm=job["ssm"], strategies=tuple(job["strategies"]))
        return check_relational(job["scn"])
    except Exception as e:  # machinery, reported as such by the caller
        import traceback

        return [("@@machinery", f"{type(e).__name__}: {e}\n{traceback.format_exc()[-1500:]}")]


def _do_group(group):
    return [_do_job(j) for j in group]


def run_jobs(jobs, groupkey):
    """run jobs grouped by configuration (jit cache hits) on a pool of spawned processes; -> results in job order"""
    import concurrent.futures as cf
    import multiprocessing as mp

    nproc = int(os.environ.get("VERIF_PROCS", min(12, os.cpu_count() or 1)))
    groups = {}
    for n, j in enumerate(jobs):
        groups.setdefault(groupkey(j), []).append(n)
    order = sorted(groups.values(), key=lambda g: -len(g))
    out = [None] * len(jobs)
    if nproc <= 1 or len(order) <= 1:
        for g in order:
            for n, r in zip(g, _do_group([jobs[n] for n in g])):
                out[n] = r
        return out
    with cf.ProcessPoolExecutor(max_workers=min(nproc, len(order)), mp_context=mp.get_context("spawn")) as ex:
        for g, rs in zip(order, ex.map(_do_group, [[jobs[n] for n in g] for g in order])):
            for n, r in zip(g, rs):
                out[n] = r
    for r in out:
        for what, detail in r:
            if what == "@@machinery":
                raise RuntimeError("replay worker failed: " + detail)
    return out


# ------------------------------------------------------------------ exact instance plans
def plan_exact(rng, *, per_combo, cals_per_combo, ssms=("dense", "iso", "bd"), shapes=SHAPES, kinds=(None,), p_initc=0.15, p_lam_one=0.0, p_diffuse=0.0):
    """instances over ssm x shape x steps x linearisation (x a rotating subset of the calibration modes)"""
    insts = []
    rot = 0
    for ssm in ssms:
        for q, d, k in shapes:
            for nsteps in (1, 2):
                for lin in LIN_OF[ssm]:
                    for c in range(cals_per_combo):
                        cal = CALS[(rot + c) % len(CALS)]
                        # one configuration (exactness, initial constraint) per combo so that its instances share a compilation
                        exact = rng.random() < 0.6
                        initc = (not exact) and rng.random() < p_initc * 2.5
                        # a third of the combinations use diffuse derivatives (one per combination: shared compilation)
                        diffuse = rng.randint(1, q) if (q + 1 - k >= 1 and rng.random() < p_diffuse) else 0
                        for _ in range(per_combo * (2 if nsteps == 2 or q * d >= 4 else 1)):
                            x = gen_instance(rng, ssm=ssm, q=q, d=d, k=k, nsteps=nsteps, cal=cal, lin=lin, exact=exact, initc=initc, kind=rng.choice(list(kinds)), lam_one=rng.random() < p_lam_one, diffuse=diffuse)
                            if x is not None:
                                insts.append(x)
                    rot += cals_per_combo
    return insts


def eval_exact(insts, laws=True):
    from harness import exact as _exact

    return _exact.eval_instances("KalmanExact", [tla_instance(x, laws=laws) for x in insts], invariants=["CheckAndPrint"], batch=6, parallel=14)


def violation_key(inst, ssm, what):
    return f"impl:{ssm}:{inst['lin']}:{inst['cal']}:{what}"


def replay_exact(rep, insts, res, *, strategies_of, cap_per_config=None, tag="kalman"):
    """replay every evaluated instance into its real SSM; book-keeping into the Report"""
    jobs, idx = [], []
    seen = {}
    for j, inst in enumerate(insts):
        if j not in res:
            continue
        strategies = strategies_of(inst)
        cfg = _config(inst, inst["ssm"], "+".join(strategies))
        seen[cfg] = seen.get(cfg, 0) + 1
        if cap_per_config is not None and seen[cfg] > cap_per_config:
            continue
        jobs.append(dict(kind="exact", inst=inst, exp=res[j], ssm=inst["ssm"], strategies=strategies))
        idx.append(j)
    outs = run_jobs(jobs, lambda job: _config(job["inst"], job["ssm"], "+".join(job["strategies"])))
    nbad = 0
    for j, job, bad in zip(idx, jobs, outs):
        inst = job["inst"]
        rep.traces += 1
        rep.add_case((tag, j) if inst["d"] >= 2 or inst["nsteps"] == 2 else None)
        rep.sample({"family": tag, **describe(inst)}, cap=6)
        for what, detail in bad:
            nbad += 1
            rep.violation(
                violation_key(inst, inst["ssm"], what),
                f"{inst['ssm']} q={inst['q']} d={inst['d']} order={inst['k']} steps={inst['nsteps']} {inst['lin']} {inst['cal']} eps={inst['eps']} damp={inst['damp']} initc={inst['initc']}: {what} differs from KalmanExact ({detail})",
                {"instance": describe(inst), "expected": {k: str(v) for k, v in res[j].items()}},
            )
    return len(jobs), nbad


def numeric_c02(rep, tier, seed):
    """C02: exact one- and two-step filter (and fixed-interval smoother) instances, all calibration modes, three SSMs"""
    rng = random.Random(20200 + seed)
    quick = tier == "quick"
    insts = plan_exact(rng, per_combo=1 if quick else 3, cals_per_combo=1 if quick else 5)
    res, dropped, st, gen, fail = eval_exact(insts, laws=not quick)
    rep.states += st
    rep.transitions += gen
    if fail is not None:
        rep.violation(f"spec:KalmanExact:{fail[0].violated}", "KalmanExact law violated", {"tlc_tail": fail[0].stdout[-3000:]})
    # the filter strategy is what C02 is about; two-step instances additionally go through the fixed-interval smoother
    n, _ = replay_exact(rep, insts, res, strategies_of=lambda x: ("filter", "fixedinterval") if x["nsteps"] == 2 and not quick else ("filter",), tag="kalman")
    rep.extra["kalman_exact_instances"] = len(insts)
    rep.extra["kalman_exact_dropped_32bit_or_singular"] = len(dropped)
    rep.extra["kalman_exact_replayed"] = n
    rep.extra["kalman_exact_zero_dynamic_scale"] = sum(1 for j in res if res[j].get("zscale"))
    return n
