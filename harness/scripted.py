"""Scripted (duck-typed) Solver / error estimator / controller wrapper for L0 conformance.

The abstract solver implements exactly the functions SInit/Step/InterpFwd/InterpAtT1 of
spec/AdaptiveLoop.tla on float64 fields; every call logs an event through an ordered callback,
so the real RejectionLoop / solve_adaptive_save_at / controllers are observed without any hook
in /repo.  All numbers are dyadic, hence float64 arithmetic is exact.
"""

from __future__ import annotations

import dataclasses

import jax
import jax.numpy as jnp

jax.config.update("jax_enable_x64", True)

from probdiffeq._probdiffeq import utilities  # noqa: E402

K_INIT, K_STEP, K_INTERP, K_SFB, K_IFB, K_AT, K_SFA, K_IFA = range(8)

FIELDS = ("t", "n", "kind", "a", "b", "src")


@jax.tree_util.register_dataclass
@dataclasses.dataclass
class S:
    """Abstract solver state [t, n, kind, a, b, src] (all float64 scalars)."""

    t: jax.Array
    n: jax.Array
    kind: jax.Array
    a: jax.Array
    b: jax.Array
    src: jax.Array


def _f(x):
    return jnp.asarray(x, dtype=jnp.float64)


def _mk(t, n, kind, a, b, src):
    return S(_f(t), _f(n), _f(kind) + 0.0 * _f(t), _f(a), _f(b), _f(src) + 0.0 * _f(t))


def _vec(s: S):
    return jnp.stack([s.t, s.n, s.kind, s.a, s.b, s.src])


class EventLog:
    """Collects events delivered by ordered callbacks."""

    def __init__(self):
        self.events = []
        self.enabled = True

    def clear(self):
        self.events = []

    def emit(self, name, *arrays):
        if not self.enabled:
            return

        def cb(*vals):
            self.events.append((name, [v.tolist() for v in vals]))

        jax.debug.callback(cb, *[jnp.asarray(a) for a in arrays], ordered=True)


class ScriptedSolver:
    is_suitable_for_save_at = True
    is_suitable_for_save_every_step = True

    def __init__(self, log: EventLog | None):
        self.log = log

    def __repr__(self):
        return "ScriptedSolver()"

    def init(self, t, u, *, damp):
        del u, damp
        return _mk(t, 0.0, K_INIT, t, t, 0.0)

    def step(self, state: S, *, dt, damp):
        del damp
        new = _mk(state.t + dt, state.n + 1.0, K_STEP, state.t, dt, state.kind)
        if self.log is not None:
            self.log.emit("step", _vec(state), _f(dt), _vec(new))
        return new

    def interpolate_fwd(self, *, t, interp_from: S, interp_to: S):
        F, T = interp_from, interp_to
        src = 8.0 * F.kind + T.kind
        sol = _mk(t, T.n, K_INTERP, F.t, T.t, src)
        sf = _mk(T.t, T.n, K_SFB, t, T.t, src)
        ifr = _mk(t, F.n, K_IFB, F.t, T.t, src)
        if self.log is not None:
            self.log.emit("beyond", _f(t), _vec(F), _vec(T))
        return sol, utilities.InterpResult(step_from=sf, interp_from=ifr)

    def interpolate_fwd_at_t1(self, *, t, interp_from: S, interp_to: S):
        F, T = interp_from, interp_to
        src = 8.0 * F.kind + T.kind
        sol = _mk(T.t, T.n, K_AT, F.t, T.t, src)
        sf = _mk(T.t, T.n, K_SFA, F.t, T.t, src)
        ifr = _mk(T.t, F.n, K_IFA, F.t, T.t, src)
        if self.log is not None:
            self.log.emit("at", _f(t), _vec(F), _vec(T))
        return sol, utilities.InterpResult(step_from=sf, interp_from=ifr)

    def userfriendly_output(self, *, solution0, solution, solution1):
        # every leaf gets a leading axis (solve_adaptive_terminal_values indexes [-1] into all leaves)
        all_ = jax.tree_util.tree_map(lambda a, b: jnp.concatenate([a[None], b]), solution0, solution)
        last = jax.tree_util.tree_map(lambda a: a[None], solution1)
        return {"all": all_, "last": last}


class ScriptedError:
    """Error estimator returning a scripted error power as a function of (previous.t, dt).

    The table is passed through the opaque `atol` argument, so one compilation serves all scripts.
    The estimator state is its call counter along the accepted path (the loop must thread it)."""

    def __init__(self, log: EventLog | None, default_ep: float = 1.0):
        self.log = log
        self.default_ep = default_ep

    def init_error(self):
        return jnp.zeros((), dtype=jnp.float64)

    def estimate_error_norm(self, state, previous, proposed, *, dt, atol, rtol, damp):
        del damp
        if not isinstance(atol, tuple):
            # the script travels through `atol`; if the loop hands the tolerances over in another order this is an
            # observable deviation (event "tolerances"), not a harness failure
            if self.log is not None:
                self.log.emit("tolerances", jnp.zeros(()))
            return jnp.asarray(self.default_ep, dtype=jnp.float64), state + 1.0
        del rtol
        tab_t, tab_dt, tab_ep = atol
        match = (tab_t == previous.t) & (tab_dt == dt)
        found = jnp.any(match)
        ep = jnp.sum(jnp.where(match, tab_ep, 0.0))
        ep = jnp.where(found, ep, self.default_ep)
        if self.log is not None:
            self.log.emit("err", _f(state), _vec(previous), _vec(proposed), _f(dt), ep, found)
        return ep, state + 1.0


class LoggedControl:
    """Wraps a *real* controller; logs inputs and outputs of every apply()."""

    def __init__(self, inner, log: EventLog | None):
        self.inner = inner
        self.log = log

    def init(self, dt, /):
        return self.inner.init(dt)

    def apply(self, dt, state, /, *, error_power):
        dt2, state2 = self.inner.apply(dt, state, error_power=error_power)
        if self.log is not None:
            mem_in = jnp.nan if isinstance(state, tuple) else state
            mem_out = jnp.nan if isinstance(state2, tuple) else state2
            self.log.emit("ctrl", _f(dt), _f(mem_in), _f(error_power), _f(dt2), _f(mem_out))
        return dt2, state2


def bounded_while_loop(max_iter: int):
    """A while_loop that gives up after max_iter iterations (so that a mutated loop cannot hang the harness)."""

    def while_loop(cond_fun, body_fun, init):
        def cond(c):
            i, s = c
            return jnp.logical_and(cond_fun(s), i < max_iter)

        def body(c):
            i, s = c
            return i + 1, body_fun(s)

        _, s = jax.lax.while_loop(cond, body, (jnp.zeros((), dtype=jnp.int32), init))
        return s

    return while_loop
