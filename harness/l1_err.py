"""C07 binding: the real error estimators on tracing-SSM states; TLC checks which terms the estimate was built from and
exports the expected squared norm as an exact rational."""

from __future__ import annotations

import itertools
import random
from fractions import Fraction as F

import jax
import jax.numpy as jnp
import numpy as np

from probdiffeq import probdiffeq as pdq

from harness import l1, tracing
from harness.tracing import TR

NORMS = {0: pdq.error_norm_scale_then_rms, 1: pdq.error_norm_rms_then_scale}


def configs(tier, seed):
    rng = random.Random(seed)
    allc = list(itertools.product(
        ("residual", "state"), (0, 1), (False, True), (False, True), ("solver", "mle", "dynamic", "dynamic_relin"), ("filter", "fixedpoint"), (2, 3)))
    rng.shuffle(allc)
    if tier == "quick":
        allc = allc[:40]
    out = []
    for kind, norm, relin, perunit, sv, strat, resorder in allc:
        out.append(dict(kind=kind, norm=norm, relin=relin, perunit=perunit, solver=sv, strategy=strat, resorder=resorder,
                        didx=rng.choice([0, 1, 2]) if kind == "state" else 0,
                        dts=[rng.choice([F(1, 2), F(1), F(2)]) for _ in range(2)],
                        atol=rng.choice([F(1, 8), F(1, 2), F(1, 32)]), rtol=rng.choice([F(1, 8), F(1, 4), F(0)]),
                        initc=rng.random() < 0.3, scalar_std=rng.random() < 0.35))
    return out


def run_config(c):
    """-> (trace, [observed error powers]) : init, two steps, an estimate after each step"""
    TR.reset()
    tracing.STD_SCALAR[0] = bool(c.get("scalar_std", False))
    inner = l1.SOLVERS[c["solver"]](strategy=l1.STRATEGIES[c["strategy"]](), constraint=tracing.TConstraint(0, residual_order=c["resorder"]),
                                    constraint_init=tracing.TConstraint(1) if c["initc"] else None)
    constraint = tracing.TConstraint(0, residual_order=c["resorder"])
    if c["kind"] == "residual":
        est = pdq.error_residual_std(constraint=constraint, error_norm=NORMS[c["norm"]](), re_linearize_before_error=c["relin"], error_per_unit_step=c["perunit"])
    else:
        est = pdq.error_state_std(constraint=constraint, error_norm=NORMS[c["norm"]](), re_linearize_before_error=c["relin"],
                                  derivative_idx=c["didx"], error_per_unit_step=c["perunit"])
    prior = tracing.make_prior(3)
    state = inner.init(jnp.asarray(0.0), prior, damp=0.0)
    es = est.init_error()
    eps = []
    t = F(0)
    for dt in c["dts"]:
        prop = inner.step(state=state, dt=float(dt), damp=0.0)
        TR.marker("err_begin", {"x": jnp.zeros(())})
        ep, es = est.estimate_error_norm(es, previous=state, proposed=prop, dt=float(dt), atol=float(c["atol"]), rtol=float(c["rtol"]), damp=0.0)
        t = t + dt
        ints = [l1.units(float(dt)), l1.units(float(t)), int(c["relin"]), int(c["kind"] == "state"), c["didx"], int(c["perunit"]), c["norm"], c["resorder"],
                c["atol"].numerator, c["atol"].denominator, c["rtol"].numerator, c["rtol"].denominator, int(c.get("scalar_std", False))]
        TR.marker("errnorm", {"prev_u": state.u.mean_flat, "prop_u": prop.u.mean_flat, "prop_fx": prop.fun_evals.A, "ints": jnp.asarray(ints, dtype=jnp.float64)})
        eps.append(float(ep))
        state = prop
    jax.effects_barrier()
    tracing.STD_SCALAR[0] = False
    steps = []
    tt = F(0)
    for dt in c["dts"]:
        steps.append({"t": l1.units(float(tt)), "h": l1.units(float(dt))})
        tt += dt
    hdr = l1._hdr(c["solver"], c["strategy"], c["initc"], steps)
    evs = [e for e in l1.normalise([e for e in TR.events if not (e["op"] == "marker" and e["name"] == "err_begin")])]
    return {"hdr": hdr, "ev": evs, "raw_q": l1.q_factors(TR.events)}, eps
