"""Thin TLC runner: generate MC modules, run TLC under a timeout, parse its counters and PrintT lines."""

from __future__ import annotations

import dataclasses
import json
import os
import re
import shutil
import subprocess
import tempfile
import time
from fractions import Fraction

VERIF = os.path.dirname(os.path.dirname(os.path.abspath(__file__)))
SPEC_DIR = os.path.join(VERIF, "spec")
TLA_JAR = "/opt/veriftools/tla/tla2tools.jar"
TLA_DEPS = "/opt/veriftools/tla/CommunityModules-deps.jar"


class MachineryError(RuntimeError):
    """TLC crashed / timed out / produced unparsable output: a framework bug, never a verdict."""


def tla(v) -> str:
    """Python value -> TLA+ literal."""
    if isinstance(v, TlaRaw):
        return v.text
    if isinstance(v, bool):
        return "TRUE" if v else "FALSE"
    if isinstance(v, int):
        return str(v) if v >= 0 else f"(-{-v})"
    if isinstance(v, Fraction):
        return f"<<{tla(v.numerator)}, {v.denominator}>>"
    if isinstance(v, str):
        return json.dumps(v)
    if isinstance(v, (list, tuple)):
        return "<<" + ", ".join(tla(x) for x in v) + ">>"
    if isinstance(v, (set, frozenset)):
        return "{" + ", ".join(sorted(tla(x) for x in v)) + "}"
    if isinstance(v, dict):
        if not v:
            raise ValueError("empty record")
        return "[" + ", ".join(f"{k} |-> {tla(x)}" for k, x in v.items()) + "]"
    raise TypeError(f"cannot convert {type(v)} to TLA+")


@dataclasses.dataclass(frozen=True)
class TlaRaw:
    text: str


@dataclasses.dataclass
class TlcResult:
    ok: bool  # no invariant/property violation, no error
    violated: str | None  # name of violated invariant/property (or generic error text)
    generated: int
    distinct: int
    depth: int
    prints: list  # decoded PrintT payloads (see parse_prints)
    stdout: str
    wall_s: float
    coverage: dict  # action name -> (count distinct, count total) if -coverage was on
    workdir: str | None = None


_PRINT_RE = re.compile(r'^"@@(\w+) (.*)"$')


def parse_prints(stdout: str) -> list:
    """PrintT("@@TAG " \\o ToJson(x)) lines -> [(tag, obj)]."""
    res = []
    for line in stdout.splitlines():
        m = _PRINT_RE.match(line.strip())
        if not m:
            continue
        tag, body = m.group(1), m.group(2)
        # TLC prints the TLA+ string with \" and \\ escapes
        body = body.replace('\\"', '"').replace("\\\\", "\\")
        try:
            res.append((tag, json.loads(body)))
        except json.JSONDecodeError as e:  # pragma: no cover
            raise MachineryError(f"unparsable PrintT payload: {line[:200]}") from e
    return res


def make_workdir() -> str:
    d = tempfile.mkdtemp(prefix="verif_tlc_")
    for f in os.listdir(SPEC_DIR):
        if f.endswith(".tla"):
            os.symlink(os.path.join(SPEC_DIR, f), os.path.join(d, f))
    return d


def write_model(
    workdir: str,
    name: str,
    extends: str,
    consts: dict,
    *,
    spec: str | None = "Spec",
    init: str | None = None,
    next_: str | None = None,
    invariants=(),
    properties=(),
    constraint: str | None = None,
    action_constraint: str | None = None,
    view: str | None = None,
    check_deadlock: bool = True,
    extra_defs: str = "",
    postcondition: str | None = None,
    extra_extends: str = "",
) -> str:
    """Write MC_<name>.tla/.cfg in workdir; constants are definitions substituted with `<-`."""
    mod = f"MC_{name}"
    lines = [f"---- MODULE {mod} ----", f"EXTENDS {extends}{(', ' + extra_extends) if extra_extends else ''}"]
    cfg = []
    for k, v in consts.items():
        lines.append(f"MCc_{k} == {tla(v)}")
        cfg.append(f"CONSTANT {k} <- MCc_{k}")
    if extra_defs:
        lines.append(extra_defs)
    lines.append("====")
    with open(os.path.join(workdir, mod + ".tla"), "w") as f:
        f.write("\n".join(lines) + "\n")
    if spec:
        cfg.append(f"SPECIFICATION {spec}")
    else:
        cfg.append(f"INIT {init}")
        cfg.append(f"NEXT {next_}")
    for i in invariants:
        cfg.append(f"INVARIANT {i}")
    for p in properties:
        cfg.append(f"PROPERTY {p}")
    if constraint:
        cfg.append(f"CONSTRAINT {constraint}")
    if action_constraint:
        cfg.append(f"ACTION_CONSTRAINT {action_constraint}")
    if view:
        cfg.append(f"VIEW {view}")
    if postcondition:
        cfg.append(f"POSTCONDITION {postcondition}")
    cfg.append(f"CHECK_DEADLOCK {'TRUE' if check_deadlock else 'FALSE'}")
    with open(os.path.join(workdir, mod + ".cfg"), "w") as f:
        f.write("\n".join(cfg) + "\n")
    return mod


_GEN_RE = re.compile(r"(\d+) states generated, (\d+) distinct states found")
_DEPTH_RE = re.compile(r"The depth of the complete state graph search is (\d+)")
_VIOL_INV_RE = re.compile(r"Error: Invariant (\S+) is violated")
_VIOL_PROP_RE = re.compile(r"Error: (?:Action|Temporal) propert(?:y|ies) (?:(\S+) )?(?:is|were) violated")
_COV_RE = re.compile(r"^<(\w+) line \d+, col \d+ to line \d+, col \d+ of module (\w+)>: (\d+):(\d+)")


def run_tlc(
    workdir: str,
    module: str,
    *,
    workers: int | str = 16,
    timeout_s: int = 600,
    simulate: str | None = None,
    depth: int | None = None,
    seed: int | None = None,
    coverage: bool = False,
    env_extra: dict | None = None,
    heap: str = "8g",
    extra_args=(),
    keep: bool = False,
    dfs_queue: bool = False,
) -> TlcResult:
    meta = os.path.join(workdir, "states_" + module)
    # TLC leaves a tlc-* directory per run in java.io.tmpdir: keep them inside the (removed) work directory
    jopts = [f"-Xmx{heap}", "-XX:+UseParallelGC", "-Xss512m", f"-Djava.io.tmpdir={workdir}"]
    if dfs_queue:
        jopts.append("-Dtlc2.tool.queue.IStateQueue=StateDeque")
    cmd = ["java", *jopts, "-cp", f"{TLA_JAR}:{TLA_DEPS}", "tlc2.TLC"]
    cmd += ["-workers", str(workers), "-metadir", meta, "-noGenerateSpecTE", "-config", module + ".cfg"]
    if simulate is not None:
        cmd += ["-simulate", simulate]
    if depth is not None:
        cmd += ["-depth", str(depth)]
    if seed is not None:
        cmd += ["-seed", str(seed)]
    if coverage:
        cmd += ["-coverage", "1"]
    cmd += list(extra_args)
    cmd += [module + ".tla"]
    env = dict(os.environ)
    if env_extra:
        env.update({k: str(v) for k, v in env_extra.items()})
    t0 = time.time()
    # TLC re-evaluates a failing expression with call-stack tracking, which can take forever on nested
    # matrix expressions; an arithmetic overflow is therefore detected on the fly and TLC is stopped.
    # the child appends through its own descriptor; the parent reads through a separate one (a shared
    # descriptor would share the file offset and the parent's seek() would corrupt the child's output)
    out_path = os.path.join(workdir, f"out_{module}.txt")
    outw = open(out_path, "a")
    proc = subprocess.Popen(cmd, cwd=workdir, env=env, stdout=outw, stderr=subprocess.STDOUT, text=True)
    outw.close()
    outf = open(out_path, "r")
    overflow_seen = None
    killed_for_overflow = False
    pos = 0
    try:
        while True:
            try:
                proc.wait(timeout=0.5)
                break
            except subprocess.TimeoutExpired:
                pass
            now = time.time()
            if now - t0 > timeout_s:
                proc.kill()
                proc.wait()
                raise MachineryError(f"TLC timeout after {timeout_s}s on {module}")
            if overflow_seen is None and now - t0 > 1.5:
                outf.seek(pos)
                chunk = outf.read()
                if "Overflow when computing" in chunk:
                    overflow_seen = now
                else:
                    pos = max(0, pos + len(chunk) - 40)
            elif overflow_seen is not None and now - overflow_seen > 2.0:
                proc.kill()
                proc.wait()
                killed_for_overflow = True
                break
        outf.seek(0)
        text = outf.read()
    finally:
        outf.close()

    class _P:
        pass

    p = _P()
    p.stdout, p.stderr = text, ""
    p.returncode = -9 if killed_for_overflow else proc.returncode
    wall = time.time() - t0
    out = p.stdout + "\n" + p.stderr
    gen = dist = 0
    for m in _GEN_RE.finditer(out):
        gen, dist = int(m.group(1)), int(m.group(2))
    depth_found = 0
    m = _DEPTH_RE.search(out)
    if m:
        depth_found = int(m.group(1))
    violated = None
    m = _VIOL_INV_RE.search(out)
    if m:
        violated = m.group(1)
    else:
        m = _VIOL_PROP_RE.search(out)
        if m:
            violated = m.group(1) or "temporal-property"
        elif "Error: Deadlock reached" in out:
            violated = "Deadlock"
        elif "is violated" in out and "Error:" in out:
            violated = "property"
    cov = {}
    if coverage:
        for line in out.splitlines():
            mm = _COV_RE.match(line.strip())
            if mm:
                cov[mm.group(1)] = (int(mm.group(3)), int(mm.group(4)))
    finished = "Model checking completed" in out or "Finished in" in out or simulate is not None
    if violated is None and (p.returncode != 0 or not finished or "Error:" in out):
        if not keep:
            shutil.rmtree(meta, ignore_errors=True)
        err = MachineryError(f"TLC failed on {module} (rc={p.returncode}):\n{_error_excerpt(out)}")
        err.out = out
        raise err
    if not keep:
        shutil.rmtree(meta, ignore_errors=True)
    return TlcResult(
        ok=violated is None,
        violated=violated,
        generated=gen,
        distinct=dist,
        depth=depth_found,
        prints=parse_prints(out),
        stdout=out,
        wall_s=wall,
        coverage=cov,
        workdir=workdir,
    )


def _error_excerpt(out: str) -> str:
    i = out.find("Error:")
    if i < 0:
        return out[-3000:]
    return out[max(0, i - 200) : i + 2500]


def cleanup(workdir: str) -> None:
    shutil.rmtree(workdir, ignore_errors=True)
