"""L1: real solvers x strategies x adaptive loop on the tracing SSM, validated by TLC (TraceProbSolver.tla)."""

from __future__ import annotations

import math
from fractions import Fraction as F

import jax
import jax.numpy as jnp
import numpy as np

jax.config.update("jax_enable_x64", True)

from probdiffeq import ivpsolve  # noqa: E402
from probdiffeq import probdiffeq as pdq  # noqa: E402
from probdiffeq._probdiffeq import estimators_and_losses as eal  # noqa: E402

from harness import l0, scripted, tlc, tracing  # noqa: E402
from harness.tracing import TR  # noqa: E402

UNIT = l0.UNIT


def _ids(sol):
    post = sol.solution_full
    pf = jnp.zeros_like(sol.u.mean_flat)
    if isinstance(post, eal.MarkovSequence):
        pm, pc = post.marginal.mean_flat, post.conditional.A
    elif isinstance(post, eal.SmoothingSolution):
        pm, pc = post.posterior.marginal.mean_flat, post.posterior.conditional.A
        pf = post.filtering.mean_flat  # the filtering distributions a smoother returns next to the smoothing posterior
    else:
        pm, pc = post.mean_flat, jnp.zeros_like(post.mean_flat)
    return dict(u=sol.u.mean_flat, pm=pm, pc=pc, pf=pf, t=sol.t, n=sol.num_steps, scale=sol.output_scale)


class TracedSolver:
    """Delegates to a real ProbabilisticSolver and logs marker events with the ids of what goes in and out."""

    def __init__(self, inner):
        self.inner = inner

    def __repr__(self):
        return f"TracedSolver({self.inner!r})"

    @property
    def is_suitable_for_save_at(self):
        return self.inner.is_suitable_for_save_at

    @property
    def is_suitable_for_save_every_step(self):
        return self.inner.is_suitable_for_save_every_step

    def init(self, t, u, *, damp):
        s = self.inner.init(t, u, damp=damp)
        TR.marker("init", {f"o_{k}": v for k, v in _ids(s).items()})
        return s

    def step(self, state, *, dt, damp):
        s = self.inner.step(state=state, dt=dt, damp=damp)
        TR.marker("step", {**{f"i_{k}": v for k, v in _ids(state).items()}, "dt": dt, **{f"o_{k}": v for k, v in _ids(s).items()}})
        return s

    def interpolate_fwd(self, *, t, interp_from, interp_to):
        sol, res = self.inner.interpolate_fwd(t=t, interp_from=interp_from, interp_to=interp_to)
        TR.marker("interp_beyond", {"t": t, **{f"f_{k}": v for k, v in _ids(interp_from).items()}, **{f"t_{k}": v for k, v in _ids(interp_to).items()},
                                    **{f"o_{k}": v for k, v in _ids(sol).items()}, **{f"sf_{k}": v for k, v in _ids(res.step_from).items()},
                                    **{f"if_{k}": v for k, v in _ids(res.interp_from).items()}})
        return sol, res

    def interpolate_fwd_at_t1(self, *, t, interp_from, interp_to):
        sol, res = self.inner.interpolate_fwd_at_t1(t=t, interp_from=interp_from, interp_to=interp_to)
        TR.marker("interp_at", {"t": t, **{f"f_{k}": v for k, v in _ids(interp_from).items()}, **{f"t_{k}": v for k, v in _ids(interp_to).items()},
                                **{f"o_{k}": v for k, v in _ids(sol).items()}, **{f"sf_{k}": v for k, v in _ids(res.step_from).items()},
                                **{f"if_{k}": v for k, v in _ids(res.interp_from).items()}})
        return sol, res

    def userfriendly_output(self, *, solution0, solution, solution1):
        out = self.inner.userfriendly_output(solution0=solution0, solution=solution, solution1=solution1)
        TR.marker("finalize", {"sol1_pm": _ids(solution1)["pm"], **{f"o_{k}": v for k, v in _ids(out).items()}})
        return out

    def offgrid_marginals(self, t, *, solution):
        return self.inner.offgrid_marginals(t, solution=solution)


SOLVERS = {
    "solver": lambda **kw: pdq.solver(**kw),
    "mle": lambda **kw: pdq.solver_mle(**kw),
    "mle_nocorr": lambda **kw: pdq.solver_mle(correct_asymptotic_underconfidence=False, **kw),
    "dynamic": lambda **kw: pdq.solver_dynamic(**kw),
    "dynamic_relin": lambda **kw: pdq.solver_dynamic(re_linearize_after_calibration=True, **kw),
}
STRATEGIES = {
    "filter": pdq.strategy_filter,
    "fixedpoint": pdq.strategy_smoother_fixedpoint,
    "fixedinterval": pdq.strategy_smoother_fixedinterval,
}


def make_solver(solver, strategy, initc):
    inner = SOLVERS[solver](strategy=STRATEGIES[strategy](), constraint=tracing.TConstraint(0), constraint_init=tracing.TConstraint(1) if initc else None)
    return TracedSolver(inner)


class ScriptedErrorL1:
    """Error estimator scripted by (previous.t, dt) for runs of the *real* probabilistic solvers."""

    def __init__(self, log: scripted.EventLog, default_ep=2.0):
        self.log, self.default_ep = log, default_ep

    def init_error(self):
        return jnp.zeros(())

    def estimate_error_norm(self, state, previous, proposed, *, dt, atol, rtol, damp):
        if not isinstance(atol, tuple):  # tolerances handed over in another order: observable deviation
            self.log.emit("tolerances", jnp.zeros(()))
            return jnp.asarray(self.default_ep, dtype=jnp.float64), state + 1.0
        tab_t, tab_dt, tab_ep = atol
        match = (tab_t == previous.t) & (tab_dt == dt)
        found = jnp.any(match)
        ep = jnp.where(found, jnp.sum(jnp.where(match, tab_ep, 0.0)), self.default_ep)
        self.log.emit("err", state, previous.t, proposed.t, jnp.asarray(dt, dtype=jnp.float64), ep, found)
        return ep, state + 1.0


# ------------------------------------------------------------------ event normalisation for TLC
def units(x) -> int:
    v = x * UNIT
    r = round(v)
    if abs(v - r) > 1e-9:
        raise ValueError(f"time {x} is not representable in model units")
    return int(r)


def scale_code(v: float):
    if v == 1.0:
        return {"typ": "one", "a": 0, "b": 1}
    r = (v - 1.0) * tracing.RMS_DEN
    if r > 0 and abs(r - round(r)) < 1e-9 and r < 1e6:
        return {"typ": "rms", "a": int(round(r)), "b": 1}
    # any other factor: its value is compared in floating point with the exact rational TLC exports (see check_mle)
    return {"typ": "q", "a": 0, "b": 1}


NOSC = {"typ": "none", "a": 0, "b": 1}


def normalise(events):
    out = []
    keys = {}
    for e in events:
        r = {"op": e["op"], "name": "", "out": e.get("out", []), "in": e.get("in", []), "i": [], "sc": NOSC, "aux": [], "aux2": [], "aux3": [], "n": [], "scs": []}
        op = e["op"]
        if op == "marker":
            if e["name"] == "offgrid":
                r["name"] = "offgrid"
                r["in"] = [int(e["id"][0])]
                r["i"] = [units(e["t"][0])]
                out.append(r)
                continue
            if e["name"] == "lml":
                r["name"] = "lml"
                r["i"] = [int(v) for v in e["ints"]]
                out.append(r)
                continue
            if e["name"] == "sample":
                r["name"] = "sample"
                r["in"] = [int(v) for v in e["ids"]]
                out.append(r)
                continue
            if e["name"] == "errnorm":
                r["name"] = "errnorm"
                r["in"] = [int(e["prev_u"][0]), int(e["prop_u"][0]), int(e["prop_fx"][0])]
                r["i"] = [int(v) for v in e["ints"]]
                out.append(r)
                continue
            if e["name"] != "finalize":
                continue  # other markers are used by dedicated checks, not by the generic validator
            r["name"] = "finalize"
            r["in"] = [int(e["sol1_pm"][0])] + [int(v) for v in e["o_u"]]
            r["i"] = [units(t) for t in e["o_t"]]
            r["n"] = [int(v) for v in e["o_n"]]
            r["sc"] = scale_code(float(e["o_scale"][-1]))
            r["aux"] = [int(v) for v in e["o_pc"]] if any(e["o_pc"]) else []
            r["aux2"] = [int(v) for v in e["o_pm"]][:1]
            r["aux3"] = [int(v) for v in np.asarray(e["o_pf"]).reshape(-1)] if np.any(np.asarray(e["o_pf"])) else []
            r["scs"] = [scale_code(float(v)) for v in e["o_scale"]]
        elif op == "marker" and False:
            pass
        elif op == "transition":
            r["in"] = []
            r["i"] = [units(e["sc"][0])]
            r["sc"] = scale_code(e["sc"][1])
        elif op in ("rescale_n", "rescale_c"):
            r["sc"] = scale_code(e["sc"][0])
        elif op == "apply_data":
            r["i"] = [0 if e["sc"][0] == 0.0 else 1]
        elif op == "linearize":
            r["i"] = [units(e["sc"][0]), int(round(e["sc"][1] * 1024)), int(e["sc"][2])]
        elif op == "init":
            r["in"] = []
        elif op in ("marg", "revert", "apply", "merge", "ident"):
            pass
        elif op in ("read_std", "read_mean", "rms", "logpdf"):
            pass
        elif op == "to_derivative":
            # sc = [tcoeff index, sum of the noise std]; the harness encodes the output-time index j as std = j * ones(D)
            r["i"] = [int(e["sc"][0]), int(round(e["sc"][1] / tracing.D))]
        elif op == "sample":
            k = (int(e["sc"][0]), int(e["sc"][1]))
            r["i"] = [keys.setdefault(k, len(keys) + 1), 0]
        else:
            # logpdf, sample, to_derivative: no term is created by the generic validator
            if e.get("out"):
                r["op"] = "opaque"
            else:
                continue
        out.append(r)
    return out


def q_factors(events):
    """raw values of all factors that are neither one nor an RMS value: (reported final scale, [rescaling factors])"""
    reported, rescales = None, []
    for e in events:
        if e["op"] in ("rescale_n", "rescale_c") and scale_code(e["sc"][0])["typ"] == "q":
            rescales.append(float(e["sc"][0]))
        if e["op"] == "transition" and scale_code(e["sc"][1])["typ"] == "q":
            rescales.append(float(e["sc"][1]))
        if e["op"] == "marker" and e.get("name") == "finalize":
            reported = float(e["o_scale"][-1])
    return reported, rescales


def check_mle(trace, mle_print):
    """-> problem string or '' : the reported scale and every calibration factor equal TLC's exact quasi-MLE"""
    reported, rescales = trace["raw_q"]
    want = mle_print["sumsq"] / mle_print["den"] / tracing.RMS_DEN**2
    if reported is None or abs(reported * reported - want) > 1e-10 * want:
        return f"finalize: the reported output scale is not the quasi-MLE of the accepted data (reported {reported!r}; exact scale^2 = {mle_print['sumsq']}/({mle_print['den']} * 1024^2) = {want!r})"
    for f in rescales:
        if abs(f - reported) > 1e-12 * abs(reported):
            return f"calibration: a marginal or conditional was not rescaled by the reported scale ({f!r} vs {reported!r})"
    return ""


def accepted_steps(err_events):
    """accepted (t_from, h) in order, from the scripted estimator's own log (ep >= 1 <=> accepted)"""
    steps = []
    for name, vals in err_events:
        if name != "err":
            continue
        _e_in, prev, _prop, dt, ep, _found = vals
        if ep >= 1.0:
            steps.append({"t": units(prev), "h": units(dt)})
    return steps


def validate(traces, timeout_s=900):
    """traces: list of {hdr, ev}; -> list of verdict dicts (tid, ok, at, why) + TLC result"""
    wd = tlc.make_workdir()
    try:
        tl = [{"hdr": t["hdr"], "ev": t["ev"]} for t in traces]
        mod = tlc.write_model(wd, "tr", "TraceProbSolver", {"Traces": tl, "T0": 0}, check_deadlock=False)
        res = tlc.run_tlc(wd, mod, workers=1, timeout_s=timeout_s, heap="4g")
    finally:
        tlc.cleanup(wd)
    verdicts = {obj["tid"]: obj for tag, obj in res.prints if tag == "VERDICT"}
    mles = {obj["tid"]: obj for tag, obj in res.prints if tag == "MLE"}
    res.lml = {}
    for tag, obj in res.prints:
        if tag == "LML":
            res.lml.setdefault(obj["tid"], []).append(obj)
    out = []
    for i, tr in enumerate(traces):
        v = verdicts.get(i + 1)
        if v is not None and v["ok"] and tr["hdr"]["solver"] == "mle" and "raw_q" in tr and any(e["name"] == "finalize" for e in tr["ev"]):
            if (i + 1) not in mles:
                v = dict(v, ok=False, why="finalize: no quasi-MLE exported for an MLE run")
            else:
                why = check_mle(tr, mles[i + 1])
                if why:
                    v = dict(v, ok=False, why=why, at=len(tr["ev"]) + 1)
        out.append(v)
    return out, res


# ------------------------------------------------------------------ running the real code on the tracing SSM
from probdiffeq.util import test_util  # noqa: E402


def _hdr(solver_name, strat, initc, steps):
    return dict(
        solver="mle" if solver_name.startswith("mle") else solver_name,
        strategy=strat,
        initc=initc,
        corr=solver_name != "mle_nocorr",
        steps=steps,
        nsteps=len(steps),
    )


class ToleranceOrderError(Exception):
    pass


class L1Runner:
    """One (configuration, solver, strategy, mode): runs scripted histories through the real code on the tracing SSM."""

    def __init__(self, cfg, solver_name, strat, initc, mode="save_at", jit=True, n=3):
        self.cfg, self.solver_name, self.strat, self.initc, self.mode, self.n = cfg, solver_name, strat, initc, mode, n
        self.log = scripted.EventLog()
        self.solver = make_solver(solver_name, strat, initc)
        err = ScriptedErrorL1(self.log)
        ctrl = l0.real_control(cfg) if mode != "fixed_grid" else None
        self.save_at = jnp.asarray([c / UNIT for c in cfg["Ckpts"]])
        dt0, eps = cfg["Dt0"] / UNIT, cfg["Eps"] / UNIT
        wl = scripted.bounded_while_loop(200)
        import warnings

        with warnings.catch_warnings():
            warnings.simplefilter("ignore")
            if mode == "save_at":
                solve = ivpsolve.solve_adaptive_save_at(solver=self.solver, error=err, control=ctrl, clip_dt=cfg["Clip"], while_loop=wl)
                fn = lambda prior, table: solve(prior, save_at=self.save_at, atol=table, rtol=0.0, dt0=dt0, eps=eps)  # noqa: E731
            elif mode == "terminal":
                solve = ivpsolve.solve_adaptive_terminal_values(solver=self.solver, error=err, control=ctrl, clip_dt=cfg["Clip"], while_loop=wl)
                fn = lambda prior, table: solve(prior, t0=self.save_at[0], t1=self.save_at[-1], atol=table, rtol=0.0, dt0=dt0, eps=eps)  # noqa: E731
            elif mode == "every_step":
                solve = test_util.solve_adaptive_save_every_step(self.solver, err, control=ctrl, clip_dt=cfg["Clip"])
                fn = lambda prior, table: solve(prior, self.save_at[0], self.save_at[-1], atol=table, rtol=0.0, dt0=dt0, eps=eps)  # noqa: E731
                jit = False
            elif mode == "fixed_grid":
                solve = ivpsolve.solve_fixed_grid(solver=self.solver)
                fn = lambda prior, table: solve(prior, grid=self.save_at)  # noqa: E731
            else:
                raise ValueError(mode)
        self.fn = jax.jit(fn) if jit else fn
        self.offgrid = jax.jit(lambda t, sol: self.solver.offgrid_marginals(t, solution=sol))

    def run(self, beh=None, offgrid_times=(), consumers=()):
        """-> trace dict {hdr, ev} (+ the solution object); consumers: list of dicts for consume_posterior"""
        TR.reset()
        self.log.clear()
        prior = tracing.make_prior(self.n)
        if beh is not None:
            table = tuple(jnp.asarray(x) for x in l0.script_table(beh))
        else:
            table = tuple(jnp.asarray(x) for x in (np.full(l0.TABLE, -1.0), np.full(l0.TABLE, -1.0), np.zeros(l0.TABLE)))
        sol = self.fn(prior, table)
        jax.effects_barrier()
        for t in offgrid_times:
            est = self.offgrid(jnp.asarray(t / UNIT), sol)
            TR.marker("offgrid", {"t": jnp.asarray(t / UNIT), "id": est.mean_flat})
            jax.effects_barrier()
        self.consumed = [consume_posterior(self, sol, **c) for c in consumers]
        if any(name == "tolerances" for name, _ in self.log.events):
            raise ToleranceOrderError("the adaptive driver did not pass atol / rtol to the error estimator in the documented order")
        if self.mode == "fixed_grid":
            ck = self.cfg["Ckpts"]
            steps = [{"t": ck[i], "h": ck[i + 1] - ck[i]} for i in range(len(ck) - 1)]
        else:
            steps = accepted_steps(self.log.events)
        return {"hdr": _hdr(self.solver_name, self.strat, self.initc, steps), "ev": normalise(TR.events), "raw_q": q_factors(TR.events)}, sol


def consume_posterior(runner, sol, *, what, tcoeff_index=0, average=True, key=None):
    """run a consumer of the finalised posterior on the tracing objects; appends events + a marker to TR; -> returned value"""
    post = sol.solution_full.posterior
    n_out = int(np.shape(sol.t)[0])
    if what == "lml":
        models = [post.marginal.to_derivative(tcoeff_index, jnp.full((tracing.D,), float(j + 1))) for j in range(n_out)]
        model = jax.tree_util.tree_map(lambda *xs: jnp.stack(xs), *models)
        u = jnp.ones((n_out, tracing.D))
        val = post.evaluate_lml([u], model=model, average_pdfs=average, solve_triu=None)
        TR.marker("lml", {"ints": jnp.asarray([n_out, int(average), tcoeff_index], dtype=jnp.float64)})
        jax.effects_barrier()
        return float(val)
    if what == "sample":
        smp = post.sample(key if key is not None else jax.random.PRNGKey(0))
        ids = jnp.concatenate([jnp.ravel(x) for x in jax.tree_util.tree_leaves(smp)])
        TR.marker("sample", {"ids": ids})
        jax.effects_barrier()
        return None
    raise ValueError(what)


def validate_parallel(traces, chunk=12, nproc=8, timeout_s=1200):
    """split traces over several TLC processes; -> (verdicts aligned with traces, states, generated)"""
    import concurrent.futures as cf

    chunks = [traces[i : i + chunk] for i in range(0, len(traces), chunk)]
    verdicts, states, gen = [], 0, 0
    with cf.ThreadPoolExecutor(max_workers=nproc) as ex:
        for ver, res in ex.map(lambda c: validate(c, timeout_s=timeout_s), chunks):
            verdicts += ver
            states += res.distinct
            gen += res.generated
    return verdicts, states, gen
