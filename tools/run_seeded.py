#!/venv/bin/python
"""Run checks against the confirmed seeded changes in /verif/seeded/<name>/.

For every seeded change a scratch worktree of /repo's HEAD is created outside /repo and /verif, the patch is applied there,
the listed checks (meta.json "checks", default: the property's own check) are run with VERIF_REPO pointing at it, and
the worktree is removed again.  /repo itself is never touched.  Results go to seeded/RESULTS.json.

usage: tools/run_seeded.py [name ...] [--tier quick] [--checks C06,C05]
"""

import argparse
import json
import os
import subprocess
import sys
import tempfile
import time

VERIF = os.path.dirname(os.path.dirname(os.path.abspath(__file__)))


def sh(cmd, **kw):
    return subprocess.run(cmd, shell=True, capture_output=True, text=True, **kw)


def main():
    ap = argparse.ArgumentParser()
    ap.add_argument("names", nargs="*")
    ap.add_argument("--tier", default="quick")
    ap.add_argument("--checks", default=None)
    args = ap.parse_args()
    root = os.path.join(VERIF, "seeded")
    names = args.names or sorted(d for d in os.listdir(root) if os.path.isdir(os.path.join(root, d)))
    res_path = os.path.join(root, "RESULTS.json")
    results = json.load(open(res_path)) if os.path.exists(res_path) else {}
    for name in names:
        d = os.path.join(root, name)
        meta = json.load(open(os.path.join(d, "meta.json")))
        checks = args.checks.split(",") if args.checks else meta.get("checks", [meta["property"]])
        wt = tempfile.mkdtemp(prefix="seeded_wt_")
        os.rmdir(wt)
        r = sh(f"git -C /repo worktree add -q {wt} HEAD")
        if r.returncode:
            print("worktree failed", r.stderr)
            sys.exit(2)
        try:
            r = sh(f"git -C {wt} apply {os.path.join(d, 'patch.diff')}")
            if r.returncode:
                print(f"{name}: patch does not apply: {r.stderr}")
                results[name] = {"error": "patch does not apply on HEAD"}
                continue
            out = {}
            for c in checks:
                t0 = time.time()
                p = sh(f"VERIF_REPO={wt} ./check {c} --tier {args.tier}", cwd=VERIF)
                keys = [l.strip().split(":", 1)[0] if False else l.strip() for l in p.stdout.splitlines() if l.startswith("  ") and ":" in l]
                viol = [l for l in p.stdout.splitlines() if l.startswith("VIOLATION")]
                out[c] = {"exit": p.returncode, "violations": len(viol), "first": keys[:3], "wall_s": round(time.time() - t0, 1)}
                print(f"{name}: {c} exit={p.returncode} violations={len(viol)} {keys[:1]}")
            results[name] = {"property": meta["property"], "summary": meta.get("summary", ""), "checks": out,
                             "detected_by": [c for c, o in out.items() if o["exit"] == 1]}
        finally:
            sh(f"git -C /repo worktree remove --force {wt}")
            sh(f"rm -rf {os.path.join(VERIF, 'replays')}/*.json")
        json.dump(results, open(res_path, "w"), indent=1)


if __name__ == "__main__":
    main()
