#!/usr/bin/env python3
import json, sys, glob, jsonschema
m = json.load(open('/verif/MANIFEST.json'))
jsonschema.validate(m, json.load(open('/root/.vp/MANIFEST.schema.json')))
es = json.load(open('/root/.vp/EVIDENCE.schema.json'))
for f in sorted(glob.glob('/verif/evidence/*.json')):
    jsonschema.validate(json.load(open(f)), es)
    print("ok", f)
print("manifest ok:", len(m["checks"]), "checks")
