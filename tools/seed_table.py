#!/venv/bin/python
"""print the markdown table of seeded changes (seeded/RESULTS.json + meta.json) for DESIGN.md"""
import json, os
VERIF = os.path.dirname(os.path.dirname(os.path.abspath(__file__)))
res = json.load(open(os.path.join(VERIF, "seeded", "RESULTS.json")))
print("| seeded change | breaks | what it changes (needs to manifest) | detected by | first alarm |")
print("|---|---|---|---|---|")
for name in sorted(res):
    r = res[name]
    meta = json.load(open(os.path.join(VERIF, "seeded", name, "meta.json")))
    summ = meta.get("summary", "").replace("|", "/")
    summ = summ[:200] + ("..." if len(summ) > 200 else "")
    first = ""
    for c in r.get("detected_by", []):
        f = r["checks"][c].get("first")
        if isinstance(f, list):
            f = f[0] if f else ""
        first = str(f).split(": ")[0].strip("['\"")[:90]
        break
    note = f" ({r['note']})" if r.get("note") else ""
    print(f"| {name} | {r['property']} | {summ} | {', '.join(r.get('detected_by', [])) or 'none'}{note[:160]} | `{first}` |")
