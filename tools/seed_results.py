#!/venv/bin/python
"""merge 'name: Cxx exit=E violations=N [...]' lines of run_seeded logs into seeded/RESULTS.json and record confirmation in meta.json"""
import glob, json, os, re, sys
VERIF = os.path.dirname(os.path.dirname(os.path.abspath(__file__)))
res_path = os.path.join(VERIF, "seeded", "RESULTS.json")
results = json.load(open(res_path)) if os.path.exists(res_path) else {}
for log in sys.argv[1:]:
    for line in open(log):
        m = re.match(r"^(\w+): (C\d+) exit=(\d+) violations=(\d+) (.*)$", line.strip())
        if not m:
            continue
        name, chk, ex, nv, first = m.group(1), m.group(2), int(m.group(3)), int(m.group(4)), m.group(5)
        if not os.path.exists(os.path.join(VERIF, "seeded", name, "meta.json")):
            continue  # a proposal that was not kept (duplicate of another seed)
        meta = json.load(open(os.path.join(VERIF, "seeded", name, "meta.json")))
        r = results.setdefault(name, {"property": meta["property"], "summary": meta.get("summary", ""), "checks": {}})
        r.setdefault("checks", {})[chk] = {"exit": ex, "violations": nv, "first": first[:300]}
        r["detected_by"] = sorted(c for c, o in r["checks"].items() if o["exit"] == 1)
for f in glob.glob("/tmp/seed/confirm_*.txt"):
    name = os.path.basename(f)[len("confirm_"):-4]
    mp = os.path.join(VERIF, "seeded", name, "meta.json")
    if not os.path.exists(mp):
        continue
    txt = open(f).read()
    if "pytest_exit=" not in txt:
        continue  # confirmation still running
    meta = json.load(open(mp))
    meta["confirmed"] = {
        "how": "tools/confirm_seed.sh in a scratch worktree of /repo HEAD: demo without the change, git apply, demo with the change, full repository test-suite with the change",
        "demo_without_change_exit": int(re.search(r"demo_without_change_exit=(\d+)", txt).group(1)),
        "demo_with_change_exit": int(re.search(r"demo_with_change_exit=(\d+)", txt).group(1)),
        "pytest_exit": int(re.search(r"pytest_exit=(\d+)", txt).group(1)),
        "pytest_summary": txt.strip().splitlines()[-1][:120],
    }
    json.dump(meta, open(mp, "w"), indent=1)
json.dump(results, open(res_path, "w"), indent=1)
for k, v in sorted(results.items()):
    print(k, v["property"], "detected_by", v.get("detected_by"), {c: o["exit"] for c, o in v["checks"].items()})
