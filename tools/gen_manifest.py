#!/venv/bin/python
"""Regenerate MANIFEST.json from the table below (single source of truth for the interface)."""

import json
import os

VERIF = os.path.dirname(os.path.dirname(os.path.abspath(__file__)))

CHECKS = {
    "C06": dict(
        engine="scripted-loop",
        technique="TLC model checking of AdaptiveLoop.tla + replay of TLC behaviours through the real loop (spec->code) + TLC trace validation of real solves (code->spec)",
        text=(
            "TLC explores every accept/reject history of the explicit TLA+ model of the rejection loop, the "
            "checkpoint scan, both controllers, clipping and the three-way interpolation switch (exhaustive within "
            "the attempt bound; invariants, action properties and termination under fairness). The model is bound to "
            "the implementation by replaying TLC-generated behaviours through the real RejectionLoop / "
            "solve_adaptive_save_at / terminal-values / save-every-step / fixed-grid drivers and the real "
            "controllers with a scripted solver, comparing every event exactly (dyadic arithmetic)."
        ),
        design_ref="DESIGN.md 3.1, 4 (C06)",
        note=(
            "Trusted: TLC; the 40-line scripted solver/estimator mirrors SInit/Step/InterpFwd/InterpAtT1 of the spec. "
            "Bounded: <= MaxAtt attempts, curated layouts/profiles/controller parameters with integer exponents; "
            "non-dyadic arithmetic identities on real runs are checked as order properties only."
        ),
    ),
    "C08": dict(
        engine="exact-replay",
        technique="TLC exact evaluation of GaussExact.tla (joint-moment definitions + algebraic laws as invariants) and replay of every instance into the three real factorisations",
        text=(
            "GaussExact.tla defines marginalisation, reversal, composition, application, preconditioner removal, "
            "rescaling, log-density and whitened residuals by joint moments over the rationals; TLC evaluates the "
            "definitions exactly on each integer instance (states = instances), checks Chapman-Kolmogorov, total "
            "variance, symmetry, rescaling and the dense-embedding law of the isotropic/block-diagonal models as "
            "invariants, and exports the expected moments. Every instance is replayed into the real Dense/Isotropic/"
            "BlockDiag classes (about 40 operations, unbatched and vmapped) and compared at 1e-9."
        ),
        design_ref="DESIGN.md 3.3, 4 (C08)",
        note=(
            "Trusted: TLC's exact integer arithmetic (overflow raises), the 1e-9 comparison. Bounded: |entries| <= 3, n <= 4, "
            "d <= 3, scalings 2^-8..2^8; instances overflowing 32 bits are dropped and counted. Ill-conditioning beyond that is rounding, not algebra."
        ),
    ),
    "C09": dict(
        engine="exact-replay",
        technique="TLC exact evaluation of IwpExact.tla / ExpGramExact.tla (closed forms + semigroup, Chapman-Kolmogorov, Lyapunov laws as invariants) and replay into the real priors and gram_util",
        text=(
            "IwpExact.tla defines the Taylor/Pascal transition and Hilbert-type process noise of the integrated Wiener "
            "process, ExpGramExact.tla the matrix exponential and finite-horizon Gramian of nilpotent drifts as finite "
            "rational sums; TLC evaluates them exactly per instance and checks the semigroup law, Chapman-Kolmogorov, "
            "linearity in the output scale, the integral definition and the Lyapunov identity as invariants. Every "
            "instance is replayed into the dense/isotropic/block-diagonal Wiener priors (transition, preconditioner "
            "removal, merge), the dense exponential / integrated-OU priors and exp_gram_cholesky with all five "
            "Pade/Legendre orders in float64 and float32."
        ),
        design_ref="DESIGN.md 3.3, 4 (C09)",
        note=(
            "Trusted: TLC's range-checked rational arithmetic (Rat.tla), tolerances 1e-9 / 1e-11 (float64), 2e-4 (float32). "
            "Not covered: drifts with non-zero spectrum (OU with a rate, Matern) - transcendental, no exact model; q <= 6, n*d <= 6."
        ),
    ),
    "C03": dict(
        engine="tracing-ssm",
        technique="TLC trace validation (TraceProbSolver.tla over the GaussTerms.tla term algebra) of operation logs recorded from the real smoother code on a tracing state-space model; step histories from TLC behaviours of AdaptiveLoop.tla",
        text=(
            "The real solvers, Smoother.finalize, both smoother strategies, solve_fixed_grid and the adaptive drivers run on a "
            "tracing SSM whose operations emit ordered events; TLC interprets the log with the explicit term algebra "
            "(marginals as time + information history, backward conditionals, partial operations with domain checks) and "
            "accepts a run only if every output marginal is the marginal at its time given all accepted data, the stored "
            "conditionals are the backward conditionals between consecutive outputs, and the terminal marginal is the "
            "filtering marginal. Histories: fixed grids, TLC-generated accept/reject behaviours for save-every-step and "
            "checkpointed runs. Plus relational replays on the three real SSMs (final smoothed = filtered, variance "
            "monotonicity, fixed-point = fixed-interval at shared times)."
        ),
        design_ref="DESIGN.md 3.2, 4 (C03), Appendix A",
        note=(
            "Trusted: TLC, the tracing SSM (harness/tracing.py: ids + scripted scalars), term normal forms standing for "
            "distributions (Chapman-Kolmogorov, Markov property). Multi-step numerics by composition with C08/C09 plus sampled replays."
        ),
    ),
    "C05": dict(
        engine="tracing-ssm",
        technique="TLC trace validation of real-code operation logs against GaussTerms/TraceProbSolver for superset/subset checkpoint pairs driven by the same TLC-generated accept/reject history; AdaptiveLoop.tla supplies the histories",
        text=(
            "For every TLC-generated accept/reject history the real adaptive loop and solver code run on the tracing SSM with a "
            "checkpoint superset and a subset; TLC accepts a run only if each emitted value is the posterior at its time given "
            "exactly the accepted steps (filter: prediction from the preceding state with the overstepping step's scale, also "
            "through several checkpoints inside one step; fixed-point: all data, conditional between consecutive checkpoints), "
            "which depends on the step history only; the accepted step sequences of the pair must coincide. The terminal-value "
            "routine and off-grid marginals of save-every-step runs are held to the same terms. Relational float replays on the real SSMs."
        ),
        design_ref="DESIGN.md 4 (C05)",
        note="Trusted as C03. Clipping off for pairs (as the property states). Float replays sampled at 1e-7.",
    ),
    "C02": dict(
        engine="tracing-ssm",
        technique="TLC trace validation (TraceProbSolver.tla / GaussTerms.tla) of operation logs of the real filter code on the tracing SSM + exact KalmanExact.tla instances replayed into the real SSMs",
        text=(
            "TLC accepts the operation log of a run of the real solver/solver_mle/solver_dynamic x strategy_filter only if the "
            "final filtering state carries exactly the accepted-step history: every step predicted with the unit-scale (dynamic: "
            "the just-estimated) transition from the previous posterior, linearised at the predicted mean at the step's end time "
            "(dynamic without re-linearisation: at the mean-only extrapolation), updated with exactly that linearisation, initial "
            "constraint applied when configured, outputs equal to those terms. Histories: fixed grids and TLC-generated adaptive "
            "behaviours. KalmanExact.tla adds one- and two-step instances end to end in exact rationals for all calibration modes."
        ),
        design_ref="DESIGN.md 3.2, 3.3, 4 (C02)",
        note="Trusted as C03. Per-operation numerics are C08/C09/C11; precision loss at high order / tiny steps is floating point and not covered; end-to-end exact instances only for q <= 2 and <= 2 steps.",
    ),
    "C04": dict(
        engine="tracing-ssm",
        technique="TLC trace validation with exact rational check of the reported quasi-MLE / dynamic scales (TraceProbSolver.tla) + equivariance replays on the real SSMs",
        text=(
            "With scripted, uniquely identifiable whitened-residual RMS values the reported MLE scale must equal, as an exact "
            "rational checked by TLC, the root mean square over the data of the accepted steps (with/without the 1/sqrt(N) "
            "correction, including the initial-constraint datum); every returned marginal and conditional must carry the "
            "calibration tag exactly once; dynamic scales must be the RMS of the observed unit-scale mean-only extrapolation "
            "from the previous posterior, used by that step's transitions (also when interpolating) and reported per output; "
            "uncalibrated runs report one. Equivariance under base scales c = 2^k is replayed on the three real SSMs."
        ),
        design_ref="DESIGN.md 4 (C04)",
        note="Trusted as C03; the numerical value of a whitened residual RMS is decided under C08. Equivariance replays sampled (powers of two, 1e-7..1e-9).",
    ),
    "C07": dict(
        engine="tracing-ssm",
        technique="TLC trace validation (TraceProbSolver.ErrnormExpect) of the real error estimators on tracing-SSM states, with the squared norm exported by TLC as an exact rational",
        text=(
            "The real error_residual_std / error_state_std with both norm functions run on tracing-SSM states produced by the real "
            "solvers. TLC accepts an estimate only if the error was read from the std of the observed mean-only, unit-scale "
            "extrapolation of the previous state (rescaled by its own whitened RMS, resp. the conditional std of the selected "
            "coefficient times that RMS), with the cached or re-evaluated linearisation exactly as configured and the reference "
            "taken from the previous and the proposed mean; TLC computes the squared tolerance-weighted norm (dt^n/n!, "
            "per-unit-step, derivative index, both norms) exactly from the scripted scalars and the harness compares "
            "error_power^(-2(q+1)) with it. Base-scale invariance is replayed on the three real SSMs."
        ),
        design_ref="DESIGN.md 4 (C07)",
        note="Trusted: TLC, tracing SSM with scripted std/mean/RMS values; their numerical values on real models are C08. Estimates whose exact value leaves 32 bits are dropped and counted.",
    ),
}

NOT_APPLICABLE = {
    "C01": "accuracy vs. the true ODE solution and an asymptotic convergence order are statements of real analysis, not of a state machine; no exact small-instance model exists (DESIGN.md 6). The control-plane mechanism it rests on is decided under C06.",
    "C16": "derivatives are produced by a program transformation (JAX AD) of floating-point code; a TLA+ specification has no notion of differentiation (DESIGN.md 6).",
}

NOT_YET = "not claimed yet: the specification/conformance check for this property is still being built (see DESIGN.md build order)"

ENGINES = [
    dict(name="tlc", path="harness/tlc.py", kind_free_text="TLC runner: generated MC modules, counters, PrintT/ToJson behaviour export"),
    dict(name="exact-replay", path="harness/exact.py", kind_free_text="TLC as exact rational evaluator of the L2 specifications; instances replayed into the real numerical classes"),
    dict(name="tracing-ssm", path="harness/tracing.py", kind_free_text="fake AbstractTreeNormal/LatentCond/Prior/Linearization emitting ordered op events; real solver code runs on it; logs validated by TLC (harness/l1.py)"),
    dict(name="scripted-loop", path="harness/l0.py", kind_free_text="AdaptiveLoop.tla behaviours replayed through the real adaptive loop with a scripted solver"),
]


def main():
    props = [json.loads(l)["id"] for l in open(os.path.join(VERIF, "properties.jsonl"))]
    checks = []
    for pid in props:
        if pid not in CHECKS:
            continue
        c = CHECKS[pid]
        checks.append(
            dict(
                property_id=pid,
                quick_cmd=f"./check {pid} --tier quick",
                thorough_cmd=f"./check {pid} --tier thorough",
                evidence_file=f"evidence/{pid}.json",
                replay_cmd_template=f"./check {pid} --replay {{path}}",
                engine=c["engine"],
                level_claimed=dict(category=c.get("category", "model_checking"), text=c["text"], design_ref=c["design_ref"]),
                level_note=c["note"],
                technique=c["technique"],
            )
        )
    na = []
    for pid in props:
        if pid in CHECKS:
            continue
        na.append(dict(property_id=pid, reason=NOT_APPLICABLE.get(pid, NOT_YET)))
    engines = []
    for e in ENGINES:
        e = dict(e)
        e["serves_properties"] = [p for p in props if p in CHECKS and (e["name"] == "tlc" or CHECKS[p]["engine"] == e["name"])]
        engines.append(e)
    man = dict(
        version=1,
        setup_cmd="./setup.sh",
        hooks=dict(
            guard="PROBDIFFEQ_VERIF",
            enable="no hooks in /repo: all instrumentation is harness-side (duck-typed solver, subclassed SSM, injected while_loop); the guard name is reserved and unused",
            baseline_off_cmd="cd /repo && /venv/bin/python -m pytest -ra -q -p no:cacheprovider --timeout=900 --continue-on-collection-errors",
            source_commits=[],
            add_only=True,
        ),
        engines=engines,
        checks=checks,
        not_applicable=na,
        notes="Genuine defects repaired in /repo are listed in known_findings.json ('fixed'); see DESIGN.md 5.",
    )
    with open(os.path.join(VERIF, "MANIFEST.json"), "w") as f:
        json.dump(man, f, indent=1)
    print(f"MANIFEST.json: {len(checks)} checks, {len(na)} not_applicable")


if __name__ == "__main__":
    main()
