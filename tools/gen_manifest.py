#!/venv/bin/python
"""Regenerate MANIFEST.json from the table below (single source of truth for the interface)."""

import json
import os

VERIF = os.path.dirname(os.path.dirname(os.path.abspath(__file__)))

CHECKS = {
    "C06": dict(
        engine="scripted-loop",
        technique="TLC model checking of AdaptiveLoop.tla + replay of TLC behaviours through the real loop (spec->code) + TLC trace validation of real solves (code->spec) + Apalache inductive invariant of the refined abstraction LoopGeometry.tla",
        text=(
            "TLC explores every accept/reject history of the explicit TLA+ model of the rejection loop, the "
            "checkpoint scan, both controllers, clipping and the three-way interpolation switch (exhaustive within "
            "the attempt bound; invariants, action properties and termination under fairness). The model is bound to "
            "the implementation by replaying TLC-generated behaviours through the real RejectionLoop / "
            "solve_adaptive_save_at / terminal-values / save-every-step / fixed-grid drivers and the real "
            "controllers with a scripted solver, comparing every event exactly (dyadic arithmetic). The save_at "
            "geometry (no extrapolation, reports at their checkpoint, clip never overshoots) is additionally proved "
            "for every layout/eps/attempt count by an inductive invariant of spec/LoopGeometry.tla (Apalache), which "
            "AdaptiveLoop.tla refines (checked by TLC on every save_at configuration)."
        ),
        design_ref="DESIGN.md 3.1, 4 (C06), 11.2",
        note=(
            "Trusted: TLC; the 40-line scripted solver/estimator mirrors SInit/Step/InterpFwd/InterpAtT1 of the spec. "
            "Bounded: <= MaxAtt attempts, curated layouts/profiles/controller parameters with integer exponents; "
            "non-dyadic arithmetic identities on real runs are checked as order properties only."
        ),
    ),
    "C08": dict(
        engine="exact-replay",
        technique="TLC exact evaluation of GaussExact.tla (joint-moment definitions + algebraic laws as invariants) and replay of every instance into the three real factorisations",
        text=(
            "GaussExact.tla defines marginalisation, reversal, composition, application, preconditioner removal, "
            "rescaling, log-density and whitened residuals by joint moments over the rationals; TLC evaluates the "
            "definitions exactly on each integer instance (states = instances), checks Chapman-Kolmogorov, total "
            "variance, symmetry, rescaling and the dense-embedding law of the isotropic/block-diagonal models as "
            "invariants, and exports the expected moments. Every instance is replayed into the real Dense/Isotropic/"
            "BlockDiag classes (about 40 operations, unbatched and vmapped) and compared at 1e-9."
        ),
        design_ref="DESIGN.md 3.3, 4 (C08)",
        note=(
            "Trusted: TLC's exact integer arithmetic (overflow raises), the 1e-9 comparison. Bounded: |entries| <= 3, n <= 4, "
            "d <= 3, scalings 2^-8..2^8; instances overflowing 32 bits are dropped and counted. Ill-conditioning beyond that is rounding, not algebra."
        ),
    ),
    "C09": dict(
        engine="exact-replay",
        technique="TLC exact evaluation of IwpExact.tla / ExpGramExact.tla / MaternExact.tla / OuExact.tla (closed forms + semigroup, Chapman-Kolmogorov, Lyapunov laws as invariants) and replay into the real priors and gram_util",
        text=(
            "IwpExact.tla defines the Taylor/Pascal transition and Hilbert-type process noise of the integrated Wiener "
            "process, ExpGramExact.tla the matrix exponential and finite-horizon Gramian of nilpotent drifts as finite "
            "rational sums; TLC evaluates them exactly per instance and checks the semigroup law, Chapman-Kolmogorov, "
            "linearity in the output scale, the integral definition and the Lyapunov identity as invariants. Every "
            "instance is replayed into the dense/isotropic/block-diagonal Wiener priors (transition, preconditioner "
            "removal, merge), the dense exponential / integrated-OU priors and exp_gram_cholesky with all five "
            "Pade/Legendre orders in float64 and float32. MaternExact.tla (drift = companion of (s+z)^D, a scalar shift of a "
            "nilpotent matrix) and OuExact.tla (scalar-rate integrated OU: spectral projector + nilpotent part) export the "
            "exact rational pieces of transition and Gramian; the harness multiplies in the scalar factors e^{-zh} and "
            "int s^m e^{-cs} ds and compares with prior_matern(_diffuse) / prior_ornstein_uhlenbeck_integrated(_diffuse), "
            "including diffuse derivatives and merged transitions."
        ),
        design_ref="DESIGN.md 3.3, 4 (C09), 11.1",
        note=(
            "Trusted: TLC's range-checked rational arithmetic (Rat.tla), tolerances 1e-9 / 1e-11 (float64), 2e-4 (float32). "
            "Not covered: general non-nilpotent, non-diagonal rate matrices (transcendental, no exact model); q <= 6, n*d <= 6; Matern / OU up to 4 coefficients, the two scalar transcendental factors come from math.exp / scipy.special.gammainc."
        ),
    ),
    "C03": dict(
        engine="tracing-ssm",
        technique="TLC trace validation (TraceProbSolver.tla over the GaussTerms.tla term algebra) of operation logs recorded from the real smoother code on a tracing state-space model; step histories from TLC behaviours of AdaptiveLoop.tla",
        text=(
            "The real solvers, Smoother.finalize, both smoother strategies, solve_fixed_grid and the adaptive drivers run on a "
            "tracing SSM whose operations emit ordered events; TLC interprets the log with the explicit term algebra "
            "(marginals as time + information history, backward conditionals, partial operations with domain checks) and "
            "accepts a run only if every output marginal is the marginal at its time given all accepted data, the stored "
            "conditionals are the backward conditionals between consecutive outputs, and the terminal marginal is the "
            "filtering marginal. Histories: fixed grids, TLC-generated accept/reject behaviours for save-every-step and "
            "checkpointed runs. Plus relational replays on the three real SSMs (final smoothed = filtered, variance "
            "monotonicity, fixed-point = fixed-interval at shared times)."
        ),
        design_ref="DESIGN.md 3.2, 4 (C03), Appendix A",
        note=(
            "Trusted: TLC, the tracing SSM (harness/tracing.py: ids + scripted scalars), term normal forms standing for "
            "distributions (Chapman-Kolmogorov, Markov property). Multi-step numerics by composition with C08/C09 plus sampled replays."
        ),
    ),
    "C05": dict(
        engine="tracing-ssm",
        technique="TLC trace validation of real-code operation logs against GaussTerms/TraceProbSolver for superset/subset checkpoint pairs driven by the same TLC-generated accept/reject history; AdaptiveLoop.tla supplies the histories",
        text=(
            "For every TLC-generated accept/reject history the real adaptive loop and solver code run on the tracing SSM with a "
            "checkpoint superset and a subset; TLC accepts a run only if each emitted value is the posterior at its time given "
            "exactly the accepted steps (filter: prediction from the preceding state with the overstepping step's scale, also "
            "through several checkpoints inside one step; fixed-point: all data, conditional between consecutive checkpoints), "
            "which depends on the step history only; the accepted step sequences of the pair must coincide. The terminal-value "
            "routine and off-grid marginals of save-every-step runs are held to the same terms. Relational float replays on the real SSMs."
        ),
        design_ref="DESIGN.md 4 (C05)",
        note="Trusted as C03. Clipping off for pairs (as the property states). Float replays sampled at 1e-7.",
    ),
    "C02": dict(
        engine="tracing-ssm",
        technique="TLC trace validation (TraceProbSolver.tla / GaussTerms.tla) of operation logs of the real filter code on the tracing SSM + exact KalmanExact.tla instances replayed into the real SSMs",
        text=(
            "TLC accepts the operation log of a run of the real solver/solver_mle/solver_dynamic x strategy_filter only if the "
            "final filtering state carries exactly the accepted-step history: every step predicted with the unit-scale (dynamic: "
            "the just-estimated) transition from the previous posterior, linearised at the predicted mean at the step's end time "
            "(dynamic without re-linearisation: at the mean-only extrapolation), updated with exactly that linearisation, initial "
            "constraint applied when configured, outputs equal to those terms. Histories: fixed grids and TLC-generated adaptive "
            "behaviours. KalmanExact.tla adds one- and two-step instances end to end in exact rationals for all calibration modes."
        ),
        design_ref="DESIGN.md 3.2, 3.3, 4 (C02)",
        note="Trusted as C03. Per-operation numerics are C08/C09/C11; precision loss at high order / tiny steps is floating point and not covered; end-to-end exact instances only for q <= 2 and <= 2 steps.",
    ),
    "C04": dict(
        engine="tracing-ssm",
        technique="TLC trace validation with exact rational check of the reported quasi-MLE / dynamic scales (TraceProbSolver.tla) + equivariance replays on the real SSMs",
        text=(
            "With scripted, uniquely identifiable whitened-residual RMS values the reported MLE scale must equal, as an exact "
            "rational checked by TLC, the root mean square over the data of the accepted steps (with/without the 1/sqrt(N) "
            "correction, including the initial-constraint datum); every returned marginal and conditional must carry the "
            "calibration tag exactly once; dynamic scales must be the RMS of the observed unit-scale mean-only extrapolation "
            "from the previous posterior, used by that step's transitions (also when interpolating) and reported per output; "
            "uncalibrated runs report one. Equivariance under base scales c = 2^k is replayed on the three real SSMs."
        ),
        design_ref="DESIGN.md 4 (C04)",
        note="Trusted as C03; the numerical value of a whitened residual RMS is decided under C08. Equivariance replays sampled (powers of two, 1e-7..1e-9).",
    ),
    "C07": dict(
        engine="tracing-ssm",
        technique="TLC trace validation (TraceProbSolver.ErrnormExpect) of the real error estimators on tracing-SSM states, with the squared norm exported by TLC as an exact rational",
        text=(
            "The real error_residual_std / error_state_std with both norm functions run on tracing-SSM states produced by the real "
            "solvers. TLC accepts an estimate only if the error was read from the std of the observed mean-only, unit-scale "
            "extrapolation of the previous state (rescaled by its own whitened RMS, resp. the conditional std of the selected "
            "coefficient times that RMS), with the cached or re-evaluated linearisation exactly as configured and the reference "
            "taken from the previous and the proposed mean; TLC computes the squared tolerance-weighted norm (dt^n/n!, "
            "per-unit-step, derivative index, both norms) exactly from the scripted scalars and the harness compares "
            "error_power^(-2(q+1)) with it. Base-scale invariance is replayed on the three real SSMs."
        ),
        design_ref="DESIGN.md 4 (C07)",
        note="Trusted: TLC, tracing SSM with scripted std/mean/RMS values; their numerical values on real models are C08. Estimates whose exact value leaves 32 bits are dropped and counted.",
    ),
    "C10": dict(
        engine="exact-replay",
        technique="TLC exact evaluation of JetPoly.tla (solution derivatives by series recursion, one Increment action per coefficient, cross-checked against symbolic total differentiation) and replay of every polynomial program into the five Taylor-coefficient routines",
        text=(
            "JetPoly.tla represents polynomial vector fields as monomial tables and defines the derivatives of the exact solution "
            "twice (Cauchy-product series recursion stepped by an Increment action; repeated application of the total-derivative "
            "operator); TLC checks that both agree in every state and that all lifts of u^(m) - f vanish along the solution, and "
            "exports the integers. Each program is built as a real JAX function and run through all five routines (flat and "
            "nested-pytree states, autonomous and time-dependent fields, orders 1 and 2, implicit forms for the residual routine)."
        ),
        design_ref="DESIGN.md 3.3, 4 (C10)",
        note="Trusted: TLC range-checked arithmetic; polynomial fields only (degree <= 2 in u, <= 3 in t, d <= 3, k <= 7); 1e-9 relative.",
    ),
    "C11": dict(
        engine="exact-replay",
        technique="TLC exact evaluation of JetPoly.tla (total time derivatives along a curve, Jacobian blocks, laws as invariants) and replay into jet_lift / residual constructors / the three linearisations",
        text=(
            "JetPoly.tla defines the l-th total time derivative of a polynomial right-hand side or residual along a curve with "
            "given coefficients (series composition vs. symbolic D^l, Leibniz rule, index bookkeeping, admissible lift range) and "
            "value / full / per-dimension / trace-averaged Jacobians and affine offsets of constraints; TLC checks the laws and "
            "exports the values. Replayed into JetOde/JetResidual.jet_lift, jet_lift_max, residual_from_ode, residual_from_stack "
            "and constraint_ode_ts0 / ts1 / constraint_residual.linearize of the dense, isotropic and block-diagonal models."
        ),
        design_ref="DESIGN.md 3.3, 4 (C11)",
        note="Trusted as C10. Lift orders 0..5, differential order 0..2, Jacobians via jacobian_materialize; any exception counts as rejection of an inadmissible lift_by.",
    ),
    "C17": dict(
        engine="exact-replay",
        technique="TLC exact evaluation of Hutchinson.tla (per-probe estimates, mean over ALL sign tensors = exact blocks as invariant, key state machine) and replay with the Rademacher generator replaced by a full enumerator",
        text=(
            "Hutchinson.tla defines, for integer polynomial maps (n_in,d)->(n_out,d), the dense Jacobian, its per-dimension blocks, "
            "its sum over dimensions and the forward/reverse per-probe estimates; TLC checks that the mean over all 2^(n d) sign "
            "tensors equals the exact blocks, that trace = sum of blocks, and that no key is reused by the key machine (all call "
            "sequences up to length 5). The real handlers are run with probdiffeq.backend.random.rademacher replaced by an "
            "enumerator (num_probes = 2^(n d)) and compared exactly; key advance and input rejection are checked on the unpatched functions."
        ),
        design_ref="DESIGN.md 3.3, 4 (C17)",
        note="Trusted: TLC, the enumerating replacement of rademacher; polynomial maps at integer points, n_in, n_out, d <= 4.",
    ),
    "C12": dict(
        engine="exact-replay",
        technique="TLC exact evaluation of MarkovSeqExact.tla (joint law of the backward Markov sequence, observed covariance, determinant, Mahalanobis form) and replay into both marginal-likelihood losses for the three factorisations",
        text=(
            "MarkovSeqExact.tla defines the joint mean and covariance of a Markov sequence given by an anchor marginal and a chain of "
            "conditionals (with preconditioner scalings), the covariance of the observed Taylor coefficient plus per-time / "
            "per-dimension noise, its determinant and the Mahalanobis form as exact rationals. loss_lml_timeseries (sum and "
            "time-average) and loss_lml_terminal_values are evaluated on MarkovSequences built from the same integer pieces for the "
            "dense, isotropic and block-diagonal models (noise-free initial states included) and compared with the exact log-density. "
            "Wiring: the posterior returned by the real solvers on the tracing SSM is fed to the real evaluate_lml; TLC accepts the "
            "log only if every datum is scored exactly once under the marginal at its own time given all later data, and exports the loss value."
        ),
        design_ref="DESIGN.md 3.3, 4 (C12)",
        note="Trusted: TLC arithmetic; harness embedding of structured pieces (law checked under C08); observed joint <= 4 x 4; 2-3 output times. The wiring of the posterior that the solvers hand to the loss is decided under C03.",
    ),
    "C13": dict(
        engine="exact-replay",
        technique="TLC exact evaluation of MarkovSeqExact.tla (+ IwpExact.tla for priors on a grid) and replay into MarkovSequence.sample with the normal generator replaced by a key-indexed table of prescribed draws",
        text=(
            "The smoothing means and the joint covariance of the Markov sequence are exact rationals from TLC. "
            "MarkovSequence.sample is run with probdiffeq.backend.random.normal replaced by a table lookup keyed by the PRNG key "
            "(the key tree is recomputed with random.split; every draw must use a distinct leaf): zero draws must give the "
            "smoothing means, unit draws give the columns W of the affine map and W W^T must equal the joint covariance; shapes "
            "are prepended and batch members distinct; prior samples via from_grid are held to the exact IWP joint law. Wiring: "
            "samples of the solvers' posterior (tracing SSM) must follow the stored backward chain from the terminal marginal, every draw with its own key (TLC)."
        ),
        design_ref="DESIGN.md 3.3, 4 (C13)",
        note="Trusted as C12 plus the replacement of the normal generator in the harness process.",
    ),
    "C15": dict(
        engine="scripted-loop",
        technique="conformance of the same TLA+ specifications under execution modes: TLC behaviours of AdaptiveLoop.tla replayed under vmap/jit, TLC-validated operation logs compared jit vs eager, relational replays on real SSMs (pytree, permutation, jit, vmap)",
        category="model_checking",
        text=(
            "There is no separate model: TLC-generated behaviours of AdaptiveLoop.tla are replayed through the real adaptive loop as "
            "members of vmapped (and jit(vmap)) batches with different accept/reject scripts and each member must reproduce its own "
            "behaviour; operation logs of the real solver code on the tracing SSM must be identical with and without jit and are "
            "validated by TLC; real solves with nested dict / tuple / namedtuple / rank-3 states, permuted components, jit and vmap "
            "(members needing 4 to 370 steps) are compared with the plain solve, including output structure and leading time axis; "
            "the batched solution object is read outside vmap, one compiled solve is applied to differently structured states, and "
            "vmapped terminal-value solves run in a child process under a watchdog (a batched loop that never ends is a verdict)."
        ),
        design_ref="DESIGN.md 4 (C15)",
        note="Conformance sampling over execution modes, not a proof about JAX's transformations.",
    ),
    "C14": dict(
        engine="exact-replay",
        technique="TLC exact evaluation of KalmanExact.tla (one/two solver steps from textbook formulas; factorisation-agreement, MLE-split, smoothing and equivariance laws as invariants) and replay of TLC-generated scenarios into all three real SSMs",
        text=(
            "KalmanExact.tla defines one and two solver steps end to end over exact rationals (IWP prior, TS0 / dense, block-diagonal "
            "and trace-averaged TS1 linearisations, all calibration modes, RTS smoothing by joint conditioning) and a second, "
            "per-dimension block recursion; TLC checks on every instance that the dense recursion equals the embedded block "
            "recursion where theory says so, that block-diagonal MLE scales are the per-dimension split, that decoupled TS1 equals "
            "scalar solves and scalar-Jacobian isotropic equals dense. The same scenarios (and float scenarios with q = 1..4, 3-6 "
            "steps) are run on the three real SSMs and the property's statements are checked across the implementations."
        ),
        design_ref="DESIGN.md 3.3, 4 (C14)",
        note="Trusted: TLC arithmetic; exact instances fit 32 bits only for <= 2 steps and small q, d (others float-relational at 1e-9, dynamic modes with a conditioning-aware tolerance documented in harness/kalman.py).",
    ),
    "C18": dict(
        engine="contracts",
        technique="TLC model checking of Dt0.tla (abstract-magnitude transcription of both helpers, all class combinations; exact Hairer-Norsett-Wanner instances) and replay of class representatives / exact instances through ivpsolve.dt0 and dt0_adaptive",
        text=(
            "Dt0.tla part A transcribes both helpers branch by branch over an abstract magnitude domain (zero, tiny, small, normal, huge, "
            "inf, nan with IEEE under/overflow rules) and TLC enumerates every class combination (16912 states) against 'positive and "
            "finite'; part B defines the classical two-stage heuristic of Hairer-Norsett-Wanner II.4 over exact rationals for scalar "
            "polynomial problems (laws: unit- and time-shift invariance). Class representatives (scalar, vector, pytree; zero / "
            "non-zero fields) and the exact instances are replayed through the real helpers; each proposal starts a short adaptive solve."
        ),
        design_ref="DESIGN.md 3.4, 4 (C18)",
        note="Trusted: the abstract arithmetic tables (replayed against float64 representatives), TLC. Vector-valued HNW instances are not exact (irrational norms). Remaining overflow findings for |u0| >= 1e154 are listed in known_findings.json.",
    ),
    "C19": dict(
        engine="exact-replay",
        technique="TLC model checking of GaussNewton.tla (explicit state machine of the iteration over exact rationals; affine exactness, range, truthful reporting, budget invariants) and iterate-by-iterate replay into lstsq_constrained_gauss_newton",
        text=(
            "GaussNewton.tla is an explicit state machine (x, fx, dx, iters) transcribing the Gauss-Newton iteration with its three-way "
            "termination guard on squared norms; TLC checks on every state that affine constraints reach the Gaussian conditional mean "
            "after one step with zero residual, that x - m stays in range(P J^T), that the returned statistics equal the last state and "
            "that budget exhaustion is reported. The real routine runs with a recording loop injected through while_loop=; every "
            "iterate, guard value, statistic and the filter update from taylor_point_maximum_a_posteriori are compared with the exact behaviour."
        ),
        design_ref="DESIGN.md 3.3, 4 (C19)",
        note="Trusted: TLC arithmetic; D <= 4, budgets 1..4, tol 2^-10 / 2^-20, full-row-rank J L (rank-deficient solves not modelled); start x0 = mean as in both library call sites.",
    ),
    "C20": dict(
        engine="contracts",
        technique="TLC enumeration of InputContracts.tla (entry x field x corruption x factorisation -> raise/warn/accept with completeness invariants) and replay of every tuple against the public API",
        text=(
            "InputContracts.tla writes out the finite relation of public entry points, fields, single-field corruptions (wrong rank, "
            "length, broadcastable length, scalar, tree structure, dtype, object type) and factorisations to the required outcome; TLC "
            "checks completeness (every shape-carrying field covered for every applicable corruption and factorisation, the only "
            "accepts are documented broadcasts, pairings warn with a remedy) and exports the 260 tuples. Each tuple is applied to an "
            "otherwise valid call of the real API (construction or cheapest first use) and the observed raise / warning / finite result is compared."
        ),
        design_ref="DESIGN.md 3.4, 4 (C20)",
        note="Single-field corruptions on one test problem (d = 2, 3 coefficients); exception types and messages are not compared, only raised / warned-with-remedy / accepted.",
    ),
}

NOT_APPLICABLE = {
    "C01": "accuracy vs. the true ODE solution and an asymptotic convergence order are statements of real analysis, not of a state machine; no exact small-instance model exists (DESIGN.md 6). The control-plane mechanism it rests on is decided under C06.",
    "C16": "derivatives are produced by a program transformation (JAX AD) of floating-point code; a TLA+ specification has no notion of differentiation (DESIGN.md 6).",
}

NOT_YET = "not claimed yet: the specification/conformance check for this property is still being built (see DESIGN.md build order)"

ENGINES = [
    dict(name="tlc", path="harness/tlc.py", kind_free_text="TLC runner: generated MC modules, counters, PrintT/ToJson behaviour export"),
    dict(name="exact-replay", path="harness/exact.py", kind_free_text="TLC as exact rational evaluator of the L2 specifications; instances replayed into the real numerical classes"),
    dict(name="tracing-ssm", path="harness/tracing.py", kind_free_text="fake AbstractTreeNormal/LatentCond/Prior/Linearization emitting ordered op events; real solver code runs on it; logs validated by TLC (harness/l1.py)"),
    dict(name="contracts", path="harness/contracts.py", kind_free_text="finite contract relations / abstract-domain models enumerated by TLC and replayed against the public API (C18: harness/dt0.py, C20: harness/contracts.py)"),
    dict(name="scripted-loop", path="harness/l0.py", kind_free_text="AdaptiveLoop.tla behaviours replayed through the real adaptive loop with a scripted solver"),
]


def main():
    props = [json.loads(l)["id"] for l in open(os.path.join(VERIF, "properties.jsonl"))]
    checks = []
    for pid in props:
        if pid not in CHECKS:
            continue
        c = CHECKS[pid]
        checks.append(
            dict(
                property_id=pid,
                quick_cmd=f"./check {pid} --tier quick",
                thorough_cmd=f"./check {pid} --tier thorough",
                evidence_file=f"evidence/{pid}.json",
                replay_cmd_template=f"./check {pid} --replay {{path}}",
                engine=c["engine"],
                level_claimed=dict(category=c.get("category", "model_checking"), text=c["text"], design_ref=c["design_ref"]),
                level_note=c["note"],
                technique=c["technique"],
            )
        )
    na = []
    for pid in props:
        if pid in CHECKS:
            continue
        na.append(dict(property_id=pid, reason=NOT_APPLICABLE.get(pid, NOT_YET)))
    engines = []
    for e in ENGINES:
        e = dict(e)
        e["serves_properties"] = [p for p in props if p in CHECKS and (e["name"] == "tlc" or CHECKS[p]["engine"] == e["name"])]
        engines.append(e)
    man = dict(
        version=1,
        setup_cmd="./setup.sh",
        hooks=dict(
            guard="PROBDIFFEQ_VERIF",
            enable="no hooks in /repo: all instrumentation is harness-side (duck-typed solver, subclassed SSM, injected while_loop); the guard name is reserved and unused",
            baseline_off_cmd="cd /repo && /venv/bin/python -m pytest -ra -q -p no:cacheprovider --timeout=900 --continue-on-collection-errors",
            source_commits=[],
            add_only=True,
        ),
        engines=engines,
        checks=checks,
        not_applicable=na,
        notes="Genuine defects repaired in /repo are listed in known_findings.json ('fixed'); see DESIGN.md 5.",
    )
    with open(os.path.join(VERIF, "MANIFEST.json"), "w") as f:
        json.dump(man, f, indent=1)
    print(f"MANIFEST.json: {len(checks)} checks, {len(na)} not_applicable")


if __name__ == "__main__":
    main()
