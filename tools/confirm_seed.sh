#!/bin/sh
# tools/confirm_seed.sh <dir with patch.diff demo.py meta.json> <name>
# confirms in a scratch worktree: demo passes without the change, fails with it, the repository test-suite passes with it.
set -u
SRC="$1"; NAME="$2"
WT=$(mktemp -d /tmp/confirm_XXXXXX); rmdir "$WT"
git -C /repo worktree add -q "$WT" HEAD || exit 2
OUT="/tmp/seed/confirm_$NAME.txt"
{
  echo "== $NAME"
  PYTHONPATH="$WT" JAX_PLATFORMS=cpu timeout 900 /venv/bin/python "$SRC/demo.py" > /tmp/seed/demo_$NAME.clean.log 2>&1; echo "demo_without_change_exit=$?"
  if git -C "$WT" apply "$SRC/patch.diff"; then echo "patch_applies=yes"; else echo "patch_applies=no"; fi
  git -C "$WT" diff --stat | tail -1
  PYTHONPATH="$WT" JAX_PLATFORMS=cpu timeout 900 /venv/bin/python "$SRC/demo.py" > /tmp/seed/demo_$NAME.seeded.log 2>&1; echo "demo_with_change_exit=$?"
  (cd "$WT" && PYTHONPATH="$WT" JAX_PLATFORMS=cpu timeout 3000 /venv/bin/python -m pytest -q -p no:cacheprovider --timeout=900 -q tests > /tmp/seed/pytest_$NAME.log 2>&1; echo "pytest_exit=$?")
  tail -1 /tmp/seed/pytest_$NAME.log
} > "$OUT" 2>&1
git -C /repo worktree remove --force "$WT"
cat "$OUT"
