----------------------------- MODULE GaussExact -----------------------------
\* L2: the Gaussian conditional algebra of probdiffeq's state-space models, *defined by joint
\* moments* over the rationals.  (ssm_impl_api.AbstractLatentCond / AbstractTreeNormal and the
\* dense / isotropic / block-diagonal implementations.)
\*
\* A conditional  y | x ~ N( Do (A Dl x + b),  Do Q Do ),   Q = LQ LQ^T,
\*   Dl = diag(to_latent), Do = diag(to_observed)      (the preconditioner of the code)
\* A normal       x ~ N(mx, P),  P = LP LP^T.
\*
\* An instance is a sequence of `blocks` (one per state dimension, d = Len(blocks)); block a holds the
\* small matrices acting on the Taylor coefficients of dimension a:
\*   dense model          : one block (d = 1) holding the full matrices
\*   isotropic model      : d blocks sharing A, LQ, LP and scalings; means/offsets/data differ
\*   block-diagonal model : d arbitrary blocks
\* The dense embedding orders coordinates coefficient-major, (coefficient i, dimension a) -> (i-1) d + a,
\* which is the order of `to_multivariate_normal()` in all three implementations.
\*
\* TLC evaluates the definitions on every instance (exactly; 32-bit overflow raises), checks the
\* algebraic laws below as invariants, and prints the expected moments which the harness compares
\* with the float64 results of the real classes.
EXTENDS RatLinAlg, TLC, Json

CONSTANT Instances      \* sequence of [blocks |-> <<...>>, factor |-> rational]
VARIABLE i
vars == <<i>>

Init == i = 1
Next == i < Len(Instances) /\ i' = i + 1
Spec == Init /\ [][Next]_vars

\* ------------------------------------------------------------------ embedding
D(inst) == Len(inst.blocks)
EmbMat(inst, f(_)) ==      \* f(block) is an r x c matrix, equal shapes across blocks
  LET d == D(inst)
      r == Rows(f(inst.blocks[1]))
      c == Cols(f(inst.blocks[1]))
  IN Mat(r * d, c * d, LAMBDA p, q :
        LET ii == ((p - 1) \div d) + 1  a == ((p - 1) % d) + 1
            jj == ((q - 1) \div d) + 1  b == ((q - 1) % d) + 1
        IN IF a = b THEN f(inst.blocks[a])[ii][jj] ELSE RZero)
EmbVec(inst, f(_)) ==
  LET d == D(inst)
      r == Len(f(inst.blocks[1]))
  IN Vec(r * d, LAMBDA p : f(inst.blocks[((p - 1) % d) + 1])[((p - 1) \div d) + 1])

\* ------------------------------------------------------------------ definitions on one (dense) system
\* effective (preconditioner-free) conditional
AEff(A, tl, to)  == ScaleRC(to, A, tl)
BEff(b, to)      == VHad(to, b)
QEff(LQ, to)     == ScaleRC(to, Gram(LQ), to)

MargMean(Ae, be, mx)  == VAdd(MatVec(Ae, mx), be)
MargCov(Ae, Qe, P)    == MatAdd(MatMul(MatMul(Ae, P), Transpose(Ae)), Qe)
CrossXY(Ae, P)        == MatMul(P, Transpose(Ae))           \* Cov(x, y)

\* conditioning of the joint Gaussian of (x, y) on y = data   (needs S invertible)
PostMean(mx, Cxy, S, my, data) == VAdd(mx, MatVec(MatMul(Cxy, Inverse(S)), VSub(data, my)))
PostCov(P, Cxy, S)             == MatSub(P, MatMul(MatMul(Cxy, Inverse(S)), Transpose(Cxy)))

Sys(A, b, LQ, tl, to, mx, LP, data, pt, A2, b2, LQ2, tl2, to2, v, f) ==
  LET Ae == AEff(A, tl, to)   be == BEff(b, to)   Qe == QEff(LQ, to)
      P  == Gram(LP)
      my == MargMean(Ae, be, mx)
      S  == MargCov(Ae, Qe, P)
      C  == CrossXY(Ae, P)
      dS == Det(S)
      inv == dS # RZero
      Si == IF inv THEN Inverse(S) ELSE <<>>
      G  == IF inv THEN MatMul(C, Si) ELSE <<>>              \* gain
      A2e == AEff(A2, tl2, to2)  b2e == BEff(b2, to2)  Q2e == QEff(LQ2, to2)
      \* composition  z | x  of  z | y (second) after y | x (first)
      A21 == MatMul(A2e, Ae)
      b21 == VAdd(MatVec(A2e, be), b2e)
      Q21 == MatAdd(MatMul(MatMul(A2e, Qe), Transpose(A2e)), Q2e)
      mz  == MargMean(A2e, b2e, my)
      Sz  == MargCov(A2e, Q2e, S)
  IN [ Aeff |-> Ae, beff |-> be, Qeff |-> Qe, P |-> P,
       marg_mean |-> my, marg_cov |-> S, cross |-> C,
       apply_mean |-> VAdd(MatVec(Ae, pt), be),
       invertible |-> inv,
       \* conditioning of the joint Gaussian of (x, y) on y = data
       post_mean |-> IF inv THEN VAdd(mx, MatVec(G, VSub(data, my))) ELSE VZero(Len(mx)),
       post_cov  |-> IF inv THEN MatSub(P, MatMul(G, Transpose(C))) ELSE MZero(Len(mx), Len(mx)),
       total_var |-> IF inv THEN MatAdd(MatMul(MatMul(G, S), Transpose(G)), MatSub(P, MatMul(G, Transpose(C)))) ELSE P,
       maha      |-> IF inv THEN Quad(Si, VSub(data, my)) ELSE RZero,
       det       |-> dS,
       \* division-free conditioning, valid for singular S too: for data = my + S v the posterior mean is mx + C v
       data_v |-> VAdd(my, MatVec(S, v)), post_mean_v |-> VAdd(mx, MatVec(C, v)),
       \* rescale_noise(f) / rescale_cholesky(f)
       resc_marg_cov |-> MargCov(Ae, MatScale(RMul(f, f), Qe), P), resc_P |-> MatScale(RMul(f, f), P),
       diagP |-> Vec(Rows(P), LAMBDA q : P[q][q]),
       merge_A |-> A21, merge_b |-> b21, merge_Q |-> Q21,
       z_mean |-> mz, z_cov |-> Sz,
       z_mean_via_merge |-> MargMean(A21, b21, mx),
       z_cov_via_merge  |-> MargCov(A21, Q21, P) ]

\* the definitions applied to the dense embedding of an instance
EvalDense(inst) ==
  Sys(EmbMat(inst, LAMBDA b : b.A),   EmbVec(inst, LAMBDA b : b.b),   EmbMat(inst, LAMBDA b : b.LQ),
      EmbVec(inst, LAMBDA b : b.tl),  EmbVec(inst, LAMBDA b : b.to),
      EmbVec(inst, LAMBDA b : b.mx),  EmbMat(inst, LAMBDA b : b.LP),
      EmbVec(inst, LAMBDA b : b.data), EmbVec(inst, LAMBDA b : b.pt),
      EmbMat(inst, LAMBDA b : b.A2),  EmbVec(inst, LAMBDA b : b.b2),  EmbMat(inst, LAMBDA b : b.LQ2),
      EmbVec(inst, LAMBDA b : b.tl2), EmbVec(inst, LAMBDA b : b.to2),
      EmbVec(inst, LAMBDA b : b.v), inst.factor)

\* the same definitions applied block by block, and the embedding of the per-block results
EvalBlock(b, f) == Sys(b.A, b.b, b.LQ, b.tl, b.to, b.mx, b.LP, b.data, b.pt, b.A2, b.b2, b.LQ2, b.tl2, b.to2, b.v, f)

RECURSIVE RProdSeq(_)
RProdSeq(q) == IF Len(q) = 0 THEN ROne ELSE RMul(q[1], RProdSeq(Tail(q)))

MatFields == {"Aeff", "Qeff", "P", "marg_cov", "cross", "post_cov", "total_var", "resc_marg_cov", "resc_P",
              "merge_A", "merge_Q", "z_cov", "z_cov_via_merge"}
VecFields == {"beff", "marg_mean", "apply_mean", "post_mean", "data_v", "post_mean_v", "merge_b", "z_mean",
              "z_mean_via_merge", "diagP"}
EmbedBlocks(inst, eb) ==
  LET W == [blocks |-> eb]
      allinv == \A a \in 1..Len(eb) : eb[a].invertible
  IN  TLCEval([fld \in MatFields |-> EmbMat(W, LAMBDA r : r[fld])])
      @@ TLCEval([fld \in VecFields |-> EmbVec(W, LAMBDA r : r[fld])])
      @@ [ invertible |-> allinv,
           maha |-> RSumSeq(Vec(Len(eb), LAMBDA a : eb[a].maha)),
           det  |-> RProdSeq(Vec(Len(eb), LAMBDA a : eb[a].det)) ]

\* ------------------------------------------------------------------ laws (checked as one TLC invariant per state)
Laws(inst, E) ==
  \* composition then marginalisation = two marginalisations (Chapman-Kolmogorov)
  /\ VEq(E.z_mean, E.z_mean_via_merge) /\ MEq(E.z_cov, E.z_cov_via_merge)
  /\ IsSymmetric(E.marg_cov) /\ IsSymmetric(E.z_cov) /\ IsSymmetric(E.post_cov)
  \* law of total variance: Cov(E[x|y]) + Cov(x|y) = Cov(x)
  /\ MEq(E.total_var, E.P)

\* the structured models are their dense embeddings: every per-block result embeds to the dense result
\* (dense evaluation of the embedded system uses cofactor inverses, so only for total size <= 4)
LawEmbedding(inst, E) ==
  (Len(inst.blocks) * Len(inst.blocks[1].mx) <= 4 /\ Len(inst.blocks) > 1) =>
    LET ED == EvalDense(inst)
    IN  /\ \A fld \in MatFields \ {"post_cov", "total_var"} : MEq(ED[fld], E[fld])
        /\ \A fld \in VecFields \ {"post_mean"} : VEq(ED[fld], E[fld])
        /\ REqN(ED.det, E.det)
        /\ (E.invertible /\ ~IsNaN(ED.det) /\ ~IsNaN(E.det)) =>
              (ED.invertible /\ VEq(ED.post_mean, E.post_mean) /\ MEq(ED.post_cov, E.post_cov) /\ REqN(ED.maha, E.maha))

\* rescaling the noise / the Cholesky factor by c scales covariances by c^2 and leaves means alone
LawRescale(inst) ==
  LET c == inst.factor
      b1 == inst.blocks[1]
      s  == EvalBlock(b1, ROne)
      s2 == EvalBlock([b1 EXCEPT !.LQ = MatScale(c, b1.LQ), !.LP = MatScale(c, b1.LP), !.LQ2 = MatScale(c, b1.LQ2)], ROne)
  IN /\ VEq(s2.marg_mean, s.marg_mean)
     /\ MEq(s2.marg_cov, MatScale(RMul(c, c), s.marg_cov))
     /\ (s.invertible /\ c # RZero /\ ~IsNaN(s.det) /\ ~IsNaN(s2.det)) =>
           (VEq(s2.post_mean, s.post_mean) /\ MEq(s2.post_cov, MatScale(RMul(c, c), s.post_cov)))

\* the preconditioner is a gauge: (tl, b, LQ, to) -> (a tl, a b, a LQ, to / a) leaves the effective conditional and hence
\* every result unchanged (used by the harness with a = 2^-40 and 2^40 to reach scalings the rationals cannot hold)
LawGauge(inst) ==
  LET a == RInt(2)
      b1 == inst.blocks[1]
      s  == EvalBlock(b1, ROne)
      g  == EvalBlock([b1 EXCEPT !.tl = VScale(a, b1.tl), !.b = VScale(a, b1.b), !.LQ = MatScale(a, b1.LQ),
                                 !.to = VScale(RInv(a), b1.to)], ROne)
  IN /\ MEq(g.Aeff, s.Aeff) /\ VEq(g.beff, s.beff) /\ MEq(g.Qeff, s.Qeff)
     /\ VEq(g.marg_mean, s.marg_mean) /\ MEq(g.marg_cov, s.marg_cov) /\ MEq(g.cross, s.cross)
     /\ (s.invertible /\ ~IsNaN(g.det)) => (VEq(g.post_mean, s.post_mean) /\ MEq(g.post_cov, s.post_cov))

CheckAndPrint ==
  LET inst == Instances[i]
      eb == Vec(D(inst), LAMBDA a : EvalBlock(inst.blocks[a], inst.factor))
      E  == EmbedBlocks(inst, eb)
  IN  /\ Laws(inst, E)
      /\ LawEmbedding(inst, E)
      /\ LawRescale(inst)
      /\ LawGauge(inst)
      /\ PrintT("@@EXP " \o ToJson([i |-> i,
             nan |-> ((\E fld \in MatFields : MatNaN(E[fld])) \/ (\E fld \in VecFields : VecNaN(E[fld])) \/ IsNaN(E.maha) \/ IsNaN(E.det)),
             e |-> [dense |-> E,
             block_maha |-> Vec(D(inst), LAMBDA a : eb[a].maha),
             block_inv  |-> Vec(D(inst), LAMBDA a : eb[a].invertible),
             block_det  |-> Vec(D(inst), LAMBDA a : eb[a].det),
             block_diagP |-> Vec(D(inst), LAMBDA a : eb[a].diagP)]]))
=============================================================================
