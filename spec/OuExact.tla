------------------------------ MODULE OuExact ------------------------------
\* L2: the integrated Ornstein-Uhlenbeck prior with a scalar rate (ssm_impl_api.prior_ornstein_uhlenbeck_integrated
\* with linop(x) = -theta x):  n Taylor coefficients per dimension,
\*   dX_i = X_{i+1} dt (i < n),   dX_n = -theta X_n dt + lam dW.
\* The drift F = S - theta e_n e_n^T (S: ones on the superdiagonal) has the simple eigenvalue -theta and the
\* eigenvalue 0 with one Jordan block of size n-1.  With the spectral projector  Pi = F^(n-1) / (-theta)^(n-1)  and
\* the nilpotent part  N0 = F (I - Pi)  - exactly -
\*   e^{hF} = e^{-theta h} Pi + sum_{k<n-1} M_k h^k,          M_k = N0^k (I - Pi) / k!
\*   Q(h)   = int_0^h e^{sF} B B^T e^{sF^T} ds
\*          = C2 J(2 theta, 0) + sum_k C1_k J(theta, k) + sum_m C0_m h^(m+1)/(m+1)
\*   with  C2 = Pi BB Pi^T,  C1_k = Pi BB M_k^T + M_k BB Pi^T,  C0_m = sum_{k+l=m} M_k BB M_l^T,
\*         J(c, m) = int_0^h s^m e^{-c s} ds  (scalar).
\* TLC computes Pi, M_k and the C's exactly for rational theta and checks the laws that make the decomposition valid:
\* Pi is a projector commuting with F, F Pi = -theta Pi, N0^(n-1) = 0, the M_k sum to the identity at h = 0.
EXTENDS RatLinAlg, Json

CONSTANT Instances     \* sequence of [n, theta, lam]
VARIABLE i
Init == i = 1
Next == i < Len(Instances) /\ i' = i + 1
Spec == Init /\ [][Next]_<<i>>

RECURSIVE Fact(_)
Fact(k) == IF k <= 1 THEN 1 ELSE k * Fact(k - 1)

Drift(n, theta) ==
  Mat(n, n, LAMBDA r, c : IF c = r + 1 THEN ROne ELSE IF r = n /\ c = n THEN RNeg(theta) ELSE RZero)

RECURSIVE PowList(_, _, _)
PowList(A, m, acc) == IF Len(acc) = m THEN acc ELSE PowList(A, m, Append(acc, MatMul(acc[Len(acc)], A)))
\* <<A^0, ..., A^(m-1)>>
Powers(A, m) == PowList(A, m, <<Eye(Rows(A))>>)

RECURSIVE MSumAcc(_, _, _, _)
MSumAcc(fs, k, m, acc) ==
  IF k > m THEN acc
  ELSE With(MatAdd(acc, fs[k]), LAMBDA a2 : IF Len(a2) = 0 THEN a2 ELSE MSumAcc(fs, k + 1, m, a2))
MSumTo(fs, m) == MSumAcc(fs, 2, m, fs[1])

Noise(n, lam) == Mat(n, n, LAMBDA r, c : IF r = n /\ c = n THEN RMul(lam, lam) ELSE RZero)

AnyNaN(ms) == \E q \in 1..Len(ms) : MatNaN(ms[q])

\* n >= 2: K = n - 1 polynomial terms M_0 .. M_{n-2}
Pieces(n, theta, lam, F, Pi, ImP, N0, pw, M, BB) ==
  With3(MatMul(MatMul(Pi, BB), Transpose(Pi)),
        Vec(n - 1, LAMBDA k : MatAdd(MatMul(MatMul(Pi, BB), Transpose(M[k])), MatMul(MatMul(M[k], BB), Transpose(Pi)))),
        Vec(2 * (n - 1) - 1, LAMBDA m1 :
           With2(IF m1 - 1 < n - 1 THEN 0 ELSE m1 - (n - 1), IF m1 - 1 < n - 1 THEN m1 - 1 ELSE n - 2, LAMBDA lo, hi :
             MSumTo(Vec(hi - lo + 1, LAMBDA t : MatMul(MatMul(M[lo + t], BB), Transpose(M[m1 - (lo + t - 1)]))), hi - lo + 1))),
        LAMBDA C2, C1, C0 :
    [ F |-> F, Pi |-> Pi, M |-> M, C2 |-> C2, C1 |-> C1, C0 |-> C0,
      law_projector |-> MEq(MatMul(Pi, Pi), Pi),
      law_commutes  |-> MEq(MatMul(F, Pi), MatMul(Pi, F)),
      law_eigen     |-> MEq(MatMul(F, Pi), MatScale(RNeg(theta), Pi)),
      law_nilpotent |-> MEq(MatMul(pw[n - 1], N0), MZero(n, n)),
      law_identity  |-> MEq(MatAdd(Pi, M[1]), Eye(n)),
      law_generator |-> (n = 2) \/ MEq(M[2], MatMul(N0, ImP)),
      nan |-> (MatNaN(Pi) \/ AnyNaN(M) \/ MatNaN(C2) \/ AnyNaN(C1) \/ AnyNaN(C0)) ])

Eval4(n, theta, lam, F, Pi, ImP, N0) ==
  With(Powers(N0, n - 1), LAMBDA pw :
    Pieces(n, theta, lam, F, Pi, ImP, N0, pw,
           Vec(n - 1, LAMBDA k : MatScale(R(1, Fact(k - 1)), MatMul(pw[k], ImP))), Noise(n, lam)))
Eval3(n, theta, lam, F, Pi) == With(MatSub(Eye(n), Pi), LAMBDA ImP : Eval4(n, theta, lam, F, Pi, ImP, MatMul(F, ImP)))
Eval2(n, theta, lam, F, Fp) == Eval3(n, theta, lam, F, MatScale(RInv(RPow(RNeg(theta), n - 1)), Fp[n]))
Eval(inst) == With(Drift(inst.n, inst.theta), LAMBDA F : Eval2(inst.n, inst.theta, inst.lam, F, Powers(F, inst.n)))

CheckAndPrint ==
  With(Eval(Instances[i]), LAMBDA e :
      /\ e.law_projector /\ e.law_commutes /\ e.law_eigen /\ e.law_nilpotent /\ e.law_identity /\ e.law_generator
      /\ PrintT("@@EXP " \o ToJson([i |-> i, nan |-> e.nan,
                                      e |-> [F |-> e.F, Pi |-> e.Pi, M |-> e.M, C2 |-> e.C2, C1 |-> e.C1, C0 |-> e.C0]])))
=============================================================================
