------------------------------ MODULE JetPoly ------------------------------
\* L2: polynomial vector fields and residuals in the jet variables (u, u', u'', ..., t) as *data*, and the
\* three things the jet machinery of the library must compute from them, defined over exact rationals:
\*
\*  (a) kind "ode":  the derivatives u, u', ..., u^(k) at t0 of the solution of  u^(m) = f(u, .., u^(m-1), t)
\*      (i)  Taylor-series recursion: the state U holds the normalised coefficients u_n = u^(n)(t0)/n!; one
\*           `Increment` action per coefficient composes f with the truncated power series in s = t - t0 (Cauchy
\*           products) and reads off the next coefficient; factorials convert back to derivatives;
\*      (ii) symbolic total differentiation: D = d/dt + sum_j u^(j+1) d/du^(j) applied repeatedly to the
\*           polynomial f (monomial arithmetic), then evaluated order by order.
\*      Invariant (every state): (i) = (ii) on every coefficient computed so far; on completion the lifted
\*      residual u^(m) - f vanishes to all computed orders along the solution.
\*  (b) kind "lift": d^l/dt^l g(u(t), u'(t), u''(t), t), l = 0..L, along an arbitrary curve with derivatives
\*      c_0..c_{n-1} at time t: by series composition and by evaluating D^l g; invariant: both agree; Leibniz rule
\*      for D on products; D^L g depends on at most J + L coefficients.  `fromode`: also for u^(J) - g.
\*  (c) kind "lin": value and Jacobian of the (lifted) constraint G = (g, Dg, .., D^L g) at a point xi:
\*      full Jacobian (coefficient-major), per-dimension diagonal blocks, trace-average over dimensions, and the
\*      affine model offsets G(xi) - J xi for the three factorisations; zeroth-order (TS0) model of an ODE
\*      u^(m+l) - (D^l f)(xi) = 0.  Invariants: symbolic partial derivatives = first-order series perturbation;
\*      d * trace-average = sum of diagonal blocks; TS1 Jacobian of an ODE = TS0 selector - Jacobian of f.
\*
\* A monomial is [c |-> rational, e |-> exponent vector]; the exponent vector has N*d + 1 entries: variable
\* j*d + a is u^(j)_a (j = 0..N-1, a = 1..d), the last one is t.  A polynomial is a sequence of monomials, a vector
\* polynomial a sequence of polynomials.  All numbers are the range-checked rationals of Rat (NaN-safe).
EXTENDS RatLinAlg, Json

CONSTANT Instances
VARIABLES i, U
vars == <<i, U>>

RECURSIVE Fact(_)
Fact(n) == IF n <= 1 THEN 1 ELSE n * Fact(n - 1)
Fall(n, j) == Fact(n + j) \div Fact(n)              \* (n+j)!/n!

NV(N, d)       == N * d + 1
BlockOf(v, d)  == (v - 1) \div d                     \* jet order of variable v < nv
DimOf(v, d)    == ((v - 1) % d) + 1
VarIdx(j, a, d) == j * d + a

\* sum of a sequence of rationals; the accumulator is forced at every step (no deep lazy chains)
RECURSIVE RSumAcc(_, _, _)
RSumAcc(s, k, acc) ==
  IF k > Len(s) THEN acc ELSE IF IsNaN(acc) THEN NaNR ELSE RSumAcc(s, k + 1, RAdd(acc, s[k]))
RSumV(s) == RSumAcc(s, 1, RZero)

\* ------------------------------------------------------------------ polynomial arithmetic (symbolic side)
PNonzero(ms) == SelectSeq(ms, LAMBDA m : m.c # RZero)
RECURSIVE CoefAcc(_, _, _, _)
CoefAcc(ms, e, j, acc) ==
  IF j > Len(ms) THEN acc
  ELSE IF ms[j].e = e THEN (IF IsNaN(acc) THEN NaNR ELSE CoefAcc(ms, e, j + 1, RAdd(acc, ms[j].c)))
  ELSE CoefAcc(ms, e, j + 1, acc)
\* like terms are merged into the first occurrence
PMerge(ms) ==
  Vec(Len(ms), LAMBDA k :
    IF \E j \in 1..(k - 1) : ms[j].e = ms[k].e THEN [c |-> RZero, e |-> ms[k].e]
    ELSE [c |-> CoefAcc(ms, ms[k].e, k, RZero), e |-> ms[k].e])
PNorm(ms) == With(PNonzero(ms), LAMBDA nz : PNonzero(PMerge(nz)))
PSet(p)   == {p[k] : k \in 1..Len(p)}
PEq(p, q) == (\E k \in 1..Len(p) : IsNaN(p[k].c)) \/ (\E k \in 1..Len(q) : IsNaN(q[k].c)) \/ PSet(p) = PSet(q)
PScale(c, p) == Vec(Len(p), LAMBDA k : [c |-> RMul(c, p[k].c), e |-> p[k].e])
PAdd(p, q) == PNorm(p \o q)
PMul(p, q) ==
  IF Len(p) = 0 \/ Len(q) = 0 THEN <<>>
  ELSE PNorm(Vec(Len(p) * Len(q), LAMBDA r :
         With2(p[((r - 1) \div Len(q)) + 1], q[((r - 1) % Len(q)) + 1], LAMBDA mp, mq :
            [c |-> RMul(mp.c, mq.c), e |-> Vec(Len(mp.e), LAMBDA v : mp.e[v] + mq.e[v])])))
Unit(v, nv) == Vec(nv, LAMBDA w : IF w = v THEN 1 ELSE 0)
PVar(v, nv) == <<[c |-> ROne, e |-> Unit(v, nv)]>>

\* chain rule through variable v of one monomial (e[v] > 0): t' = 1, (u^(j)_a)' = u^(j+1)_a.
\* A derivative that would need a jet variable beyond block N-1 is "not representable".
DTerm(m, v, d, nv) ==
  IF v = nv THEN [c |-> RMul(RInt(m.e[v]), m.c), e |-> [m.e EXCEPT ![v] = @ - 1]]
  ELSE IF v + d >= nv THEN [c |-> NaNR, e |-> m.e]
  ELSE [c |-> RMul(RInt(m.e[v]), m.c), e |-> [m.e EXCEPT ![v] = @ - 1, ![v + d] = @ + 1]]
DTerms(p, d, nv) ==
  Vec(Len(p) * nv, LAMBDA q :
    With2(p[((q - 1) \div nv) + 1], ((q - 1) % nv) + 1, LAMBDA m, v :
      IF m.e[v] = 0 THEN [c |-> RZero, e |-> m.e] ELSE DTerm(m, v, d, nv)))
DPoly(p, d, nv) == PNorm(DTerms(p, d, nv))            \* total time derivative D p
DVec(g, d, nv)  == Vec(Len(g), LAMBDA a : DPoly(g[a], d, nv))
RECURSIVE DListAcc(_, _, _, _)
DListAcc(acc, L, d, nv) ==
  IF Len(acc) >= L + 1 THEN acc ELSE DListAcc(Append(acc, DVec(acc[Len(acc)], d, nv)), L, d, nv)
DList(g, L, d, nv) == DListAcc(<<g>>, L, d, nv)       \* <<g, Dg, ..., D^L g>>

\* partial derivative with respect to variable v
PDiff(p, v) ==
  PNorm(Vec(Len(p), LAMBDA k :
    IF p[k].e[v] = 0 THEN [c |-> RZero, e |-> p[k].e]
    ELSE [c |-> RMul(RInt(p[k].e[v]), p[k].c), e |-> [p[k].e EXCEPT ![v] = @ - 1]]))

RECURSIVE PowProd(_, _, _, _)
PowProd(x, e, v, acc) ==
  IF v > Len(e) THEN acc
  ELSE IF e[v] = 0 THEN PowProd(x, e, v + 1, acc)
  ELSE IF IsNaN(acc) THEN NaNR ELSE PowProd(x, e, v + 1, RMul(acc, RPow(x[v], e[v])))
EvalMono(m, x) == PowProd(x, m.e, 1, m.c)
EvalPoly(p, x) == RSumV(Vec(Len(p), LAMBDA k : EvalMono(p[k], x)))
EvalVec(g, x)  == Vec(Len(g), LAMBDA a : EvalPoly(g[a], x))

\* the point (c_0, c_1, ..., 0, .., t) in variable space; c = sequence of derivative vectors
Point(c, t, d, nv) ==
  Vec(nv, LAMBDA v : IF v = nv THEN t
                     ELSE IF BlockOf(v, d) < Len(c) THEN c[BlockOf(v, d) + 1][DimOf(v, d)] ELSE RZero)
\* highest jet block a polynomial depends on (-1: none)
MaxBlockP(p, d, nv) ==
  LET bs == {BlockOf(v, d) : v \in {w \in 1..(nv - 1) : \E k \in 1..Len(p) : p[k].e[w] > 0}}
  IN  IF bs = {} THEN -1 ELSE CHOOSE b \in bs : \A b2 \in bs : b2 <= b
MaxBlock(g, d, nv) ==
  LET bs == {MaxBlockP(g[a], d, nv) : a \in 1..Len(g)} IN CHOOSE b \in bs : \A b2 \in bs : b2 <= b

\* u^(m) - f  (what residual_from_ode documents)
OdeResidual(f, m, d, nv) ==
  Vec(Len(f), LAMBDA a : PAdd(PVar(VarIdx(m, a, d), nv), PScale(RInt(-1), f[a])))

\* ------------------------------------------------------------------ truncated power series (series side)
\* a series of order K is the sequence of its K+1 coefficients of s^0..s^K
SZero(K)     == Vec(K + 1, LAMBDA n : RZero)
SConst(c, K) == Vec(K + 1, LAMBDA n : IF n = 1 THEN c ELSE RZero)
SMul(a, b)   == Vec(Len(a), LAMBDA n : RSumV(Vec(n, LAMBDA k : RMul(a[k], b[n - k + 1]))))   \* Cauchy product
RECURSIVE SPow(_, _)
SPow(a, e)   == IF e = 1 THEN a ELSE SMul(a, SPow(a, e - 1))
RECURSIVE SProdAcc(_, _, _, _)
SProdAcc(X, e, v, acc) ==
  IF v > Len(e) THEN acc
  ELSE IF e[v] = 0 THEN SProdAcc(X, e, v + 1, acc)
  ELSE With(SMul(acc, SPow(X[v], e[v])), LAMBDA a2 : IF Len(a2) = 0 THEN a2 ELSE SProdAcc(X, e, v + 1, a2))
SMono(m, X, K) == SProdAcc(X, m.e, 1, SConst(m.c, K))
RECURSIVE SPolyAcc(_, _, _, _, _)
SPolyAcc(p, X, K, k, acc) ==
  IF k > Len(p) THEN acc
  ELSE With(VAdd(acc, SMono(p[k], X, K)), LAMBDA a2 : IF Len(a2) = 0 THEN a2 ELSE SPolyAcc(p, X, K, k + 1, a2))
SPoly(p, X, K) == SPolyAcc(p, X, K, 1, SZero(K))      \* series of p composed with the argument series X

Normalise(c)   == Vec(Len(c), LAMBDA n : VScale(R(1, Fact(n - 1)), c[n]))      \* derivatives -> u_n = u^(n)/n!
Denormalise(W) == Vec(Len(W), LAMBDA n : VScale(RInt(Fact(n - 1)), W[n]))
\* series of u^(j)_a(t + s) from normalised coefficients W:  coefficient n is (n+j)!/n! * u_{n+j}
JetSeries(W, j, a, K) ==
  Vec(K + 1, LAMBDA n : IF n + j <= Len(W) THEN RMul(RInt(Fall(n - 1, j)), W[n + j][a]) ELSE RZero)
TSeries(t, K) == Vec(K + 1, LAMBDA n : IF n = 1 THEN t ELSE IF n = 2 THEN ROne ELSE RZero)     \* t + s
SArgs(W, t, J, d, nv, K) ==
  Vec(nv, LAMBDA v : IF v = nv THEN TSeries(t, K)
                     ELSE IF BlockOf(v, d) < J THEN JetSeries(W, BlockOf(v, d), DimOf(v, d), K) ELSE SZero(K))

\* ------------------------------------------------------------------ (a) solution derivatives of u^(m) = f
\* one more normalised coefficient: with K = Len(W) - m, the coefficient K of f along the series known so far
\* is (K+m)!/K! * u_{K+m}
Increment(inst, W) ==
  With2(Len(W) - inst.m, NV(inst.N, inst.d), LAMBDA K, nv :
    With(SArgs(W, inst.t0, inst.m, inst.d, nv, K), LAMBDA X :
      Append(W, Vec(inst.d, LAMBDA a : RMul(R(1, Fall(K, inst.m)), SPoly(inst.f[a], X, K)[K + 1])))))

RECURSIVE SolSymAcc(_, _, _, _, _, _, _)
SolSymAcc(DL, c, m, k, t, d, nv) ==
  IF Len(c) >= k + 1 THEN c
  ELSE SolSymAcc(DL, Append(c, EvalVec(DL[Len(c) - m + 1], Point(c, t, d, nv))), m, k, t, d, nv)
\* u^(m+l) = (D^l f)(u, .., u^(m+l-1), t0)
SolSym(inst, k) ==
  IF k < inst.m THEN SubSeq(inst.inits, 1, k + 1)
  ELSE With(NV(inst.N, inst.d), LAMBDA nv :
         SolSymAcc(DList(inst.f, k - inst.m, inst.d, nv), inst.inits, inst.m, k, inst.t0, inst.d, nv))

\* ------------------------------------------------------------------ (b) total time derivatives along a curve
LiftSym(g, c, t, L, d, nv) ==
  With2(DList(g, L, d, nv), Point(c, t, d, nv), LAMBDA DL, x : Vec(L + 1, LAMBDA l : EvalVec(DL[l], x)))
LiftSer(g, J, c, t, L, d, nv) ==
  With(SArgs(Normalise(c), t, J, d, nv, L), LAMBDA X :
    With(Vec(Len(g), LAMBDA a : SPoly(g[a], X, L)), LAMBDA S :
      Vec(L + 1, LAMBDA l : Vec(Len(g), LAMBDA a : RMul(RInt(Fact(l - 1)), S[a][l])))))
Admissible(L, n, J) == L >= 0 /\ L <= n - J         \* the rule of JetAbstract.lift
SeqNaN(vs) == \E l \in 1..Len(vs) : VecNaN(vs[l])
SeqEq(us, vs) == Len(us) = Len(vs) /\ \A l \in 1..Len(us) : VEq(us[l], vs[l])

\* ------------------------------------------------------------------ (c) value / Jacobians / affine models
FlatIdxRow(l, a, d) == (l - 1) * d + a
\* G: sequence of mo vector polynomials (d components each); xi: sequence of n coefficient vectors
JacFull(G, x, n, d) ==
  Mat(Len(G) * d, n * d, LAMBDA r, q :
     EvalPoly(PDiff(G[((r - 1) \div d) + 1][((r - 1) % d) + 1], q), x))
\* the same entries from a first-order series perturbation x + s e_q
JacSeries(G, x, n, d) ==
  Mat(Len(G) * d, n * d, LAMBDA r, q :
     SPoly(G[((r - 1) \div d) + 1][((r - 1) % d) + 1],
           Vec(Len(x), LAMBDA v : <<x[v], IF v = q THEN ROne ELSE RZero>>), 1)[2])
JacDiag(Jf, mo, n, d) ==
  Vec(d, LAMBDA a : Mat(mo, n, LAMBDA l, j : Jf[FlatIdxRow(l, a, d)][FlatIdxRow(j, a, d)]))
JacTrace(Jf, mo, n, d) ==
  Mat(mo, n, LAMBDA l, j : RMul(R(1, d), RSumV(Vec(d, LAMBDA a : Jf[FlatIdxRow(l, a, d)][FlatIdxRow(j, a, d)]))))
FlatXi(xi, d) == Vec(Len(xi) * d, LAMBDA q : xi[((q - 1) \div d) + 1][((q - 1) % d) + 1])

LinEval(inst, g, J, nv) ==
  LET d == inst.d  n == Len(inst.xi)  mo == inst.L + 1 IN
  With3(DList(g, inst.L, d, nv), Point(inst.xi, inst.t, d, nv), FlatXi(inst.xi, d), LAMBDA G, x, xf :
   With3(JacFull(G, x, n, d), JacSeries(G, x, n, d), Vec(mo, LAMBDA l : EvalVec(G[l], x)), LAMBDA Jf, Js, val :
    With2(JacDiag(Jf, mo, n, d), JacTrace(Jf, mo, n, d), LAMBDA Jd, Jt :
      [ val |-> val, Jfull |-> Jf, Jdiag |-> Jd, Jtr |-> Jt,
        b_dense |-> VSub(FlatXi(val, d), MatVec(Jf, xf)),
        b_bd    |-> Vec(d, LAMBDA a : Vec(mo, LAMBDA l : RSub(val[l][a], Dot(Jd[a][l], Vec(n, LAMBDA j : inst.xi[j][a]))))),
        b_iso   |-> Mat(mo, d, LAMBDA l, a : RSub(val[l][a], Dot(Jt[l], Vec(n, LAMBDA j : inst.xi[j][a])))),
        chol_dense |-> MatScale(inst.damp, Eye(mo * d)), chol_block |-> MatScale(inst.damp, Eye(mo)),
        law_jac_series |-> MEq(Jf, Js),
        law_trace_diag |-> MEq(MatScale(RInt(d), Jt),
                               Mat(mo, n, LAMBDA l, j : RSumV(Vec(d, LAMBDA a : Jd[a][l][j])))),
        law_maxblock |-> MaxBlock(G[mo], d, nv) <= J + inst.L - 1 ])))

\* zeroth-order model of the (lifted) ODE u^(m) = f: selector of u^(m+l), offset -(D^l f)(xi)
Ts0Eval(inst, nv) ==
  LET d == inst.d  n == Len(inst.xi)  mo == inst.L + 1 IN
  With2(DList(inst.g, inst.L, d, nv), Point(inst.xi, inst.t, d, nv), LAMBDA F, x :
    [ A  |-> Mat(mo, n, LAMBDA l, j : IF j - 1 = inst.J + l - 1 THEN ROne ELSE RZero),
      b  |-> Mat(mo, d, LAMBDA l, a : RNeg(EvalPoly(F[l][a], x))),
      Jf |-> JacFull(F, x, n, d) ])

\* ------------------------------------------------------------------ behaviour: one state per instance, plus
\* one Increment step per Taylor coefficient for the ODE instances
Start(inst)  == IF inst.kind = "ode" THEN Normalise(inst.inits) ELSE <<>>
Target(inst) == IF inst.kind = "ode" THEN inst.k + 1 ELSE 0
Init == i = 1 /\ U = Start(Instances[1])
IncrementStep == /\ Len(U) < Target(Instances[i])
                 /\ U' = Increment(Instances[i], U)
                 /\ i' = i
NextInstance  == /\ Len(U) >= Target(Instances[i])
                 /\ i < Len(Instances)
                 /\ i' = i + 1
                 /\ U' = Start(Instances[i + 1])
Next == IncrementStep \/ NextInstance
Spec == Init /\ [][Next]_vars

\* ------------------------------------------------------------------ invariants / exports
RECURSIVE CleanPrefix(_, _, _)
CleanPrefix(a, b, n) == IF n < Len(a) /\ ~VecNaN(a[n + 1]) /\ ~VecNaN(b[n + 1]) THEN CleanPrefix(a, b, n + 1) ELSE n

OdeCheck(inst) ==
  With2(Denormalise(U), SolSym(inst, Len(U) - 1), LAMBDA ds, sym :
    /\ SeqEq(ds, sym)                                                   \* series recursion = symbolic differentiation
    /\ Len(U) < inst.k + 1 \/
       With2(CleanPrefix(ds, sym, 0), NV(inst.N, inst.d), LAMBDA kok, nv :
         \* the lifted residual u^(m) - f vanishes along the solution (on the representable prefix)
         /\ kok <= inst.m \/
              With(LiftSer(OdeResidual(inst.f, inst.m, inst.d, nv), inst.m + 1, SubSeq(ds, 1, kok), inst.t0,
                           kok - 1 - inst.m, inst.d, nv), LAMBDA rz :
                   \A l \in 1..Len(rz) : VEq(rz[l], VZero(inst.d)))
         /\ PrintT("@@EXP " \o ToJson([i |-> i, nan |-> kok <= inst.m,
                                       e |-> [kok |-> kok, derivs |-> SubSeq(ds, 1, kok)]]))))

LiftCheck(inst) ==
  LET d == inst.d  nv == NV(inst.N, inst.d)  n == Len(inst.c) IN
  IF ~Admissible(inst.L, n, inst.J)
  THEN PrintT("@@EXP " \o ToJson([i |-> i, nan |-> FALSE, e |-> [admissible |-> FALSE, admissible_res |-> FALSE]]))
  ELSE
   With2(LiftSer(inst.g, inst.J, inst.c, inst.t, inst.L, d, nv), LiftSym(inst.g, inst.c, inst.t, inst.L, d, nv),
    LAMBDA ser, sym :
     With3(DList(inst.g, inst.L, d, nv), inst.g[1], inst.g[Len(inst.g)], LAMBDA DL, p, q :
      /\ SeqEq(ser, sym)                                                \* series composition = D^l g evaluated
      /\ MaxBlock(DL[inst.L + 1], d, nv) <= inst.J + inst.L - 1          \* D^L g needs at most J + L coefficients
      /\ PEq(DPoly(PMul(p, q), d, nv), PAdd(PMul(DPoly(p, d, nv), q), PMul(p, DPoly(q, d, nv))))   \* Leibniz
      /\ IF inst.fromode /\ Admissible(inst.L, n, inst.J + 1)
         THEN With(OdeResidual(inst.g, inst.J, d, nv), LAMBDA r :
               With2(LiftSer(r, inst.J + 1, inst.c, inst.t, inst.L, d, nv), LiftSym(r, inst.c, inst.t, inst.L, d, nv),
                LAMBDA rser, rsym :
                  /\ SeqEq(rser, rsym)
                  \* D^l (u^(m) - f) = u^(m+l) - D^l f
                  /\ SeqEq(rser, Vec(inst.L + 1, LAMBDA l : VSub(inst.c[inst.J + l], ser[l])))
                  /\ PrintT("@@EXP " \o ToJson([i |-> i, nan |-> (SeqNaN(ser) \/ SeqNaN(sym) \/ SeqNaN(rser) \/ SeqNaN(rsym)),
                        e |-> [admissible |-> TRUE, admissible_res |-> TRUE, vals |-> ser, rvals |-> rser,
                               num_args |-> inst.J + inst.L,
                               out_idx |-> Vec(inst.L + 1, LAMBDA l : RInt(inst.J + l - 1))]]))))
         ELSE PrintT("@@EXP " \o ToJson([i |-> i, nan |-> (SeqNaN(ser) \/ SeqNaN(sym)),
                        e |-> [admissible |-> TRUE, admissible_res |-> FALSE, vals |-> ser,
                               num_args |-> inst.J + inst.L,
                               out_idx |-> Vec(inst.L + 1, LAMBDA l : RInt(inst.J + l - 1))]]))))

LinNaN(e) == MatNaN(e.Jfull) \/ MatNaN(e.val) \/ VecNaN(e.b_dense) \/ MatNaN(e.b_iso) \/ MatNaN(e.b_bd) \/ MatNaN(e.Jtr)
LinExport(e) == [val |-> e.val, Jfull |-> e.Jfull, Jdiag |-> e.Jdiag, Jtr |-> e.Jtr, b_dense |-> e.b_dense,
                 b_bd |-> e.b_bd, b_iso |-> e.b_iso, chol_dense |-> e.chol_dense, chol_block |-> e.chol_block]
LinCheck(inst) ==
  LET d == inst.d  nv == NV(inst.N, inst.d)  n == Len(inst.xi)  mo == inst.L + 1 IN
  IF inst.fromode
  THEN With2(LinEval(inst, OdeResidual(inst.g, inst.J, d, nv), inst.J + 1, nv), Ts0Eval(inst, nv), LAMBDA e, z :
        /\ e.law_jac_series /\ e.law_trace_diag /\ e.law_maxblock
        \* first-order model of the ODE constraint = selector - Jacobian of the right-hand side; same value
        /\ MEq(e.Jfull, MatSub(Kron(z.A, Eye(d)), z.Jf))
        /\ MEq(e.val, Mat(mo, d, LAMBDA l, a : RAdd(inst.xi[inst.J + l][a], z.b[l][a])))
        /\ PrintT("@@EXP " \o ToJson([i |-> i, nan |-> (LinNaN(e) \/ MatNaN(z.b)),
                                      e |-> [res |-> LinExport(e), ts0_A |-> z.A, ts0_A_dense |-> Kron(z.A, Eye(d)), ts0_b |-> z.b]])))
  ELSE With(LinEval(inst, inst.g, inst.J, nv), LAMBDA e :
        /\ e.law_jac_series /\ e.law_trace_diag /\ e.law_maxblock
        /\ PrintT("@@EXP " \o ToJson([i |-> i, nan |-> LinNaN(e), e |-> [res |-> LinExport(e)]])))

CheckAndPrint ==
  LET inst == Instances[i] IN
  CASE inst.kind = "ode"  -> OdeCheck(inst)
    [] inst.kind = "lift" -> LiftCheck(inst)
    [] inst.kind = "lin"  -> LinCheck(inst)
=============================================================================
