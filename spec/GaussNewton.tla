----------------------------- MODULE GaussNewton -----------------------------
\* L2: the constrained weighted least-squares routine of probdiffeq
\*   taylor_points.lstsq_constrained_gauss_newton(maxiter, tol)(constraint, x0, mean, cholesky)
\*        x* = argmin | L^{-1} (x - m) |^2   s.t.  g(x) = 0
\* as an explicit state machine over exact rationals.  One behaviour per instance:
\*
\*   state  (x, fx, dx, k)                         the `State` dataclass of the code (k is its field `i`)
\*   Init   (x0, g(x0), (1,...,1), 0)              dx is initialised with ones by the code
\*   Step   enabled while  cond1 /\ cond2 /\ cond3 (the code's `cond_fun`):
\*            cond1  |fx| > tol sqrt(size fx)      on squared norms:  |fx|^2 > size / T^2,  tol = 1 / T, T any integer >= 1
\*            cond2  k < maxiter
\*            cond3  |dx| > tol sqrt(size dx)
\*          J = g'(x);  H = J L;  r = fx + J (m - x);  dy = lstsq(H, r);  dx = m - x - L dy;  x+ = x + dx
\*          new state (x+, g(x+), x+ - x, k + 1)
\*   Return when the guard is false: the code returns x and the statistics
\*          iters = k, final_constraint = fx, final_increment = dx.
\*
\* lstsq(H, r) is *defined* as the minimum-norm solution; for H of full row rank that is H^T (H H^T)^{-1} r.
\* A behaviour stops (neither Step nor Return) at a state where H H^T is singular (the rank-deficient solve is
\* not modelled) or where 32-bit rationals are exhausted (NaNR of Rat.tla); the harness then uses the prefix.
\*
\* Constraints: g_k(x) = A_k . x - b_k + x^T Q_k x   (Q_k = 0: affine), so  g'_k(x) = A_k + (Q_k + Q_k^T) x.
\*
\* Checked by TLC on every state of every behaviour:
\*   InvAffine   affine  =>  at most one step; after it x is the Gaussian conditional mean
\*               m + P A^T (A P A^T)^{-1} (b - A m), P = L L^T, fx = 0 exactly, and the guard is false (iters = 1)
\*   InvRange    k >= 1  =>  x - m in range(P J^T), J the Jacobian at the previous iterate x - dx
\*               (first-order optimality up to the size of the last increment)
\*   InvTruthful the returned statistics are the last state, and are returned only when the guard is false
\*   InvBudget   k <= maxiter
\*   InvOutcome  a returned point satisfies the constraint to the tolerance, or the budget is exhausted
\*               (iters = maxiter and the reported final_constraint is above the tolerance); the third exit of the
\*               guard (increment below tolerance, constraint not) does not occur for tol <= 2^-10 when every solve had
\*               full row rank (for coarser tolerances it is a third, truthfully reported outcome "stalled")
\*   Export      (always true) prints every visited state, the return record and, for affine instances, the
\*               exact conditional mean / covariance / Mahalanobis norm of one filter update
EXTENDS RatLinAlg, Json

CONSTANT Instances   \* sequence of [m, x0, L, A, b, Q, T, maxiter]; L is D x D (zero-padded), A is K x D, Q is K x D x D
VARIABLES j, st, ret
vars == <<j, st, ret>>

Inst   == Instances[j]
Dim(inst)  == Len(inst.m)
NCon(inst) == Len(inst.b)
Cov(inst)  == Gram(inst.L)

\* ------------------------------------------------------------------ the constraint and its Jacobian
Con(inst, x) ==
  Vec(NCon(inst), LAMBDA k : RAdd(RSub(Dot(inst.A[k], x), inst.b[k]), Quad(inst.Q[k], x)))
Jac(inst, x) ==
  Mat(NCon(inst), Dim(inst), LAMBDA k, c :
        RAdd(inst.A[k][c], RAdd(Dot(inst.Q[k][c], x), Dot(Col(inst.Q[k], c), x))))
IsAffine(inst) ==
  \A k \in 1..NCon(inst) : \A r \in 1..Dim(inst) : \A c \in 1..Dim(inst) : inst.Q[k][r][c] = RZero

\* ------------------------------------------------------------------ the guard, on squared norms
NormSq(v) == Dot(v, v)
\* n2 > size / T^2 for n2 = p / q >= 0:   p T^2 > size q   <=>   p > ((size q) \div T) \div T     (floor divisions)
GtTolOK(n2, size) == ~IsNaN(n2) /\ MulOK(size, n2[2])
GtTol(n2, T, size) == n2[1] > ((size * n2[2]) \div T) \div T

StateNaN(s) == VecNaN(s.x) \/ VecNaN(s.fx) \/ VecNaN(s.dx)
N2fx(s) == NormSq(s.fx)
N2dx(s) == NormSq(s.dx)
\* the guard cannot be evaluated in 32 bits
ArithBlocked(s) == StateNaN(s) \/ ~GtTolOK(N2fx(s), Len(s.fx)) \/ ~GtTolOK(N2dx(s), Len(s.dx))

Cond1(inst, s) == GtTol(N2fx(s), inst.T, Len(s.fx))     \* constraint not yet satisfied
Cond2(inst, s) == s.k < inst.maxiter                     \* budget not yet exhausted
Cond3(inst, s) == GtTol(N2dx(s), inst.T, Len(s.dx))     \* iteration not yet converged
Cont(inst, s)  == Cond1(inst, s) /\ Cond2(inst, s) /\ Cond3(inst, s)

\* ------------------------------------------------------------------ one Gauss-Newton step
HMat(inst, x)    == MatMul(Jac(inst, x), inst.L)
StepDet(inst, x) == Det(Gram(HMat(inst, x)))
Solvable(inst, x) == With(StepDet(inst, x), LAMBDA d : ~IsNaN(d) /\ d # RZero)
\* minimum-norm least squares for full row rank
LstsqMinNorm(H, r) == MatVec(Transpose(H), MatVec(Inverse(Gram(H)), r))

InitState(inst) ==
  [x |-> inst.x0, fx |-> Con(inst, inst.x0), dx |-> Vec(Dim(inst), LAMBDA q : ROne), k |-> 0]

GNStep(inst, s) ==
  With(Jac(inst, s.x), LAMBDA J :
    With2(MatMul(J, inst.L), VAdd(s.fx, MatVec(J, VSub(inst.m, s.x))), LAMBDA H, r :
      With(LstsqMinNorm(H, r), LAMBDA dy :
        With(VSub(VSub(inst.m, s.x), MatVec(inst.L, dy)), LAMBDA dx :
          With(VAdd(s.x, dx), LAMBDA xn :
            [x |-> xn, fx |-> Con(inst, xn), dx |-> VSub(xn, s.x), k |-> s.k + 1])))))

Outcome(inst, s) ==
  IF ~Cond1(inst, s) THEN "feasible"
  ELSE IF ~Cond2(inst, s) THEN "budget_exhausted"
  ELSE "stalled"

\* ------------------------------------------------------------------ behaviours
Init == /\ j \in 1..Len(Instances)
        /\ st = InitState(Instances[j])
        /\ ret = <<>>

Step == /\ ret = <<>>
        /\ ~ArithBlocked(st)
        /\ Cont(Inst, st)
        /\ Solvable(Inst, st.x)
        /\ st' = GNStep(Inst, st)
        /\ UNCHANGED <<j, ret>>

Return == /\ ret = <<>>
          /\ ~ArithBlocked(st)
          /\ ~Cont(Inst, st)
          /\ ret' = << [x |-> st.x, iters |-> st.k, final_constraint |-> st.fx, final_increment |-> st.dx,
                        outcome |-> Outcome(Inst, st)] >>
          /\ UNCHANGED <<j, st>>

Next == Step \/ Return
Spec == Init /\ [][Next]_vars

\* ------------------------------------------------------------------ one filter update from a linearisation
\* x ~ N(m, P), P = L L^T;  y = J x + c  (no noise), conditioned on y = 0.   (DenseResidual.linearize builds
\* J = g'(xi), c = g(xi) - J xi at the Taylor point xi; for affine g that is J = A, c = -b at every point.)
LinS(inst, J)        == MatMul(MatMul(J, Cov(inst)), Transpose(J))
LinGain(inst, J)     == MatMul(MatMul(Cov(inst), Transpose(J)), Inverse(LinS(inst, J)))
LinInnov(inst, J, c) == VScale(RInt(-1), VAdd(MatVec(J, inst.m), c))
LinMean(inst, J, c)  == VAdd(inst.m, MatVec(LinGain(inst, J), LinInnov(inst, J, c)))
LinCov(inst, J)      == MatSub(Cov(inst), MatMul(MatMul(LinGain(inst, J), J), Cov(inst)))
LinMaha(inst, J, c)  == Quad(Inverse(LinS(inst, J)), LinInnov(inst, J, c))
\* the Gaussian conditional mean given an affine constraint A x = b
CondMean(inst) == LinMean(inst, inst.A, VScale(RInt(-1), inst.b))

\* ------------------------------------------------------------------ invariants
InvBudget == st.k >= 0 /\ st.k <= Inst.maxiter

InvAffine ==
  IsAffine(Inst) =>
    /\ st.k <= 1
    /\ (st.k = 1 /\ ~StateNaN(st)) =>
          /\ VEq(st.x, CondMean(Inst))
          /\ st.fx = VZero(NCon(Inst))
          /\ (ArithBlocked(st) \/ ~Cont(Inst, st))

\* x - m = P J^T y has the solution y = (J P J^T)^{-1} J (x - m) if it has one
InRange(v, P, J) ==
  With2(MatMul(P, Transpose(J)), MatMul(MatMul(J, P), Transpose(J)), LAMBDA M, S :
    VEq(MatVec(M, MatVec(Inverse(S), MatVec(J, v))), v))
InvRange ==
  (st.k >= 1 /\ ~StateNaN(st)) =>
     InRange(VSub(st.x, Inst.m), Cov(Inst), Jac(Inst, VSub(st.x, st.dx)))

InvTruthful ==
  (ret # <<>>) =>
     /\ ret[1].x = st.x /\ ret[1].iters = st.k
     /\ ret[1].final_constraint = st.fx /\ ret[1].final_increment = st.dx
     /\ ~ArithBlocked(st) /\ ~Cont(Inst, st)

\* A full-row-rank step solves the linearised constraint exactly, so the new residual is the quadratic remainder
\* dx^T Q dx; an increment below the tolerance with a residual above it ("stalled") therefore needs
\* tol |Q| D >= sqrt(K), i.e. a coarse tolerance.  For tol <= 2^-10 (the property quantifies over 1e-4..1e-12) the
\* third exit must not occur; for the coarse tolerances of the guard-band instances it is a legitimate, truthfully
\* reported outcome of the documented three-way guard.
FineTol(inst) == inst.T >= 1024
InvOutcome ==
  (ret # <<>>) =>
     /\ ret[1].outcome \in {"feasible", "budget_exhausted", "stalled"}
     /\ FineTol(Inst) => ret[1].outcome # "stalled"
     /\ (ret[1].outcome = "feasible") <=> ~Cond1(Inst, st)
     /\ (ret[1].outcome = "budget_exhausted") => (ret[1].iters = Inst.maxiter /\ Cond1(Inst, st))
     /\ (ret[1].outcome = "stalled") => (ret[1].iters < Inst.maxiter /\ Cond1(Inst, st) /\ ~Cond3(Inst, st))

\* ------------------------------------------------------------------ export for the conformance harness
ExportState ==
  With2(ArithBlocked(st), N2fx(st), LAMBDA blocked, n2 :
    PrintT("@@GN " \o ToJson(
      [j |-> j, k |-> st.k, x |-> st.x, fx |-> st.fx, dx |-> st.dx,
       nan |-> StateNaN(st), blocked |-> blocked,
       n2fx |-> n2, n2dx |-> N2dx(st),
       cont |-> IF blocked THEN FALSE ELSE Cont(Inst, st),
       cond1 |-> IF blocked THEN FALSE ELSE Cond1(Inst, st),
       cond3 |-> IF blocked THEN FALSE ELSE Cond3(Inst, st),
       solvable |-> IF blocked THEN FALSE ELSE Solvable(Inst, st.x)])))

\* the filter update of the linearisation y = J x + c (printed only if J P J^T is invertible)
LinRecord(inst, J, c) ==
  With(Det(LinS(inst, J)), LAMBDA d :
    IF IsNaN(d) \/ d = RZero THEN [ok |-> FALSE]
    ELSE With3(LinMean(inst, J, c), LinCov(inst, J), LinMaha(inst, J, c), LAMBDA cm, cc, mh :
           [ok |-> ~(VecNaN(cm) \/ MatNaN(cc) \/ IsNaN(mh)), mean |-> cm, cov |-> cc, maha |-> mh, det |-> d]))

\* at the returned point xi: J = g'(xi), c = g(xi) - J xi
ExportReturn ==
  With(Jac(Inst, st.x), LAMBDA J :
    PrintT("@@RET " \o ToJson([j |-> j, x |-> ret[1].x, iters |-> ret[1].iters,
                                final_constraint |-> ret[1].final_constraint,
                                final_increment |-> ret[1].final_increment, outcome |-> ret[1].outcome,
                                lin |-> LinRecord(Inst, J, VSub(st.fx, MatVec(J, st.x)))])))

ExportAffine ==
  PrintT("@@AFF " \o ToJson([j |-> j, lin |-> LinRecord(Inst, Inst.A, VScale(RInt(-1), Inst.b))]))

Export ==
  IF ret = <<>>
  THEN /\ ExportState
       /\ (st.k = 0 /\ IsAffine(Inst)) => ExportAffine
  ELSE ExportReturn
=============================================================================
