-------------------------- MODULE TraceAdaptiveLoop --------------------------
\* code -> spec for the L0 control plane: traces recorded from REAL adaptive solves (real probabilistic solver on a real
\* state-space model, real error estimator, real controller with arbitrary parameters) are validated against the loop
\* semantics of AdaptiveLoop.tla.
\*
\* Real runs use arbitrary floats, so the recorder replaces every float by its RANK among all floats of the trace
\* (values within 4 ulp share a rank); every statement checked here is an order statement, which rank abstraction
\* preserves.  Derived values (t + eps, t1 + eps, t1 - t, factor_min * dt, factor_max * dt) are computed by the recorder
\* with the same single IEEE operation the code uses and ranked together with the rest.
\*
\* The machine mirrors AdaptiveLoop: after every consumed event the next expected event is determined by the state
\* (LoopEnter / step_attempt / step_extract / the three-way switch / do_continue / scan), see Expect.
\* One TLC state per consumed event; verdict printed per trace.
EXTENDS Integers, Sequences, TLC, Json

CONSTANT Traces   \* sequence of [hdr |-> [ckpts: seq of [t, te], clip, dt0, t0, t0e], ev |-> seq of events]
\* attempt event: [op |-> "attempt", tf, used, tto, ttoe, acc (ep >= 1), dtout, lo, hi, rem, nfrom, nto]
\* interp event:  [op |-> "beyond" | "at", t1, ft, tt]
\* final event:   [op |-> "final", times: seq of ranks (outputs after the first), ns: seq of step counts]

VARIABLES tid, l, k, sf, ifr, dt, inl, lastUsed, out, bad
vars == <<tid, l, k, sf, ifr, dt, inl, lastUsed, out, bad>>

Hdr == Traces[tid].hdr
Ev  == Traces[tid].ev[l]
Last == Len(Hdr.ckpts)
T1 == Hdr.ckpts[k]

StartState ==
  /\ k = 2 /\ sf = [t |-> Hdr.t0, te |-> Hdr.t0e, n |-> 0] /\ ifr = Hdr.t0 /\ dt = Hdr.dt0
  /\ inl = FALSE /\ lastUsed = 0 /\ out = <<>> /\ bad = ""

Init == tid = 1 /\ l = 1 /\ k = 2 /\ sf = [t |-> Traces[1].hdr.t0, te |-> Traces[1].hdr.t0e, n |-> 0]
        /\ ifr = Traces[1].hdr.t0 /\ dt = Traces[1].hdr.dt0 /\ inl = FALSE /\ lastUsed = 0 /\ out = <<>> /\ bad = ""

\* what the loop does next
Expect ==
  IF k > Last THEN "final"
  ELSE IF inl THEN "attempt"                      \* inside the rejection loop: retry
  ELSE IF sf.te < T1.t THEN "attempt"             \* is_before_t1: enter the rejection loop / skip interpolation, continue
  ELSE IF sf.t > T1.te THEN "beyond"              \* stepped cleanly over t1
  ELSE "at"

Min2(a, b) == IF a <= b THEN a ELSE b

AttemptProblem(e) ==
  IF e.tf # sf.t \/ e.nfrom # sf.n THEN "attempt: does not start from the current step_from state (a rejected attempt must leave it untouched)"
  ELSE IF e.nto # sf.n + 1 THEN "attempt: step counter of the proposal"
  ELSE IF ~(sf.te < T1.t) THEN "attempt: a step was attempted although step_from.t + eps >= t1"
  ELSE IF (~Hdr.clip) /\ e.used # dt THEN "attempt: the attempted step is not the current proposal"
  ELSE IF Hdr.clip /\ e.used # Min2(dt, e.rem) THEN "attempt: the attempted step is not min(proposal, t1 - t)"
  ELSE IF inl /\ ~(e.used < lastUsed) THEN "attempt: the attempt after a rejection is not strictly smaller"
  ELSE IF ~(e.lo <= e.dtout /\ e.dtout <= e.hi) THEN "attempt: the new proposal is outside [factor_min, factor_max] times the attempted step"
  ELSE IF ~(e.tto > e.tf) THEN "attempt: time does not advance"
  ELSE IF Hdr.clip /\ e.tto > T1.t THEN "attempt: a clipped step ends beyond the next checkpoint"
  ELSE ""

Consume ==
  /\ tid <= Len(Traces) /\ l <= Len(Traces[tid].ev) /\ bad = ""
  /\ LET e == Ev
         x == Expect
     IN IF e.op # x
        THEN /\ bad' = "expected " \o x \o " but the trace has " \o e.op
             /\ UNCHANGED <<k, sf, ifr, dt, inl, lastUsed, out>>
        ELSE CASE x = "attempt" ->
                    /\ bad' = AttemptProblem(e)
                    /\ dt' = e.dtout
                    /\ IF e.acc
                       THEN /\ sf' = [t |-> e.tto, te |-> e.ttoe, n |-> e.nto] /\ ifr' = sf.t
                            /\ inl' = FALSE /\ lastUsed' = 0
                       ELSE /\ inl' = TRUE /\ lastUsed' = e.used /\ UNCHANGED <<sf, ifr>>
                    /\ UNCHANGED <<k, out>>
               [] x = "beyond" ->
                    /\ bad' = IF e.t1 = T1.t /\ e.ft = ifr /\ e.tt = sf.t /\ ifr <= T1.t /\ T1.t <= sf.t THEN ""
                              ELSE "beyond: interpolation is not at the checkpoint between interp_from and step_from"
                    /\ ifr' = T1.t
                    /\ out' = Append(out, [t |-> T1.t, n |-> sf.n])
                    /\ k' = k + 1
                    /\ UNCHANGED <<sf, dt, inl, lastUsed>>
               [] x = "at" ->
                    /\ bad' = IF e.ft = ifr /\ e.tt = sf.t THEN "" ELSE "at: interpolation does not use interp_from / step_from"
                    /\ ifr' = sf.t
                    /\ out' = Append(out, [t |-> sf.t, n |-> sf.n])
                    /\ k' = k + 1
                    /\ UNCHANGED <<sf, dt, inl, lastUsed>>
               [] x = "final" ->
                    /\ bad' = IF /\ Len(e.times) = Len(out) /\ Len(out) = Last - 1
                                 /\ \A q \in 1..Len(out) : e.times[q] = out[q].t /\ e.ns[q] = out[q].n
                              THEN "" ELSE "final: reported times / step counts differ from the emitted ones"
                    /\ UNCHANGED <<k, sf, ifr, dt, inl, lastUsed, out>>
  /\ l' = l + 1 /\ tid' = tid

NextTrace ==
  /\ tid <= Len(Traces)
  /\ (bad # "" \/ l > Len(Traces[tid].ev))
  /\ PrintT("@@VERDICT " \o ToJson([tid |-> tid, at |-> l,
        ok |-> (bad = "" /\ Expect = "final" /\ Len(out) = Last - 1),
        why |-> IF bad # "" THEN bad ELSE IF Len(out) = Last - 1 THEN "" ELSE "trace ended before every checkpoint was reported"]))
  /\ tid' = tid + 1 /\ l' = 1
  /\ IF tid + 1 <= Len(Traces)
     THEN /\ k' = 2 /\ sf' = [t |-> Traces[tid + 1].hdr.t0, te |-> Traces[tid + 1].hdr.t0e, n |-> 0]
          /\ ifr' = Traces[tid + 1].hdr.t0 /\ dt' = Traces[tid + 1].hdr.dt0
     ELSE UNCHANGED <<k, sf, ifr, dt>>
  /\ inl' = FALSE /\ lastUsed' = 0 /\ out' = <<>> /\ bad' = ""

Next == Consume \/ NextTrace
Spec == Init /\ [][Next]_vars
=============================================================================
