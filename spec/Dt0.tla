-------------------------------- MODULE Dt0 --------------------------------
\* L3: initial step-size proposals (property C18).
\*
\* Part A -- abstract magnitudes.  A non-negative float64 is abstracted to one of the classes
\*     zero | tiny (0 < x < 1e-15) | small (1e-15 <= x < 1e-5) | normal (1e-5 <= x < 1e150) |
\*     huge (1e150 <= x <= max float) | inf | nan .
\*   Floating-point arithmetic on classes is a *relation*: an operation on two classes yields the set of
\*   classes that the float64 result may have.  The relation is not typed in by hand but derived from the
\*   decimal-exponent ranges of the classes: an abstract value is a "may" record
\*       [z (may be 0), lo..hi (decimal exponents e = floor(log10 x) of its positive finite part), inf, nan]
\*   and +, *, /, sqrt, k-th root, min, max, the Euclidean norm (sqrt of a sum of squares, whose squares
\*   overflow above 1e154 and vanish below 1e-162) and the comparisons with the thresholds 1e-5, 1e-15
\*   act on these records with IEEE under/overflow (results below 1e-324 may be 0, results above 1e308 are
\*   inf, 0*inf = 0/0 = inf/inf = nan, comparisons with nan are false, minimum/maximum propagate nan).
\*   Both helpers of probdiffeq/_ivpsolve/stepsize_initialisers.py are transcribed branch by branch;
\*   one TLC state per combination of the classes of ||u0||, ||f0||, ||f1 - f0||, atol, rtol; the
\*   contraction rates 1..12 are quantified inside the state (they only enter through the final root).
\*   Rounding (relative 2^-53) is assumed not to move a value across a class boundary.
\*
\* Part B -- the classical starting-step heuristic of Hairer, Norsett, Wanner, "Solving Ordinary
\*   Differential Equations I", Sec. II.4, written down from the book over exact rationals (module Rat)
\*   for scalar polynomial problems y' = a0 + a1 y + a2 y^2 + b t.  The final (p+1)-th root is not
\*   rational: the specification exports h1^(p+1) and which branch of min(100 h0, h1) is taken.
EXTENDS Rat, FiniteSets, TLC, Json

CONSTANT Instances        \* Part B: sequence of [y0, t0, a0, a1, a2, b, atol, rtol, p]
\* Part A transcribes code; these two switches say WHICH code (the harness sets both to TRUE, the repaired tree):
CONSTANTS GuardedDt0,     \* TRUE: dt0 guards ||u0|| < 1e-5 with 1e-6     (repo patch c18_dt0_guard.diff)
          WeightedNorms   \* TRUE: dt0_adaptive takes d0, d1 in the tolerance-weighted norm (c18_dt0_adaptive_weighted.diff)
VARIABLES i, st

IMin(a, b) == IF a <= b THEN a ELSE b
IMax(a, b) == IF a >= b THEN a ELSE b
With(v, Op(_))         == Op(v)
With2(u, v, Op(_, _))  == Op(u, v)

(***************************************************************************)
(* Part A.1  classes and abstract values                                   *)
(***************************************************************************)
Classes == {"zero", "tiny", "small", "normal", "huge", "inf", "nan"}
PosFin  == {"tiny", "small", "normal", "huge"}          \* strictly positive and finite
EMIN == -324        \* 4.9e-324 is the smallest subnormal
EMAX == 308         \* 1.797e308 is the largest finite float64

CLo(c) == CASE c = "tiny" -> EMIN [] c = "small" -> -15 [] c = "normal" -> -5  [] c = "huge" -> 150
CHi(c) == CASE c = "tiny" -> -16  [] c = "small" -> -6  [] c = "normal" -> 149 [] c = "huge" -> EMAX

\* canonical record; an empty exponent range is lo = 1, hi = 0
AV(z, lo, hi, inf, nan) ==
  IF lo <= hi THEN [z |-> z, lo |-> lo, hi |-> hi, inf |-> inf, nan |-> nan]
              ELSE [z |-> z, lo |-> 1, hi |-> 0, inf |-> inf, nan |-> nan]
P(a)        == a.lo <= a.hi                               \* has a positive finite part
Bot         == AV(FALSE, 1, 0, FALSE, FALSE)              \* no value at all (infeasible path)
NonEmpty(a) == a.z \/ P(a) \/ a.inf \/ a.nan
NonNan(a)   == a.z \/ P(a) \/ a.inf
AZero       == AV(TRUE, 1, 0, FALSE, FALSE)
Of(c) == CASE c = "zero" -> AZero
           [] c = "inf"  -> AV(FALSE, 1, 0, TRUE, FALSE)
           [] c = "nan"  -> AV(FALSE, 1, 0, FALSE, TRUE)
           [] OTHER      -> AV(FALSE, CLo(c), CHi(c), FALSE, FALSE)
Const(e)    == AV(FALSE, e, e, FALSE, FALSE)              \* a literal m * 10^e with 1 <= m < 10
PartOnly(a) == AV(FALSE, a.lo, a.hi, FALSE, FALSE)
\* exact result with exponent somewhere in lo..hi, then rounded to float64
\* (a value of exponent 308 may exceed the largest float 1.797e308; a value of exponent -324 may round to 0)
Rng(lo, hi) == AV(lo <= EMIN, IMax(lo, EMIN), IMin(hi, EMAX), hi >= EMAX, FALSE)

Join(a, b) ==
  AV(a.z \/ b.z,
     IF P(a) /\ P(b) THEN IMin(a.lo, b.lo) ELSE IF P(a) THEN a.lo ELSE b.lo,
     IF P(a) /\ P(b) THEN IMax(a.hi, b.hi) ELSE IF P(a) THEN a.hi ELSE b.hi,
     a.inf \/ b.inf, a.nan \/ b.nan)

ClassesOf(a) ==
  {c \in PosFin : P(a) /\ a.lo <= CHi(c) /\ a.hi >= CLo(c)}
    \cup (IF a.z THEN {"zero"} ELSE {}) \cup (IF a.inf THEN {"inf"} ELSE {}) \cup (IF a.nan THEN {"nan"} ELSE {})

(***************************************************************************)
(* Part A.2  float64 arithmetic on abstract values (non-negative operands)  *)
(***************************************************************************)
Strict(a, b, r) == IF NonEmpty(a) /\ NonEmpty(b) THEN r ELSE Bot

Mul(a, b) ==
  LET pp == IF P(a) /\ P(b) THEN Rng(a.lo + b.lo, a.hi + b.hi + 1) ELSE Bot
  IN Strict(a, b,
       AV(pp.z \/ (a.z /\ (b.z \/ P(b))) \/ (b.z /\ P(a)),
          pp.lo, pp.hi,
          pp.inf \/ (a.inf /\ (P(b) \/ b.inf)) \/ (b.inf /\ P(a)),
          a.nan \/ b.nan \/ (a.z /\ b.inf) \/ (a.inf /\ b.z)))

Div(a, b) ==
  LET pp == IF P(a) /\ P(b) THEN Rng(a.lo - b.hi - 1, a.hi - b.lo) ELSE Bot
  IN Strict(a, b,
       AV(pp.z \/ (a.z /\ (P(b) \/ b.inf)) \/ (P(a) /\ b.inf),
          pp.lo, pp.hi,
          pp.inf \/ (a.inf /\ (P(b) \/ b.z)) \/ (P(a) /\ b.z),
          a.nan \/ b.nan \/ (a.z /\ b.z) \/ (a.inf /\ b.inf)))

Add(a, b) ==
  LET pp == IF P(a) /\ P(b)
            THEN AV(FALSE, IMax(a.lo, b.lo), IMin(IMax(a.hi, b.hi) + 1, EMAX), IMax(a.hi, b.hi) + 1 >= EMAX, FALSE)
            ELSE Bot
      j  == Join(Join(pp, IF b.z THEN PartOnly(a) ELSE Bot), IF a.z THEN PartOnly(b) ELSE Bot)
  IN Strict(a, b,
       AV(a.z /\ b.z, j.lo, j.hi,
          j.inf \/ (a.inf /\ NonNan(b)) \/ (b.inf /\ NonNan(a)),
          a.nan \/ b.nan))

\* numpy maximum / minimum propagate nan
Max(a, b) ==
  LET pp == IF P(a) /\ P(b) THEN AV(FALSE, IMax(a.lo, b.lo), IMax(a.hi, b.hi), FALSE, FALSE) ELSE Bot
      j  == Join(Join(pp, IF b.z THEN PartOnly(a) ELSE Bot), IF a.z THEN PartOnly(b) ELSE Bot)
  IN Strict(a, b,
       AV(a.z /\ b.z, j.lo, j.hi,
          (a.inf /\ NonNan(b)) \/ (b.inf /\ NonNan(a)),
          a.nan \/ b.nan))

Min(a, b) ==
  LET pp == IF P(a) /\ P(b) THEN AV(FALSE, IMin(a.lo, b.lo), IMin(a.hi, b.hi), FALSE, FALSE) ELSE Bot
      j  == Join(Join(pp, IF b.inf THEN PartOnly(a) ELSE Bot), IF a.inf THEN PartOnly(b) ELSE Bot)
  IN Strict(a, b,
       AV((a.z /\ NonNan(b)) \/ (b.z /\ NonNan(a)), j.lo, j.hi,
          a.inf /\ b.inf,
          a.nan \/ b.nan))

\* floor division (TLC's \div floors towards minus infinity for a positive divisor)
FloorDiv(a, k) == a \div k
\* x^(1/k): [10^lo, 10^(hi+1)) -> [10^(lo/k), 10^((hi+1)/k))
Root(a, k) == AV(a.z, FloorDiv(a.lo, k), FloorDiv(a.hi, k), a.inf, a.nan)
RootOrBot(a, k) == IF P(a) THEN Root(a, k) ELSE AV(a.z, 1, 0, a.inf, a.nan)
Sqrt(a) == RootOrBot(a, 2)

\* Euclidean norm as computed by sqrt(sum(x_i^2)) for a vector whose true norm is `a`: the squares may
\* overflow (true norm >= 1e154) or vanish (true norm < 1e-162); otherwise the norm is reproduced.
NormF(a) ==
  With(Mul(a, a), LAMBDA sq :
    IF P(sq) THEN AV(sq.z, IMax(a.lo, FloorDiv(sq.lo, 2)), IMin(a.hi, FloorDiv(sq.hi, 2)), sq.inf, sq.nan)
             ELSE AV(sq.z, 1, 0, sq.inf, sq.nan))

\* comparisons with a threshold 10^k: can the comparison come out TRUE / FALSE, and the restricted operand
CanLt(a, k)   == a.z \/ (P(a) /\ a.lo < k)                       \* x < 10^k possible
CanNotLt(a, k) == a.inf \/ a.nan \/ (P(a) /\ a.hi >= k)           \* not (x < 10^k) possible  (nan compares false)
GePart(a, k)  == AV(FALSE, IMax(a.lo, k), a.hi, a.inf, a.nan)     \* the part on which x < 10^k is false
CanLe(a, k)   == a.z \/ (P(a) /\ a.lo <= k)                      \* x <= 10^k possible (x = 10^k has exponent k)
CanNotLe(a, k) == a.inf \/ a.nan \/ (P(a) /\ a.hi >= k)
GtPart(a, k)  == AV(FALSE, IMax(a.lo, k), a.hi, a.inf, a.nan)

\* class-level relation (the tables the harness replays against numpy float64 on class representatives)
MulC(c, d) == ClassesOf(Mul(Of(c), Of(d)))
DivC(c, d) == ClassesOf(Div(Of(c), Of(d)))
AddC(c, d) == ClassesOf(Add(Of(c), Of(d)))
MaxC(c, d) == ClassesOf(Max(Of(c), Of(d)))
MinC(c, d) == ClassesOf(Min(Of(c), Of(d)))
NormC(c)   == ClassesOf(NormF(Of(c)))
SqrtC(c)   == ClassesOf(Sqrt(Of(c)))
LtC(c, k)  == (IF CanLt(Of(c), k) THEN {TRUE} ELSE {}) \cup (IF CanNotLt(Of(c), k) THEN {FALSE} ELSE {})
LeC(c, k)  == (IF CanLe(Of(c), k) THEN {TRUE} ELSE {}) \cup (IF CanNotLe(Of(c), k) THEN {FALSE} ELSE {})

\* laws of the relation, evaluated once by TLC
ArithLaws ==
  /\ \A c, d \in Classes :
       /\ MulC(c, d) = MulC(d, c) /\ AddC(c, d) = AddC(d, c) /\ MaxC(c, d) = MaxC(d, c) /\ MinC(c, d) = MinC(d, c)
       /\ MulC(c, d) # {} /\ DivC(c, d) # {} /\ AddC(c, d) # {} /\ MaxC(c, d) # {} /\ MinC(c, d) # {}
       /\ (c = "nan" => MulC(c, d) = {"nan"} /\ DivC(c, d) = {"nan"} /\ DivC(d, c) = {"nan"} /\ AddC(c, d) = {"nan"}
                         /\ MaxC(c, d) = {"nan"} /\ MinC(c, d) = {"nan"})
       /\ (c \in PosFin /\ d \in PosFin => "nan" \notin (MulC(c, d) \cup DivC(c, d) \cup AddC(c, d)))
       /\ (c \in PosFin /\ d \in PosFin \cup {"zero"} => "zero" \notin AddC(c, d))          \* x + y >= x > 0
       /\ (c = "zero" /\ d \in PosFin \cup {"zero"} => MulC(c, d) = {"zero"})
       /\ (c = "zero" /\ d \in PosFin => DivC(c, d) = {"zero"} /\ DivC(d, c) = {"inf"})
  /\ MulC("zero", "inf") = {"nan"} /\ DivC("zero", "zero") = {"nan"} /\ DivC("inf", "inf") = {"nan"}
  /\ "zero" \in MulC("tiny", "tiny") /\ "inf" \in MulC("huge", "huge")                     \* under/overflow
  /\ "inf" \in DivC("huge", "tiny") /\ "zero" \in DivC("tiny", "huge")
  /\ NormC("zero") = {"zero"} /\ NormC("small") = {"small"} /\ NormC("normal") = {"normal"}
  /\ NormC("tiny") = {"zero", "tiny"} /\ NormC("huge") = {"huge", "inf"}                   \* squares vanish / overflow
  /\ \A c \in Classes : SqrtC(c) # {} /\ LtC(c, -5) # {} /\ LeC(c, -15) # {}
  /\ LtC("nan", -5) = {FALSE} /\ LtC("zero", -5) = {TRUE} /\ LtC("small", -5) = {TRUE} /\ LtC("normal", -5) = {FALSE}
  /\ LeC("tiny", -15) = {TRUE} /\ LeC("normal", -15) = {FALSE}

(***************************************************************************)
(* Part A.3  the two helpers, branch by branch                               *)
(***************************************************************************)
\* dt0(vf, (u0,), scale=0.01, nugget=1e-5):
\*     norm_y0 = ||u0||;  norm_dy0 = ||f0|| + nugget
\*     GuardedDt0:      return where(norm_y0 < 1e-5, 1e-6, scale * norm_y0 / norm_dy0)
\*     ~GuardedDt0:     return scale * norm_y0 / norm_dy0                                 (the pinned tree)
Dt0Simple(U0, F0) ==
  With2(NormF(U0), Add(NormF(F0), Const(-5)), LAMBDA ny, ndy :
    IF GuardedDt0
    THEN Join(IF CanLt(ny, -5) THEN Const(-6) ELSE Bot,
              IF NonEmpty(GePart(ny, -5)) THEN Div(Mul(Const(-2), GePart(ny, -5)), ndy) ELSE Bot)
    ELSE Div(Mul(Const(-2), ny), ndy))

\* dt0_adaptive(vf, (y0,), t0, error_contraction_rate, rtol, atol):
\*     scale = atol + |y0| * rtol                       (elementwise: between atol and atol + ||y0|| rtol)
\*     WeightedNorms:   d0, d1 = ||y0 / scale||, ||f0 / scale||
\*     ~WeightedNorms:  d0, d1 = ||y0||, ||f0||                                           (the pinned tree)
\*     dt0 = where((d0 < 1e-5) | (d1 < 1e-5), 1e-6, 0.01 * d0 / d1)
\*     y1 = y0 + dt0 * f0;  f1 = f(y1, t0 + dt0)        (||f1 - f0|| is an input class of the model)
\*     d2 = ||(f1 - f0) / scale|| / dt0
\*     dt1 = where((d1 <= 1e-15) & (d2 <= 1e-15), maximum(1e-6, dt0 * 1e-3), (0.01 / maximum(d1, d2)) ** (1/(rate+1)))
\*     return minimum(100 * dt0, dt1)
Scale(U0, ATOL, RTOL) == Join(Add(ATOL, AZero), Add(ATOL, Mul(U0, RTOL)))

\* ||y0 / scale|| for scale_i = atol + |y0_i| rtol.  Numerator and denominator are correlated: an entry is
\*     x / (a + x r),   increasing in x,   and   min(x/a, 1/r) / 2  <=  x / (a + x r)  <=  min(x/a, 1/r) ;
\* the norm of a vector with n <= 25 entries whose largest entry is at least ||y0|| / sqrt(n) therefore lies within one
\* decade of min(||y0|| / a, 1 / r)  (Widen).  float64: |y0| * rtol may overflow, then the entry is x / inf = 0;
\* an infinite entry gives inf / inf = nan.  Without purely positive finite tolerances: plain interval quotient.
PurePos(a) == P(a) /\ ~a.z /\ ~a.inf /\ ~a.nan
Widen(a)   == IF P(a) THEN AV(a.z, IMax(a.lo - 1, EMIN), IMin(a.hi + 1, EMAX), a.inf, a.nan) ELSE a
AInf       == AV(FALSE, 1, 0, TRUE, FALSE)
WeightedSelf(U0, ATOL, RTOL) ==
  IF PurePos(ATOL) /\ PurePos(RTOL)
  THEN Join(Widen(Min(Div(U0, ATOL), Div(Const(0), RTOL))),
            Join(IF Mul(U0, RTOL).inf THEN Div(U0, AInf) ELSE Bot,
                 IF U0.inf THEN AV(FALSE, 1, 0, FALSE, TRUE) ELSE Bot))
  ELSE Div(U0, Scale(U0, ATOL, RTOL))

\* stage 1: the feasible (branch, dt0, d1-on-that-branch) triples
Stage1(d0, d1) ==
  (IF CanLt(d0, -5) \/ CanLt(d1, -5)
     THEN {[b1 |-> "guard", h0 |-> Const(-6), d1 |-> d1]} ELSE {})
  \cup
  (IF NonEmpty(GePart(d0, -5)) /\ NonEmpty(GePart(d1, -5))
     THEN {[b1 |-> "ratio", h0 |-> Div(Mul(Const(-2), GePart(d0, -5)), GePart(d1, -5)), d1 |-> GePart(d1, -5)]} ELSE {})

\* stage 2 for one stage-1 outcome: the feasible branches; "root" carries q = 0.01 / maximum(d1, d2), the
\* proposal is q ** (1/(rate+1))
Stage2(s1, d2) ==
  (IF CanLe(s1.d1, -15) /\ CanLe(d2, -15)
     THEN {[b2 |-> "flat", v |-> Max(Const(-6), Mul(s1.h0, Const(-3)))]} ELSE {})
  \cup
  (LET m == Join(IF NonEmpty(GtPart(s1.d1, -15)) THEN Max(GtPart(s1.d1, -15), d2) ELSE Bot,
                 IF NonEmpty(GtPart(d2, -15)) THEN Max(s1.d1, GtPart(d2, -15)) ELSE Bot)
   IN IF NonEmpty(m) THEN {[b2 |-> "root", v |-> Div(Const(-2), m)]} ELSE {})

\* all feasible paths (independent of the rate): set of [b1, b2, c0 = 100 dt0, v]
AdaptivePaths(U0, F0, DF, ATOL, RTOL) ==
  With(Scale(U0, ATOL, RTOL), LAMBDA sc :
    With2(IF WeightedNorms THEN NormF(WeightedSelf(U0, ATOL, RTOL)) ELSE NormF(U0),
          IF WeightedNorms THEN NormF(Div(F0, sc)) ELSE NormF(F0), LAMBDA d0, d1 :
      UNION { With(Div(NormF(Div(DF, sc)), s1.h0), LAMBDA d2 :
                { [b1 |-> s1.b1, b2 |-> s2.b2, c0 |-> Mul(Const(2), s1.h0), v |-> s2.v] : s2 \in Stage2(s1, d2) })
              : s1 \in Stage1(d0, d1) }))

Rates == 1..12
PathResult(p, r) == Min(p.c0, IF p.b2 = "flat" THEN p.v ELSE RootOrBot(p.v, r + 1))
PathsClasses(paths, r) == UNION { ClassesOf(PathResult(p, r)) : p \in paths }

\* how a class is concretised: Of for the classes as defined; OfModerate narrows "normal" to [1e-5, 1e50)
OfModerate(c) == IF c = "normal" THEN AV(FALSE, -5, 49, FALSE, FALSE) ELSE Of(c)
PathsOf(t, Conc(_)) == AdaptivePaths(Conc(t.u0), Conc(t.f0), Conc(t.df), Conc(t.atol), Conc(t.rtol))

\* result classes per rate (a sequence indexed by the rate; for dt0 the rate is irrelevant)
ByRateWith(t, Conc(_)) ==
  IF t.helper = "dt0" THEN With(ClassesOf(Dt0Simple(Conc(t.u0), Conc(t.f0))), LAMBDA c : [r \in Rates |-> c])
  ELSE With(PathsOf(t, Conc), LAMBDA paths : [r \in Rates |-> PathsClasses(paths, r)])
ByRate(t) == ByRateWith(t, Of)
UnionOf(byrate) == UNION { byrate[r] : r \in Rates }
ResultClasses(t) == UnionOf(ByRate(t))

\* ---- state space: the tuples are generated in three levels (i = 0: ||u0||, i = 1: + ||f0||, i = 2: complete tuple)
\* so that TLC's workers share the evaluation; the invariants speak about complete tuples
Blank == [helper |-> "none", u0 |-> "zero", f0 |-> "zero", df |-> "zero", atol |-> "normal", rtol |-> "normal"]
Complete == i = 2
InitAbs == i = 0 /\ st \in { [Blank EXCEPT !.u0 = u] : u \in Classes }
NextAbs ==
  \/ i = 0 /\ i' = 1 /\ st' \in { [st EXCEPT !.f0 = f] : f \in Classes }
  \/ i = 1 /\ i' = 2 /\ st' \in { [st EXCEPT !.helper = "dt0"] }
                              \cup { [st EXCEPT !.helper = "dt0_adaptive", !.df = d, !.atol = a, !.rtol = r] :
                                       d \in Classes, a \in Classes, r \in Classes }
SpecAbs == InitAbs /\ [][NextAbs]_<<i, st>>

\* the inputs the property quantifies over: finite states and derivatives of any magnitude (zero, 1e-300, 1e300
\* included), tolerances in [1e-12, 1].  ||f1 - f0|| is whatever the vector field returns at the Euler point: finite
\* for a vector field that is finite on finite arguments -- unless the helper itself made the Euler point overflow,
\* which only a huge state can cause (its norm overflows, so dt0 = inf); then f1 - f0 may be inf or nan as well.
Finite == PosFin \cup {"zero"}
InDomain(t) ==
  /\ t.u0 \in Finite /\ t.f0 \in Finite
  /\ t.df \in Finite \cup (IF t.u0 = "huge" THEN {"inf", "nan"} ELSE {})
  /\ t.atol \in {"small", "normal"} /\ t.rtol \in {"small", "normal"}
\* inputs on which nothing is extreme (with "normal" read as [1e-5, 1e50), see ModeratePositiveFinite)
Moderate(t) ==
  /\ t.u0 \in {"small", "normal"} /\ t.f0 \in {"zero", "tiny", "small", "normal"} /\ t.df \in {"zero", "tiny", "small", "normal"}
  /\ t.atol \in {"small", "normal"} /\ t.rtol \in {"small", "normal"}

\* -- invariants of the abstract model
Total == Complete => \A r \in Rates : ByRate(st)[r] # {}          \* every tuple has at least one feasible path
\* THE PROPERTY (C18, first sentence): strictly positive and finite on every covered input
PositiveFinite == (Complete /\ InDomain(st)) => ResultClasses(st) \subseteq PosFin
PositiveFiniteDt0      == st.helper = "dt0" => PositiveFinite
PositiveFiniteAdaptive == st.helper = "dt0_adaptive" => PositiveFinite
\* what does hold for the transcribed code: moderate inputs give positive finite steps
ModeratePositiveFinite == (Complete /\ Moderate(st)) => UnionOf(ByRateWith(st, OfModerate)) \subseteq PosFin
\* nan inputs are reported, not laundered: a nan tolerance gives nan
NanTolerancePropagates == (Complete /\ st.helper = "dt0_adaptive" /\ st.atol = "nan") => ResultClasses(st) = {"nan"}
\* when d0 < 1e-5 the tolerance-aware helper guards with dt0 = 1e-6, so it never proposes more than 1e-4; d0 is
\* below 1e-5 for a zero state, and for every state below 1e-5 if the norms are not weighted
GuardBoundsStep ==
  (Complete /\ st.helper = "dt0_adaptive" /\ (st.u0 = "zero" \/ (~WeightedNorms /\ st.u0 \in {"tiny", "small"})))
     => ResultClasses(st) \subseteq {"zero", "tiny", "small", "normal", "nan"}
\* the guard of dt0 (if present) makes it positive and finite for every state that is not huge and every finite f0
GuardedDt0PositiveFinite ==
  (Complete /\ GuardedDt0 /\ st.helper = "dt0" /\ st.u0 \in {"zero", "tiny", "small", "normal"} /\ st.f0 \in {"zero", "tiny", "small", "normal"})
     => ResultClasses(st) \subseteq PosFin

Export ==
  (Complete /\ InDomain(st)) =>
    With(ByRate(st), LAMBDA br :
      PrintT("@@REL " \o ToJson(
        [t |-> st, res |-> UnionOf(br), ok |-> (UnionOf(br) \subseteq PosFin), byrate |-> br,
         \* the same verdict with "normal" read as [1e-5, 1e50): does a violation need the extreme end of the class?
         okModerate |-> (UnionOf(ByRateWith(st, OfModerate)) \subseteq PosFin),
         paths |-> IF st.helper = "dt0" THEN {} ELSE { p.b1 \o "/" \o p.b2 : p \in PathsOf(st, Of) }])))

ExportArith ==
  (Complete /\ st.helper = "dt0") =>
    PrintT("@@ARITH " \o ToJson(
      [c |-> st.u0, d |-> st.f0, mul |-> MulC(st.u0, st.f0), div |-> DivC(st.u0, st.f0), add |-> AddC(st.u0, st.f0),
       max |-> MaxC(st.u0, st.f0), min |-> MinC(st.u0, st.f0), norm |-> NormC(st.u0), sqrt |-> SqrtC(st.u0),
       lt5 |-> LtC(st.u0, -5), le15 |-> LeC(st.u0, -15)]))

\* evaluated once (on the first initial state)
ArithLawsHold == (i = 0 /\ st.u0 = "zero") => ArithLaws

(***************************************************************************)
(* Part B  Hairer-Norsett-Wanner II.4 over exact rationals                  *)
(***************************************************************************)
\* f(t, y) = a0 + a1 y + a2 y^2 + b t
\* (a term with a zero coefficient is not formed: y^2 may leave 32 bits although it is not needed)
Fpoly(inst, t, y) ==
  RAdd(RAdd(inst.a0, IF inst.a1 = RZero THEN RZero ELSE RMul(inst.a1, y)),
       RAdd(IF inst.a2 = RZero THEN RZero ELSE RMul(inst.a2, RMul(y, y)),
            IF inst.b = RZero THEN RZero ELSE RMul(inst.b, t)))

Tenth5 == R(1, 100000)          \* 1e-5
Tenth6 == R(1, 1000000)         \* 1e-6

\* The book, for a method of order p, tolerance weights sc_i = Atol_i + |y0_i| Rtol_i and the norm
\* ||x|| = sqrt(1/n sum (x_i/sc_i)^2)  (n = 1 here, so ||x|| = |x| / sc):
\*   a) d0 = ||y0||, d1 = ||f(t0, y0)||
\*   b) h0 = 0.01 (d0/d1); if d0 or d1 < 1e-5 then h0 = 1e-6
\*   c) one explicit Euler step y1 = y0 + h0 f(t0, y0), evaluate f(t0 + h0, y1)
\*   d) d2 = ||f(t0 + h0, y1) - f(t0, y0)|| / h0
\*   e) h1 from h1^(p+1) max(d1, d2) = 0.01; if max(d1, d2) <= 1e-15 then h1 = max(1e-6, h0 1e-3)
\*   f) h = min(100 h0, h1)
\* A rational of module Rat has a denominator below 2^31, so a positive rational is > 4e-10: for these
\* instances "max(d1, d2) <= 1e-15" holds iff max(d1, d2) = 0.
\* x < 1e-5, decided without leaving 32 bits when x >= 1
Below5(x)   == IF RLe(ROne, x) THEN FALSE ELSE RLt(x, Tenth5)
Below5OK(x) == CmpOK(ROne, x) /\ (RLe(ROne, x) \/ CmpOK(x, Tenth5))
\* c^k <= q for c, q > 0, decided as "le" / "gt" ("nan": not decidable in 32 bits).  The power is never formed:
\* q is divided by c until 1 separates the two sides, so the intermediate values stay between q and 1.
\* For c, q < 1 dyadic brackets decide most cases: with A(x) = max{a : x 2^a <= 1},  2^-(A(x)+1) < x <= 2^-A(x).
RECURSIVE Halvings(_, _)
Halvings(x, a) == IF a < 60 /\ RLe(RMul(x, RInt(2)), ROne) THEN Halvings(RMul(x, RInt(2)), a + 1) ELSE a
RECURSIVE PowCmpDiv(_, _, _)
PowCmpDiv(c, k, q) ==
  IF ~(CmpOK(ROne, c) /\ CmpOK(ROne, q)) THEN "nan"
  ELSE IF k = 0 THEN (IF RLe(ROne, q) THEN "le" ELSE "gt")
  ELSE IF RLe(ROne, c) /\ RLt(q, ROne) THEN "gt"
  ELSE IF RLe(c, ROne) /\ RLe(ROne, q) THEN "le"
  ELSE PowCmpDiv(c, k - 1, RDiv(q, c))
PowCmp(c, k, q) ==
  IF CmpOK(ROne, c) /\ CmpOK(ROne, q) /\ RLt(c, ROne) /\ RLt(q, ROne)
  THEN LET ac == Halvings(c, 0)  aq == Halvings(q, 0)
       IN IF k * ac >= aq + 1 THEN "le"             \* c^k <= 2^-(k ac) <= 2^-(aq+1) < q
          ELSE IF k * (ac + 1) <= aq THEN "gt"      \* c^k > 2^-(k (ac+1)) >= 2^-aq >= q
          ELSE PowCmpDiv(c, k, q)
  ELSE PowCmpDiv(c, k, q)

HNW(inst) ==
  LET sc  == RAdd(inst.atol, RMul(RAbs(inst.y0), inst.rtol))
      f0  == Fpoly(inst, inst.t0, inst.y0)
      d0  == RDiv(RAbs(inst.y0), sc)
      d1  == RDiv(RAbs(f0), sc)
      guard == Below5(d0) \/ Below5(d1)
      h0  == IF guard THEN Tenth6 ELSE RMul(R(1, 100), RDiv(d0, d1))
      y1  == RAdd(inst.y0, RMul(h0, f0))
      f1  == Fpoly(inst, RAdd(inst.t0, h0), y1)
      d2  == RDiv(RDiv(RAbs(RSub(f1, f0)), sc), h0)
      m   == RMax(d1, d2)
      flat == m = RZero
      h1flat == RMax(Tenth6, RMul(h0, R(1, 1000)))
      h1pow  == RDiv(R(1, 100), m)                                \* h1^(p+1)
      c0  == RMul(RInt(100), h0)                                  \* 100 h0
      pcmp == PowCmp(c0, inst.p + 1, h1pow)
      takeC0 == IF flat THEN RLe(c0, h1flat) ELSE pcmp = "le"
      cmpOK == /\ Below5OK(d0) /\ Below5OK(d1) /\ CmpOK(d1, d2)
               /\ (flat => CmpOK(c0, h1flat))
               /\ CmpOK(Tenth6, RMul(h0, R(1, 1000)))
      undecided == ~flat /\ pcmp = "nan"        \* min(100 h0, h1) not decidable in 32 bits: both candidates are exported
  IN [ sc |-> sc, f0 |-> f0, d0 |-> d0, d1 |-> d1, d2 |-> d2, h0 |-> h0, y1 |-> y1, f1 |-> f1,
       guard |-> guard, flat |-> flat,
       branch |-> IF undecided THEN "undecided" ELSE IF takeC0 THEN "100h0" ELSE "h1",
       \* what is exported: the step itself where it is rational ("value"), otherwise its (p+1)-th power ("power");
       \* "either": h = min(val, alt^(1/(p+1))) with val = 100 h0 and alt = h1^(p+1)
       kind |-> IF undecided THEN "either" ELSE IF takeC0 \/ flat THEN "value" ELSE "power",
       val  |-> IF undecided \/ takeC0 THEN c0 ELSE IF flat THEN h1flat ELSE h1pow,
       alt  |-> IF flat THEN h1flat ELSE h1pow,
       nan  |-> IsNaN(sc) \/ IsNaN(d0) \/ IsNaN(d1) \/ IsNaN(d2) \/ IsNaN(h0) \/ IsNaN(c0)
                 \/ (IF flat THEN IsNaN(h1flat) ELSE IsNaN(h1pow)) \/ ~cmpOK ]

\* y -> c y: the weighted norms make the heuristic invariant under a change of units of the state
Rescaled(inst, c) ==
  [inst EXCEPT !.y0 = RMul(c, inst.y0), !.a0 = RMul(c, inst.a0), !.a2 = RDiv(inst.a2, c),
               !.b = RMul(c, inst.b), !.atol = RMul(c, inst.atol)]
\* t -> t + s for autonomous problems
Shifted(inst, s) == [inst EXCEPT !.t0 = RAdd(inst.t0, s)]

\* (rationals are kept in lowest terms, so equality of values is equality of pairs)
SameStep(e1, e2) == e1.nan \/ e2.nan \/ (e1.kind = e2.kind /\ e1.branch = e2.branch /\ e1.val = e2.val /\ e1.alt = e2.alt /\ e1.h0 = e2.h0)

Init == i = 1 /\ st = "exact"
Next == i < Len(Instances) /\ i' = i + 1 /\ UNCHANGED st
Spec == Init /\ [][Next]_<<i, st>>

E == HNW(Instances[i])
\* laws of the specification, checked by TLC on every instance (an instance that leaves 32 bits is exempt: nan)
HnwPositive      == E.nan \/ (RLt(RZero, E.h0) /\ RLt(RZero, E.val))
HnwGuardValue    == E.nan \/ (E.guard => REq(E.h0, Tenth6))
HnwBounded       == E.nan \/ E.kind = "power" \/ E.val = RMul(RInt(100), E.h0) \/ RLe(E.val, RMul(RInt(100), E.h0))               \* h <= 100 h0
HnwUnitInvariant == /\ SameStep(E, HNW(Rescaled(Instances[i], RInt(2))))                           \* y -> 2 y, y -> y/4
                    /\ SameStep(E, HNW(Rescaled(Instances[i], R(1, 4))))
HnwShiftInvariant == REq(Instances[i].b, RZero) => SameStep(E, HNW(Shifted(Instances[i], ROne)))    \* autonomous: t -> t + 1

CheckAndPrint ==
  With(E, LAMBDA e :
    PrintT("@@EXP " \o ToJson([i |-> i, nan |-> e.nan,
                                e |-> [h0 |-> e.h0, d0 |-> e.d0, d1 |-> e.d1, d2 |-> e.d2, sc |-> e.sc, val |-> e.val, alt |-> e.alt,
                                       kind |-> e.kind, branch |-> e.branch, guard |-> e.guard, flat |-> e.flat]])))
=============================================================================
