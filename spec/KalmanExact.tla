----------------------------- MODULE KalmanExact -----------------------------
\* L2: one and two steps of a probabilistic ODE solver, end to end, over the exact rationals.
\*
\* Model.  State x = (u, u', ..., u^(q)) in R^((q+1) d), coefficient-major: (coefficient j, dimension a) -> j d + a.
\*   prior          x(t+h) | x(t) ~ N(A x(t), Q_s),   A = A1(q,h) (x) I_d,  Q_s = Q1(q,h) (x) diag(lam_a^2 s_a^2)
\*                  (A1, Q1: the integrated Wiener process of IwpExact.tla; s = calibrated output scale, lam = base scale)
\*   initial        x(t0) ~ N(m0, diag(eps^2 on the given, deps^2 on the diffuse coefficients))   (m0 = exact Taylor
\*                  coefficients supplied by the harness, zeros for the appended diffuse ones)
\*   ODE            u^(k) = f(u, .., u^(k-1), t),  k in {1, 2},  polynomial:
\*                  f_a = c0_a + c3_a t + sum_b c1_ab u_b + c2_a u_a^2 + [k = 2] (sum_b e1_ab u'_b + e2_a u_a u'_a)
\*   information    r(x, t) = x_k - f(x_0, .., x_(k-1), t) = 0, observed with noise N(0, damp^2 I)
\*   linearisation  at a point m:  r(x) ~ H x + b,  H = E_k - sum_(j<k) Jred_j E_j,  b = r(m) - H m, where Jred_j is
\*                    ts0           : 0
\*                    ts1_dense     : df/du^(j) (m)
\*                    ts1_blockdiag : its diagonal
\*                    ts1_isotropic : (trace / d) I
\* One solver step from N(m, P) at time t (textbook extended Kalman filter):
\*   uncalibrated / MLE : mp = A m, Pp = A P A^T + Q_1; linearise at (mp, t+h); z = H mp + b; S = H Pp H^T + damp^2 I;
\*                        K = Pp H^T S^-1; m' = mp - K z; P' = Pp - K S K^T.
\*                        MLE: term = z^T S^-1 z / d; reported scale^2 = mean of the terms (/ number of steps if the
\*                        asymptotic-underconfidence correction is on); every returned covariance is multiplied by it.
\*   dynamic            : linearise at (A m, t+h); S0 = H Q_1 H^T + damp^2 I; s^2 = z^T S0^-1 z / d; then the step above with Q_s
\*                        (dynamic_relin: linearised again at the calibrated prediction).
\*   percal (block-diagonal model): one scale per dimension, term_a = z_a^2 / S_aa.
\*   initc: an additional update with the constraint linearised at (m0, t0) before the first step.
\* Smoothing (fixed interval) is *defined* by conditioning the joint Gaussian of the linearised model: the state at t1
\* given the data of step 2 is x1 | z2 = 0 with Cov(x1, z2) = P1 A^T H2^T, Var(z2) = S2; the state at t0 by conditioning
\* the joint of (x0, x1) first on z1 and then on z2.  The Rauch-Tung-Striebel recursion is a law (checked where the
\* predicted covariance is invertible).
\*
\* TLC evaluates every instance exactly (Rat.tla: anything that leaves 32 bits becomes NaN and the instance is flagged),
\* checks the laws at the end of this module as one invariant and prints the expected values for the harness.
EXTENDS RatLinAlg, TLC, Json

CONSTANT Instances
VARIABLE i
vars == <<i>>
Init == i = 1
Next == i < Len(Instances) /\ i' = i + 1
Spec == Init /\ [][Next]_vars

With4(a, b, c, e, F(_, _, _, _)) == F(a, b, c, e)

\* ------------------------------------------------------------------ prior (as in IwpExact.tla)
RECURSIVE Fact(_)
Fact(n) == IF n <= 1 THEN 1 ELSE n * Fact(n - 1)
A1(q, h) == Mat(q + 1, q + 1, LAMBDA a, b : IF b >= a THEN RMul(RPow(h, b - a), R(1, Fact(b - a))) ELSE RZero)
Q1(q, h) == Mat(q + 1, q + 1, LAMBDA a, b :
              LET e == 2 * q + 1 - (a - 1) - (b - 1)
              IN  RMul(RPow(h, e), R(1, e * Fact(q - (a - 1)) * Fact(q - (b - 1)))))

\* ------------------------------------------------------------------ layout helpers
NN(inst)  == (inst.q + 1) * inst.d
Dm(p, d)  == ((p - 1) % d) + 1          \* dimension (1-based) of dense index p
Cf(p, d)  == (p - 1) \div d             \* coefficient (0-based) of dense index p
Ones(d)   == Vec(d, LAMBDA a : ROne)
NaNVec(n) == Vec(n, LAMBDA a : NaNR)
NaNMat(r, c) == Mat(r, c, LAMBDA a, b : NaNR)
Coef(inst, m, j) == SubVec(m, j * inst.d + 1, (j + 1) * inst.d)        \* coefficient j of a dense mean
IsDyn(inst) == inst.cal \in {"dynamic", "dynamic_relin"}
IsMle(inst) == inst.cal \in {"mle", "mle_nocorr"}

\* ------------------------------------------------------------------ vector field, Jacobians, linearisation
FVal(inst, m, t) ==
  Vec(inst.d, LAMBDA a :
    LET u0 == m[a]
        base == RAdd(RAdd(inst.c0[a], RMul(inst.c3[a], t)),
                     RAdd(Dot(inst.c1[a], Coef(inst, m, 0)), RMul(inst.c2[a], RMul(u0, u0))))
    IN  IF inst.k = 2
        THEN RAdd(base, RAdd(Dot(inst.e1[a], Coef(inst, m, 1)), RMul(inst.e2[a], RMul(u0, m[inst.d + a]))))
        ELSE base)

\* df/du^(j) at m, j < k
JFull(inst, m, j) ==
  Mat(inst.d, inst.d, LAMBDA a, b :
    IF j = 0
    THEN RAdd(inst.c1[a][b],
              IF a = b THEN RAdd(RMul(RInt(2), RMul(inst.c2[a], m[a])),
                                 IF inst.k = 2 THEN RMul(inst.e2[a], m[inst.d + a]) ELSE RZero)
              ELSE RZero)
    ELSE RAdd(inst.e1[a][b], IF a = b THEN RMul(inst.e2[a], m[a]) ELSE RZero))

\* the Jacobian structure that the linearisation mode keeps
JRed(lin, d, J) ==
  IF lin = "ts0" THEN MZero(d, d)
  ELSE IF lin = "ts1_dense" THEN J
  ELSE IF lin = "ts1_blockdiag" THEN Mat(d, d, LAMBDA a, b : IF a = b THEN J[a][a] ELSE RZero)
  ELSE With(RDiv(Trace(J), RInt(d)), LAMBDA tr : Mat(d, d, LAMBDA a, b : IF a = b THEN tr ELSE RZero))

Residual(inst, m, t) == VSub(Coef(inst, m, inst.k), FVal(inst, m, t))

\* H x + b, the constraint linearised at m (time t)
Lin(inst, m, t) ==
  With2(JRed(inst.lin, inst.d, JFull(inst, m, 0)),
        IF inst.k = 2 THEN JRed(inst.lin, inst.d, JFull(inst, m, 1)) ELSE MZero(inst.d, inst.d), LAMBDA J0, J1 :
    With(Mat(inst.d, NN(inst), LAMBDA a, p :
           LET j == Cf(p, inst.d)  b == Dm(p, inst.d)
           IN  IF j = inst.k THEN (IF a = b THEN ROne ELSE RZero)
               ELSE IF j = 0 THEN RNeg(J0[a][b])
               ELSE IF j = 1 /\ inst.k = 2 THEN RNeg(J1[a][b])
               ELSE RZero), LAMBDA H :
      [H |-> H, b |-> VSub(Residual(inst, m, t), MatVec(H, m))]))

\* ------------------------------------------------------------------ Kalman update
\* whitened residual energy per dimension of the output-scale vector
Terms(inst, z, S, Si) ==
  IF inst.percal THEN Vec(inst.d, LAMBDA a : RDiv(RMul(z[a], z[a]), S[a][a]))
  ELSE With(RDiv(Quad(Si, z), RInt(inst.d)), LAMBDA v : Vec(inst.d, LAMBDA a : v))

Upd(inst, mp, Pp, L) ==
  With3(VAdd(MatVec(L.H, mp), L.b), MatMul(Pp, Transpose(L.H)), RMul(inst.damp, inst.damp), LAMBDA z, C, r2 :
    With(MatAdd(MatMul(L.H, C), MatScale(r2, Eye(inst.d))), LAMBDA S :
      IF Det(S) = RZero
      THEN [sing |-> TRUE, m |-> NaNVec(Len(mp)), P |-> NaNMat(Len(mp), Len(mp)), z |-> z, S |-> S,
            Si |-> NaNMat(inst.d, inst.d), K |-> NaNMat(Len(mp), inst.d), C |-> C, tv |-> NaNVec(inst.d), H |-> L.H]
      ELSE With(Inverse(S), LAMBDA Si : With(MatMul(C, Si), LAMBDA K :
             [sing |-> FALSE, m |-> VSub(mp, MatVec(K, z)), P |-> MatSub(Pp, MatMul(K, Transpose(C))), z |-> z, S |-> S,
              Si |-> Si, K |-> K, C |-> C, tv |-> Terms(inst, z, S, Si), H |-> L.H]))))

\* process noise for the scale^2 vector s2
QS(inst, Qh, s2) == Kron(Qh, Diag(Vec(inst.d, LAMBDA a : RMul(RMul(inst.lam[a], inst.lam[a]), s2[a]))))

\* scale^2 of the dynamic calibration: residual of the mean-only unit-scale extrapolation
DynScale(inst, mp, Qone, L) ==
  With2(VAdd(MatVec(L.H, mp), L.b), MatAdd(MatMul(MatMul(L.H, Qone), Transpose(L.H)), MatScale(RMul(inst.damp, inst.damp), Eye(inst.d))), LAMBDA z, S :
    IF Det(S) = RZero THEN NaNVec(inst.d) ELSE Terms(inst, z, S, Inverse(S)))

\* one solver step from N(m, P) to time t1; A = A1 (x) I, Qh = Q1(q, h)
Step(inst, A, Qh, m, P, t1) ==
  With3(MatVec(A, m), MatMul(MatMul(A, P), Transpose(A)), QS(inst, Qh, Ones(inst.d)), LAMBDA mp, APA, Qone :
    IF IsDyn(inst)
    THEN With(Lin(inst, mp, t1), LAMBDA L0 :
           With(DynScale(inst, mp, Qone, L0), LAMBDA s2 :
             With(MatAdd(APA, QS(inst, Qh, s2)), LAMBDA Pp :
               Upd(inst, mp, Pp, IF inst.cal = "dynamic_relin" THEN Lin(inst, mp, t1) ELSE L0)
                 @@ [mp |-> mp, Pp |-> Pp, s2 |-> s2])))
    ELSE With(MatAdd(APA, Qone), LAMBDA Pp :
           Upd(inst, mp, Pp, Lin(inst, mp, t1)) @@ [mp |-> mp, Pp |-> Pp, s2 |-> Ones(inst.d)]))

\* initial variance of Taylor coefficient j (1-based): the given coefficients carry eps^2, the `diffuse` appended ones
\* (prior_wiener_integrated(..., diffuse_derivatives, diffuse_eps): mean zero, supplied as zeros in m0) carry deps^2
InitVar(inst, j) == IF j <= inst.q + 1 - inst.diffuse THEN RMul(inst.eps, inst.eps) ELSE RMul(inst.deps, inst.deps)
InitCov(inst) == Diag(Vec(NN(inst), LAMBDA idx : InitVar(inst, ((idx - 1) \div inst.d) + 1)))
InitCovBlock(inst) == Diag(Vec(inst.q + 1, LAMBDA j : InitVar(inst, j)))

\* state at t0 (after the optional initial-constraint update)
Start(inst) ==
  With(InitCov(inst), LAMBDA P0 :
    IF inst.initc THEN Upd(inst, inst.m0, P0, Lin(inst, inst.m0, inst.t0))
    ELSE [sing |-> FALSE, m |-> inst.m0, P |-> P0, tv |-> VZero(inst.d)])

\* reported scale^2 of solver_mle from the per-update terms
MleScale(inst, tv0, tvsum) ==
  IF IsMle(inst)
  THEN VScale(R(1, (inst.nsteps + (IF inst.initc THEN 1 ELSE 0)) * (IF inst.cal = "mle" THEN inst.nsteps ELSE 1)),
              IF inst.initc THEN VAdd(tv0, tvsum) ELSE tvsum)
  ELSE Ones(inst.d)

\* covariance after multiplication with the calibrated scale (g = scale^2 per dimension)
CalCov(inst, P, g) ==
  Mat(Rows(P), Cols(P), LAMBDA p, r :
    LET a == Dm(p, inst.d)  b == Dm(r, inst.d)
    IN  IF g[a] = g[b] THEN RMul(g[a], P[p][r]) ELSE IF P[p][r] = RZero THEN RZero ELSE NaNR)

\* conditioning helpers: x ~ N(m, P), Cov(x, z) = C, z ~ N(zhat, S), data z = 0
CondMean(m, C, Si, zhat) == VSub(m, MatVec(MatMul(C, Si), zhat))
CondCov(P, C, Si)        == MatSub(P, MatMul(MatMul(C, Si), Transpose(C)))

\* a calibrated scale of exactly zero: the predicted covariance A P A^T + 0 is then singular and the backward
\* (smoothing) conditionals of a Rauch-Tung-Striebel implementation are undefined; exported so that the harness can tell
HasZero(v) == \E a \in 1..Len(v) : v[a] = RZero

Finish1(inst, A, s0, s1) ==
  With2(MleScale(inst, s0.tv, s1.tv), MatMul(MatMul(s0.P, Transpose(A)), Transpose(s1.H)), LAMBDA g, C0 :
    [ means  |-> <<s0.m, s1.m>>,
      raw    |-> <<s0.P, s1.P>>,
      covs   |-> <<CalCov(inst, s0.P, g), CalCov(inst, s1.P, g)>>,
      terms  |-> <<s1.tv>>,
      scale2 |-> IF IsDyn(inst) THEN <<s1.s2>> ELSE <<g>>,
      sm_means |-> <<CondMean(s0.m, C0, s1.Si, s1.z), s1.m>>,
      sm_covs  |-> <<CalCov(inst, CondCov(s0.P, C0, s1.Si), g), CalCov(inst, s1.P, g)>>,
      pred   |-> <<[m |-> s1.mp, P |-> s1.Pp]>>,
      zscale |-> HasZero(s1.s2),
      sing   |-> s0.sing \/ s1.sing ])

Finish2(inst, A, s0, s1, s2) ==
  With4(MleScale(inst, s0.tv, VAdd(s1.tv, s2.tv)),
        MatMul(MatMul(s0.P, Transpose(A)), Transpose(s1.H)),                   \* Cov(x0, z1)
        MatMul(MatMul(s1.P, Transpose(A)), Transpose(s2.H)),                   \* Cov(x1, z2 | z1)
        MatMul(s0.P, Transpose(A)), LAMBDA g, C0, C1, P0At :
    With3(CondMean(s0.m, C0, s1.Si, s1.z), CondCov(s0.P, C0, s1.Si),
          \* Cov(x0, x1 | z1) A^T H2^T
          MatMul(MatMul(MatSub(P0At, MatMul(C0, Transpose(s1.K))), Transpose(A)), Transpose(s2.H)), LAMBDA m01, P01, D0 :
      [ means  |-> <<s0.m, s1.m, s2.m>>,
        raw    |-> <<s0.P, s1.P, s2.P>>,
        covs   |-> <<CalCov(inst, s0.P, g), CalCov(inst, s1.P, g), CalCov(inst, s2.P, g)>>,
        terms  |-> <<s1.tv, s2.tv>>,
        scale2 |-> IF IsDyn(inst) THEN <<s1.s2, s2.s2>> ELSE <<g>>,
        sm_means |-> <<CondMean(m01, D0, s2.Si, s2.z), CondMean(s1.m, C1, s2.Si, s2.z), s2.m>>,
        sm_covs  |-> <<CalCov(inst, CondCov(P01, D0, s2.Si), g), CalCov(inst, CondCov(s1.P, C1, s2.Si), g), CalCov(inst, s2.P, g)>>,
        pred   |-> <<[m |-> s1.mp, P |-> s1.Pp], [m |-> s2.mp, P |-> s2.Pp]>>,
        zscale |-> HasZero(s1.s2) \/ HasZero(s2.s2),
        sing   |-> s0.sing \/ s1.sing \/ s2.sing ]))

Run(inst) ==
  With2(Kron(A1(inst.q, inst.h), Eye(inst.d)), Q1(inst.q, inst.h), LAMBDA A, Qh :
    With(Start(inst), LAMBDA s0 :
      With(Step(inst, A, Qh, s0.m, s0.P, RAdd(inst.t0, inst.h)), LAMBDA s1 :
        IF inst.nsteps = 1 THEN Finish1(inst, A, s0, s1)
        ELSE With(Step(inst, A, Qh, s1.m, s1.P, RAdd(inst.t0, RMul(RInt(2), inst.h))), LAMBDA s2 :
               Finish2(inst, A, s0, s1, s2)))))

\* ------------------------------------------------------------------ the same recursion, one (q+1) x (q+1) system per dimension
\* (what the isotropic and block-diagonal factorisations compute).  Applicable when H is block diagonal
\* (every mode but ts1_dense).  A state is a pair of sequences over the dimensions: means MB[a], covariances PB[a].
EmbV(d, n, MB) == Vec(n * d, LAMBDA p : MB[Dm(p, d)][Cf(p, d) + 1])
EmbM(d, n, PB) == Mat(n * d, n * d, LAMBDA p, r : IF Dm(p, d) = Dm(r, d) THEN PB[Dm(p, d)][Cf(p, d) + 1][Cf(r, d) + 1] ELSE RZero)
Outer(u, v)    == Mat(Len(u), Len(v), LAMBDA a, b : RMul(u[a], v[b]))

BTerms(inst, z, SB) ==
  IF inst.percal THEN Vec(inst.d, LAMBDA a : RDiv(RMul(z[a], z[a]), SB[a]))
  ELSE With(RDiv(RSumSeq(Vec(inst.d, LAMBDA a : RDiv(RMul(z[a], z[a]), SB[a]))), RInt(inst.d)), LAMBDA v : Vec(inst.d, LAMBDA a : v))

\* row a of H restricted to the coefficients of dimension a
HRow(inst, H, a) == Vec(inst.q + 1, LAMBDA j : H[a][(j - 1) * inst.d + a])

BUpd(inst, mpB, PpB, L) ==
  With2(VAdd(MatVec(L.H, EmbV(inst.d, inst.q + 1, mpB)), L.b), RMul(inst.damp, inst.damp), LAMBDA z, r2 :
    With(Vec(inst.d, LAMBDA a : With(HRow(inst, L.H, a), LAMBDA ha : MatVec(PpB[a], ha))), LAMBDA CB :     \* Pp_a h_a
      With(Vec(inst.d, LAMBDA a : RAdd(Dot(HRow(inst, L.H, a), CB[a]), r2)), LAMBDA SB :
        IF \E a \in 1..inst.d : SB[a] = RZero
        THEN [sing |-> TRUE, MB |-> Vec(inst.d, LAMBDA a : NaNVec(inst.q + 1)), PB |-> Vec(inst.d, LAMBDA a : NaNMat(inst.q + 1, inst.q + 1)), tv |-> NaNVec(inst.d)]
        ELSE [sing |-> FALSE,
              MB |-> Vec(inst.d, LAMBDA a : VSub(mpB[a], VScale(RDiv(z[a], SB[a]), CB[a]))),
              PB |-> Vec(inst.d, LAMBDA a : MatSub(PpB[a], MatScale(RInv(SB[a]), Outer(CB[a], CB[a])))),
              tv |-> BTerms(inst, z, SB)])))

BStep(inst, Ah, Qh, MB, PB, t1) ==
  With3(Vec(inst.d, LAMBDA a : MatVec(Ah, MB[a])),
        Vec(inst.d, LAMBDA a : MatMul(MatMul(Ah, PB[a]), Transpose(Ah))),
        Vec(inst.d, LAMBDA a : MatScale(RMul(inst.lam[a], inst.lam[a]), Qh)), LAMBDA mpB, APA, QB :
    With(Lin(inst, EmbV(inst.d, inst.q + 1, mpB), t1), LAMBDA L :
      IF IsDyn(inst)
      THEN With(Vec(inst.d, LAMBDA a : RAdd(Quad(QB[a], HRow(inst, L.H, a)), RMul(inst.damp, inst.damp))), LAMBDA S0 :
             With(IF \E a \in 1..inst.d : S0[a] = RZero THEN NaNVec(inst.d)
                  ELSE BTerms(inst, VAdd(MatVec(L.H, EmbV(inst.d, inst.q + 1, mpB)), L.b), S0), LAMBDA s2 :
               BUpd(inst, mpB, Vec(inst.d, LAMBDA a : MatAdd(APA[a], MatScale(s2[a], QB[a]))), L) @@ [s2 |-> s2]))
      ELSE BUpd(inst, mpB, Vec(inst.d, LAMBDA a : MatAdd(APA[a], QB[a])), L) @@ [s2 |-> Ones(inst.d)]))

BStart(inst) ==
  With2(Vec(inst.d, LAMBDA a : Vec(inst.q + 1, LAMBDA j : inst.m0[(j - 1) * inst.d + a])),
        Vec(inst.d, LAMBDA a : InitCovBlock(inst)), LAMBDA MB, PB :
    IF inst.initc THEN BUpd(inst, MB, PB, Lin(inst, inst.m0, inst.t0))
    ELSE [sing |-> FALSE, MB |-> MB, PB |-> PB, tv |-> VZero(inst.d)])

BRun(inst) ==
  With2(A1(inst.q, inst.h), Q1(inst.q, inst.h), LAMBDA Ah, Qh :
    With(BStart(inst), LAMBDA s0 :
      With(BStep(inst, Ah, Qh, s0.MB, s0.PB, RAdd(inst.t0, inst.h)), LAMBDA s1 :
        IF inst.nsteps = 1
        THEN [ MB |-> <<s0.MB, s1.MB>>, PB |-> <<s0.PB, s1.PB>>, terms |-> <<s1.tv>>, s2 |-> <<s1.s2>>,
               mle |-> MleScale(inst, s0.tv, s1.tv) ]
        ELSE With(BStep(inst, Ah, Qh, s1.MB, s1.PB, RAdd(inst.t0, RMul(RInt(2), inst.h))), LAMBDA s2 :
               [ MB |-> <<s0.MB, s1.MB, s2.MB>>, PB |-> <<s0.PB, s1.PB, s2.PB>>, terms |-> <<s1.tv, s2.tv>>, s2 |-> <<s1.s2, s2.s2>>,
                 mle |-> MleScale(inst, s0.tv, VAdd(s1.tv, s2.tv)) ]))))

\* ------------------------------------------------------------------ laws
RunNaN(rr) ==
  \/ \E k \in 1..Len(rr.means) : VecNaN(rr.means[k]) \/ MatNaN(rr.covs[k]) \/ VecNaN(rr.sm_means[k]) \/ MatNaN(rr.sm_covs[k])
  \/ \E k \in 1..Len(rr.scale2) : VecNaN(rr.scale2[k])

Structured(inst) == inst.lin # "ts1_dense"
EqualLam(inst)   == \A a \in 1..inst.d : inst.lam[a] = inst.lam[1]
IsDiag(M)        == \A a \in 1..Rows(M) : \A b \in 1..Cols(M) : a = b \/ M[a][b] = RZero
IsScalarMat(M)   == IsDiag(M) /\ \A a \in 1..Rows(M) : M[a][a] = M[1][1]
Decoupled(inst)  == IsDiag(inst.c1) /\ IsDiag(inst.e1)
\* Jacobian = multiple of the identity at every point
ScalarJac(inst)  == /\ IsScalarMat(inst.c1) /\ IsScalarMat(inst.e1)
                    /\ \A a \in 1..inst.d : inst.c2[a] = RZero /\ inst.e2[a] = RZero
LeN(a, b)        == ~CmpOK(a, b) \/ RLe(a, b)
SameRun(R1, R2)  ==
  /\ \A k \in 1..Len(R1.means) : /\ VEq(R1.means[k], R2.means[k]) /\ MEq(R1.covs[k], R2.covs[k])
                                 /\ VEq(R1.sm_means[k], R2.sm_means[k]) /\ MEq(R1.sm_covs[k], R2.sm_covs[k])
  /\ \A k \in 1..Len(R1.scale2) : VEq(R1.scale2[k], R2.scale2[k])

\* (i) factorisation agreement: the dense recursion is the embedding of the per-dimension recursion whenever H is
\* block diagonal; with a shared h (ts0, ts1_isotropic) and equal base scales all blocks coincide: P = P_1d (x) I_d.
LawFactor(inst, rr) ==
  Structured(inst) =>
    With(BRun(inst), LAMBDA B :
      /\ \A k \in 1..Len(rr.means) :
            /\ VEq(EmbV(inst.d, inst.q + 1, B.MB[k]), rr.means[k])
            /\ MEq(EmbM(inst.d, inst.q + 1, B.PB[k]), rr.raw[k])
      /\ \A k \in 1..Len(rr.terms) : VEq(B.terms[k], rr.terms[k])
      /\ IsDyn(inst) => \A k \in 1..Len(rr.scale2) : VEq(B.s2[k], rr.scale2[k])
      /\ IsMle(inst) => VEq(B.mle, rr.scale2[1])
      /\ (inst.lin \in {"ts0", "ts1_isotropic"} /\ EqualLam(inst) /\ (~inst.percal \/ ~IsDyn(inst))) =>
            \A k \in 1..Len(rr.means) : MEq(rr.raw[k], Kron(B.PB[k][1], Eye(inst.d))))

\* (i) block-diagonal MLE scale = per-dimension split of the same residual energy (ts0, equal base scales):
\* same means and same uncalibrated covariances, and sum_a s_a^2 = d s^2
LawSplit(inst, rr) ==
  (inst.lin = "ts0" /\ EqualLam(inst) /\ ~IsDyn(inst)) =>
    With(Run([inst EXCEPT !.percal = ~inst.percal]), LAMBDA R2 :
      /\ \A k \in 1..Len(rr.means) : VEq(rr.means[k], R2.means[k]) /\ MEq(rr.raw[k], R2.raw[k])
      /\ IsMle(inst) =>
           With2(IF inst.percal THEN rr.scale2[1] ELSE R2.scale2[1], IF inst.percal THEN R2.scale2[1] ELSE rr.scale2[1], LAMBDA per, sca :
             REqN(RSumSeq(per), RMul(RInt(inst.d), sca[1]))))

\* (i) TS1 on componentwise-decoupled problems: block-diagonal = dense = independent scalar solves
SubInst(inst, a) ==
  [inst EXCEPT !.d = 1, !.m0 = Vec(inst.q + 1, LAMBDA j : inst.m0[(j - 1) * inst.d + a]), !.lam = <<inst.lam[a]>>,
               !.c0 = <<inst.c0[a]>>, !.c1 = <<<<inst.c1[a][a]>>>>, !.c2 = <<inst.c2[a]>>, !.c3 = <<inst.c3[a]>>,
               !.e1 = <<<<inst.e1[a][a]>>>>, !.e2 = <<inst.e2[a]>>]
LawDecoupled(inst, rr) ==
  (Decoupled(inst) /\ inst.lin \in {"ts1_dense", "ts1_blockdiag"}) =>
    /\ SameRun(rr, Run([inst EXCEPT !.lin = IF inst.lin = "ts1_dense" THEN "ts1_blockdiag" ELSE "ts1_dense"]))
    /\ (inst.percal \/ inst.cal = "none") =>
         \A a \in 1..inst.d :
           With(Run(SubInst(inst, a)), LAMBDA Ra :
             \A k \in 1..Len(rr.means) :
               /\ VEq(Ra.means[k], Vec(inst.q + 1, LAMBDA j : rr.means[k][(j - 1) * inst.d + a]))
               /\ VEq(Ra.sm_means[k], Vec(inst.q + 1, LAMBDA j : rr.sm_means[k][(j - 1) * inst.d + a]))
               /\ MEq(Ra.covs[k], Mat(inst.q + 1, inst.q + 1, LAMBDA j, l : rr.covs[k][(j - 1) * inst.d + a][(l - 1) * inst.d + a]))
               /\ MEq(Ra.sm_covs[k], Mat(inst.q + 1, inst.q + 1, LAMBDA j, l : rr.sm_covs[k][(j - 1) * inst.d + a][(l - 1) * inst.d + a])))

\* (i) Jacobian a multiple of the identity: isotropic = dense
LawScalarJac(inst, rr) ==
  (ScalarJac(inst) /\ inst.lin \in {"ts1_dense", "ts1_isotropic"} /\ ~inst.percal) =>
    SameRun(rr, Run([inst EXCEPT !.lin = IF inst.lin = "ts1_dense" THEN "ts1_isotropic" ELSE "ts1_dense"]))

\* dynamic calibration: re-linearising at the calibrated prediction changes nothing (the mean does not depend on the scale)
LawRelin(inst, rr) ==
  IsDyn(inst) => SameRun(rr, Run([inst EXCEPT !.cal = IF inst.cal = "dynamic" THEN "dynamic_relin" ELSE "dynamic"]))

\* (ii) smoothing: never increases the marginal variances; equals the Rauch-Tung-Striebel recursion
RtsStep(A, mf, Pf, pr, ms1, Ps1) ==      \* filter (mf, Pf) at t_k, prediction pr and smoothed (ms1, Ps1) at t_(k+1)
  With(MatMul(MatMul(Pf, Transpose(A)), Inverse(pr.P)), LAMBDA G :
    [m |-> VAdd(mf, MatVec(G, VSub(ms1, pr.m))), P |-> MatAdd(Pf, MatMul(MatMul(G, MatSub(Ps1, pr.P)), Transpose(G)))])
LawSmooth(inst, rr) ==
  /\ \A k \in 1..Len(rr.means) : \A p \in 1..NN(inst) : LeN(rr.sm_covs[k][p][p], rr.covs[k][p][p])
  /\ \A k \in 1..Len(rr.means) : IsSymmetric(rr.sm_covs[k]) /\ IsSymmetric(rr.covs[k])
  /\ VEq(rr.sm_means[Len(rr.means)], rr.means[Len(rr.means)])
  \* the recursion is written for the uncalibrated quantities (g = 1); cofactor inverses only for small systems
  /\ (NN(inst) <= 4 /\ ~IsMle(inst)) =>
       With(Kron(A1(inst.q, inst.h), Eye(inst.d)), LAMBDA A :
         \A k \in 1..(Len(rr.means) - 1) :
           (~IsNaN(Det(rr.pred[k].P)) /\ Det(rr.pred[k].P) # RZero) =>
              With(RtsStep(A, rr.means[k], rr.raw[k], rr.pred[k], rr.sm_means[k + 1], rr.sm_covs[k + 1]), LAMBDA rts :
                VEq(rts.m, rr.sm_means[k]) /\ MEq(rts.P, rr.sm_covs[k])))

\* (iii) scale equivariance (exact initial value, no damping): lam -> 2 lam leaves the means alone, multiplies
\* uncalibrated covariances by 4, divides the MLE / dynamic scale^2 by 4 (calibrated covariances unchanged)
LawEquivariance(inst, rr) ==
  (inst.eps = RZero /\ inst.diffuse = 0 /\ inst.damp = RZero) =>
    With(Run([inst EXCEPT !.lam = Vec(inst.d, LAMBDA a : RMul(RInt(2), inst.lam[a]))]), LAMBDA R2 :
      /\ \A k \in 1..Len(rr.means) :
           /\ VEq(rr.means[k], R2.means[k]) /\ VEq(rr.sm_means[k], R2.sm_means[k])
           /\ IF inst.cal = "none"
              THEN MEq(MatScale(RInt(4), rr.covs[k]), R2.covs[k]) /\ MEq(MatScale(RInt(4), rr.sm_covs[k]), R2.sm_covs[k])
              ELSE MEq(rr.covs[k], R2.covs[k]) /\ MEq(rr.sm_covs[k], R2.sm_covs[k])
      /\ inst.cal # "none" => \A k \in 1..Len(rr.scale2) : VEq(rr.scale2[k], VScale(RInt(4), R2.scale2[k])))

Laws(inst, rr) ==
  /\ LawFactor(inst, rr) /\ LawSplit(inst, rr) /\ LawDecoupled(inst, rr) /\ LawScalarJac(inst, rr)
  /\ LawRelin(inst, rr) /\ LawSmooth(inst, rr) /\ LawEquivariance(inst, rr)

CheckAndPrint ==
  With(Run(Instances[i]), LAMBDA rr :
    /\ (Instances[i].laws => Laws(Instances[i], rr))
    /\ PrintT("@@EXP " \o ToJson([i |-> i, nan |-> RunNaN(rr),
          e |-> [means |-> rr.means, covs |-> rr.covs, scale2 |-> rr.scale2, sm_means |-> rr.sm_means, sm_covs |-> rr.sm_covs,
                 sing |-> rr.sing, zscale |-> rr.zscale]])))
=============================================================================
