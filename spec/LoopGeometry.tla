---------------------------- MODULE LoopGeometry ----------------------------
\* Unbounded geometry of solve_adaptive_save_at / RejectionLoop.loop
\* (probdiffeq/_ivpsolve/solvers_via_adaptive_steps.py).
\* AdaptiveLoop.tla is checked by TLC for fixed checkpoint layouts and a bounded
\* number of attempts.  This module abstracts it so far that an INDUCTIVE
\* invariant can be discharged symbolically (Apalache) for
\* every checkpoint layout of any length (the next checkpoint is an
\* arbitrary later integer, chosen when the previous one is emitted),
\* every eps >= 0, both clip settings, every controller (the next proposal
\* is an arbitrary positive integer, smaller than the attempted step
\* after a rejection), every estimator (accept / reject is arbitrary) and
\* every number of attempts.
\* The abstraction is tied to AdaptiveLoop.tla by a refinement check in TLC
\* (spec/AdaptiveLoopRefinesGeometry.tla: every step of AdaptiveLoop in
\* save_at mode is a step of this module or stutters), and AdaptiveLoop is
\* tied to the code by the replays of checks/c06.py.
\* Actions carry the names of AdaptiveLoop's actions.
EXTENDS Integers

CONSTANTS
  \* @type: Int;
  Eps,
  \* @type: Bool;
  Clip,
  \* TRUE: test_util.solve_adaptive_save_every_step (one checkpoint = the final time, every accepted step is appended)
  \* @type: Bool;
  EveryStep

VARIABLES
  \* @type: Str;
  pc,
  \* the checkpoint currently advanced to
  \* @type: Int;
  t1,
  \* step_from.t
  \* @type: Int;
  sft,
  \* interp_from.t
  \* @type: Int;
  ifrt,
  \* the step proposal carried between loop() calls
  \* @type: Int;
  dt,
  \* _RejectionLoopState: step_from.t, dt, proposed.t, accepted, last used step (0 outside the rejection loop)
  \* @type: Int;
  rsft,
  \* @type: Int;
  rdt,
  \* @type: Int;
  rpropt,
  \* @type: Bool;
  racc,
  \* @type: Int;
  rused,
  \* the solution returned by the current loop() call: "none", "sf" (step_from handed through), "interp", "at"
  \* @type: Str;
  solkind,
  \* @type: Int;
  solt,
  \* the two states an interpolated solution was computed from
  \* @type: Int;
  sola,
  \* @type: Int;
  solb,
  \* number of emitted solutions, time and checkpoint of the last one
  \* @type: Int;
  nemit,
  \* @type: Int;
  lastt,
  \* @type: Int;
  lastck,
  \* number of accepted steps
  \* @type: Int;
  nacc

gvars == <<pc, t1, sft, ifrt, dt, rsft, rdt, rpropt, racc, rused, solkind, solt, sola, solb, nemit, lastt, lastck, nacc>>

CInit == Eps \in Nat /\ Clip \in BOOLEAN /\ EveryStep \in BOOLEAN

IsBefore == sft + Eps < t1
IsAfter  == sft > t1 + Eps
Min2(a, b) == IF a <= b THEN a ELSE b

Init ==
  /\ pc = IF EveryStep THEN "while_test" ELSE "loop_enter"
  /\ nacc = 0
  /\ sft \in Int /\ ifrt = sft
  /\ t1 \in Int /\ t1 > sft
  /\ dt \in Int /\ dt > 0
  /\ rsft = 0 /\ rdt = 0 /\ rpropt = 0 /\ racc = FALSE /\ rused = 0
  /\ solkind = "none" /\ solt = 0 /\ sola = 0 /\ solb = 0
  /\ nemit = 0 /\ lastt = 0 /\ lastck = 0

UnchangedR   == UNCHANGED <<rsft, rdt, rpropt, racc, rused>>
UnchangedSol == UNCHANGED <<solkind, solt, sola, solb>>
UnchangedOut == UNCHANGED <<nemit, lastt, lastck, nacc>>

LoopEnter ==
  /\ pc = "loop_enter"
  /\ IF IsBefore
     THEN /\ rsft' = sft /\ rdt' = dt /\ rpropt' = 0 /\ racc' = FALSE /\ rused' = 0
          /\ pc' = "rloop"
     ELSE /\ UnchangedR
          /\ pc' = "interp"
  /\ UNCHANGED <<t1, sft, ifrt, dt>> /\ UnchangedSol /\ UnchangedOut

RloopBody ==
  /\ pc = "rloop" /\ ~racc
  /\ LET used == IF Clip THEN Min2(rdt, t1 - rsft) ELSE rdt IN
       /\ rused' = used
       /\ rpropt' = rsft + used
       /\ racc' \in BOOLEAN
       /\ rdt' \in Int
       /\ rdt' > 0
       /\ (~racc' => rdt' < used)
  /\ pc' = "rloop"
  /\ UNCHANGED <<t1, sft, ifrt, dt, rsft>> /\ UnchangedSol /\ UnchangedOut

RloopExit ==
  /\ pc = "rloop" /\ racc
  /\ dt' = rdt /\ sft' = rpropt /\ ifrt' = rsft
  /\ rsft' = 0 /\ rdt' = 0 /\ rpropt' = 0 /\ racc' = FALSE /\ rused' = 0
  /\ pc' = "interp"
  /\ nacc' = nacc + 1
  /\ UNCHANGED <<t1, nemit, lastt, lastck>> /\ UnchangedSol

InterpSkip ==
  /\ pc = "interp" /\ IsBefore
  /\ solkind' = "sf" /\ solt' = sft /\ sola' \in Int /\ solb' \in Int
  /\ pc' = "loop_return"
  /\ UNCHANGED <<t1, sft, ifrt, dt>> /\ UnchangedR /\ UnchangedOut

InterpBeyond ==
  /\ pc = "interp" /\ ~IsBefore /\ IsAfter
  /\ solkind' = "interp" /\ solt' = t1 /\ sola' = ifrt /\ solb' = sft
  /\ ifrt' = t1
  /\ pc' = "loop_return"
  /\ UNCHANGED <<t1, sft, dt>> /\ UnchangedR /\ UnchangedOut

InterpAt ==
  /\ pc = "interp" /\ ~IsBefore /\ ~IsAfter
  /\ solkind' = "at" /\ solt' = sft /\ sola' = ifrt /\ solb' = sft
  /\ ifrt' = sft
  /\ pc' = "loop_return"
  /\ UNCHANGED <<t1, sft, dt>> /\ UnchangedR /\ UnchangedOut

Continue ==
  /\ ~EveryStep
  /\ pc = "loop_return" /\ IsBefore
  /\ pc' = "loop_enter"
  /\ UNCHANGED <<t1, sft, ifrt, dt>> /\ UnchangedR /\ UnchangedSol /\ UnchangedOut

Emit ==
  /\ ~EveryStep
  /\ pc = "loop_return" /\ ~IsBefore
  /\ nacc' = nacc
  /\ nemit' = nemit + 1 /\ lastt' = solt /\ lastck' = t1
  /\ \/ pc' = "done" /\ t1' = t1
     \/ pc' = "loop_enter" /\ t1' \in Int /\ t1' > t1
  /\ UNCHANGED <<sft, ifrt, dt>> /\ UnchangedR /\ UnchangedSol

\* `while state.step_from.t + eps < t1:` of the save-every-step driver
WhileTest ==
  /\ EveryStep /\ pc = "while_test"
  /\ pc' = IF IsBefore THEN "loop_enter" ELSE "done"
  /\ UNCHANGED <<t1, sft, ifrt, dt>> /\ UnchangedR /\ UnchangedSol /\ UnchangedOut

AppendStep ==
  /\ EveryStep /\ pc = "loop_return"
  /\ nemit' = nemit + 1 /\ lastt' = solt /\ lastck' = t1 /\ nacc' = nacc
  /\ pc' = "while_test"
  /\ UNCHANGED <<t1, sft, ifrt, dt>> /\ UnchangedR /\ UnchangedSol

Next ==
  \/ LoopEnter \/ RloopBody \/ RloopExit
  \/ InterpSkip \/ InterpBeyond \/ InterpAt
  \/ Continue \/ Emit \/ WhileTest \/ AppendStep

Spec == Init /\ [][Next]_gvars

\* =============================== the inductive invariant ====================
PcOK == /\ pc \in {"loop_enter", "rloop", "interp", "loop_return", "done", "while_test"}
        /\ (pc = "while_test" => EveryStep)

Positive == dt > 0 /\ Eps >= 0 /\ nemit >= 0

\* the rejection loop only ever runs from a state that lies more than eps before the checkpoint, on the current
\* step_from; attempted steps are positive; with clipping no proposal ends beyond the checkpoint
RloopOK ==
  pc = "rloop" =>
    /\ rsft = sft /\ rsft + Eps < t1 /\ rdt > 0
    /\ rused >= 0
    /\ (rused = 0 => ~racc)
    /\ (rused > 0 => rpropt = rsft + rused)
    /\ (racc => rused > 0)
    /\ ((Clip /\ rused > 0) => rpropt <= t1)
RIdle ==
  pc # "rloop" => (rsft = 0 /\ rdt = 0 /\ rpropt = 0 /\ ~racc /\ rused = 0)

InterpFromBeforeStepFrom == ifrt <= sft
ClipNeverOvershoots == Clip => sft <= t1

\* interp_from never lies beyond the checkpoint, except right after an "at" report, where it coincides with step_from
\* within eps behind the checkpoint - and then the "beyond" branch is unreachable until a new step was taken
NoExtrapolation == ifrt <= t1 \/ (ifrt = sft /\ sft <= t1 + Eps)

\* what loop() hands back
SolOK ==
  pc = "loop_return" =>
    /\ solkind \in {"sf", "interp", "at"}
    /\ (solkind = "sf" => IsBefore)
    /\ (solkind = "interp" => (~IsBefore /\ solt = t1 /\ sola <= solt /\ solt + Eps < solb /\ solb = sft /\ ifrt = t1))
    /\ (solkind = "at" => (~IsBefore /\ ~IsAfter /\ solt = sft /\ ifrt = sft))
SolKinds == solkind \in {"none", "sf", "interp", "at"}

\* every emitted solution is the report of its checkpoint: at the checkpoint if interpolated, within eps otherwise
EmittedOK ==
  (~EveryStep /\ nemit > 0) => (lastt - lastck <= Eps /\ lastck - lastt <= Eps)
\* checkpoints are emitted in increasing order
EmitOrder == (nemit > 0 /\ pc # "done") => lastck <= t1
DoneOK == (~EveryStep /\ pc = "done") => nemit > 0

\* save-every-step: every call of loop() takes exactly one step (an iteration that only interpolates would leave step_from
\* unchanged and the Python while-loop would never end), and every accepted step is appended exactly once
EveryStepAlwaysSteps == (EveryStep /\ pc = "loop_enter") => IsBefore
EveryStepCounts ==
  EveryStep =>
    /\ nacc >= 0
    /\ (pc \in {"while_test", "done", "loop_enter", "rloop"} => nemit = nacc)
    /\ (pc \in {"interp", "loop_return"} => nemit + 1 = nacc)

IndInv ==
  /\ PcOK /\ SolKinds /\ Positive
  /\ RloopOK /\ RIdle
  /\ InterpFromBeforeStepFrom /\ ClipNeverOvershoots /\ NoExtrapolation
  /\ SolOK
  /\ EmittedOK /\ EmitOrder /\ DoneOK
  /\ EveryStepAlwaysSteps /\ EveryStepCounts

\* the initial predicate of the inductive step: any state of the right type satisfying IndInv
IndInit ==
  /\ pc \in {"loop_enter", "rloop", "interp", "loop_return", "done", "while_test"}
  /\ solkind \in {"none", "sf", "interp", "at"}
  /\ t1 \in Int /\ sft \in Int /\ ifrt \in Int /\ dt \in Int
  /\ rsft \in Int /\ rdt \in Int /\ rpropt \in Int /\ racc \in BOOLEAN /\ rused \in Int
  /\ solt \in Int /\ sola \in Int /\ solb \in Int
  /\ nemit \in Int /\ lastt \in Int /\ lastck \in Int /\ nacc \in Int
  /\ IndInv

\* user-facing consequences (each implied by IndInv; checked separately so that a failure names the clause)
\* 1. the interpolation target always lies inside the bracket it is computed from
InterpolationInsideBracket ==
  (pc = "interp" /\ ~IsBefore /\ IsAfter) => (ifrt <= t1 /\ t1 < sft)
\* 2. every report is at its checkpoint (up to eps)
ReportsAtCheckpoint == EmittedOK
\* 3. with clipping no accepted or proposed state lies beyond the checkpoint
ClipSafe == Clip => (sft <= t1 /\ ((pc = "rloop" /\ rused > 0) => rpropt <= t1))
\* 4. the solver is only ever asked for positive steps
PositiveSteps == (pc = "rloop" /\ rused # 0) => rused > 0
Consequences == InterpolationInsideBracket /\ ReportsAtCheckpoint /\ ClipSafe /\ PositiveSteps
=============================================================================
