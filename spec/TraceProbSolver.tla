-------------------------- MODULE TraceProbSolver --------------------------
\* Trace validation for L1: the operation log recorded from the REAL solvers / strategies / adaptive loop
\* running on the tracing state-space model is interpreted with the term algebra of GaussTerms; at the
\* solver-level markers the terms must be what the specification of the solver prescribes for the step
\* history (which comes from the AdaptiveLoop behaviour that scripted the run, or from the grid).
\*
\* One TLC state per consumed event; the result ids of an event are consecutive fresh ids, so the term store
\* is a sequence.  A trace is accepted iff every event is consumed with bad = "" (verdict printed per trace).
EXTENDS GaussTerms, Json, Rat

CONSTANT Traces    \* sequence of [hdr |-> header, ev |-> sequence of events]
\* header: [solver: "solver"|"mle"|"dynamic"|"dynamic_relin", strategy: "filter"|"fixedpoint"|"fixedinterval",
\*          initc: BOOLEAN, corr: BOOLEAN, steps: seq of [t, h] (accepted steps in order), nsteps: Nat]
\* event:  [op, name, out: seq of ids, in: seq of ids, i: seq of integers (times in model units, flags),
\*          sc: scale code [typ, a, b]]

VARIABLES tid, l, terms, bad, xfin, reads, fin
vars == <<tid, l, terms, bad, xfin, reads, fin>>

MLE == 1000000      \* the symbol of the quasi-MLE factor in scale tags
Hdr == Traces[tid].hdr
Ev  == Traces[tid].ev[l]
Tm(id) == IF id >= 1 /\ id <= Len(terms) THEN terms[id] ELSE Err("unknown id")

\* ---- scale codes -> tags -----------------------------------------------------
\* typ "one": factor 1.  typ "rms": the factor is the whitened-residual RMS of observed term a.
\* typ "q": any other factor (the quasi-MLE): TLC exports the exact value f^2 * 1024^2 = SumSq / (NumData * nsteps)
\* at the finalize marker (@@MLE) and the harness compares the reported float and every q-typed rescaling with it.
RECURSIVE SumSq(_)
SumSq(segs) ==
  IF Len(segs) = 0 THEN 0
  ELSE (IF segs[1].obs = NoObs THEN 0 ELSE (1024 + segs[1].obs.o) * (1024 + segs[1].obs.o)) + SumSq(Tail(segs))
RECURSIVE NumData(_)
NumData(segs) == IF Len(segs) = 0 THEN 0 ELSE (IF segs[1].obs = NoObs THEN 0 ELSE 1) + NumData(Tail(segs))

\* the quasi-MLE scale of a filtering term X: f^2 * 1024^2 = SumSq / (NumData * nsteps)   (nsteps = 1 without correction)
MleMatches(code, X, nsteps) ==
  /\ code.typ = "q" /\ NumData(X.segs) > 0
  /\ code.a * (NumData(X.segs) * nsteps) = SumSq(X.segs) * code.b

ScaleTag(code) ==
  CASE code.typ = "one" -> Unit
    [] code.typ = "rms" -> IF Tm(code.a).k = "O" /\ Tm(code.a).of.k = "M" THEN <<code.a>> ELSE <<-1>>
    [] code.typ = "q"   -> <<MLE>>       \* validated against the history at the finalize marker
    [] OTHER -> <<-1>>

\* ---- interpretation of one operation event ---------------------------------
OpResult(e) ==
  CASE e.op = "init"       -> <<Init0>>
    [] e.op = "transition" -> <<T(e.i[1], ScaleTag(e.sc))>>
    [] e.op = "marg"       -> <<Marg(Tm(e.in[1]), Tm(e.in[2]))>>
    [] e.op = "revert"     -> Revert(Tm(e.in[1]), Tm(e.in[2]), e.out[1])
    [] e.op = "apply"      -> <<ApplyMean(Tm(e.in[1]), Tm(e.in[2]))>>
    [] e.op = "apply_data" -> <<ApplyData(Tm(e.in[1]), e.i[1] = 0)>>
    [] e.op = "merge"      -> <<Merge(Tm(e.in[1]), Tm(e.in[2]))>>
    [] e.op = "ident"      -> <<IdC>>
    [] e.op = "rescale_n"  -> <<Rescale(Tm(e.in[1]), ScaleTag(e.sc))>>
    [] e.op = "rescale_c"  -> <<Rescale(Tm(e.in[1]), ScaleTag(e.sc))>>
    [] e.op = "linearize"  -> <<L(e.i[1], Tm(e.in[1]), e.i[2], e.i[3])>>
    [] e.op = "to_derivative" -> <<XObs(e.i[2], e.i[1])>>
    [] e.op = "sample"     -> <<SampleOf(Tm(e.in[1]), <<e.i[1], e.i[2]>>)>>
    [] e.op = "opaque"     -> [q \in 1..Len(e.out) |-> Err("opaque")]
    [] OTHER -> <<>>

\* ---- expectations at the solver-level markers --------------------------------
ExpectedLin == IF Hdr.solver = "dynamic" THEN "meanonly" ELSE "pred"
Kappa == IF Hdr.solver = "mle" THEN <<MLE>> ELSE Unit

\* the dynamic scale of step k must be the RMS of the observation of the unit-scale mean-only extrapolation
\* from the previous posterior over the same step, linearised at that extrapolation at the step's end time
DynOK(o, prev, h, tEnd) ==
  /\ o.k = "O" /\ o.of.k = "M" /\ o.of.h = h /\ o.of.tag = Unit /\ o.of.src = prev
  /\ o.j.k = "L" /\ o.j.at = o.of /\ o.j.t = tEnd

StepSegs(X) == IF Hdr.initc THEN Tail(X.segs) ELSE X.segs
\* X (the final filtering state) carries exactly the accepted steps of the history
HistoryOK(X) ==
  /\ X.k = "N" /\ IsFiltering(X) /\ X.s0 = Unit
  /\ Len(X.segs) = Len(Hdr.steps) + (IF Hdr.initc THEN 1 ELSE 0)
  /\ Hdr.initc => (X.segs[1].h = 0 /\ X.segs[1].obs # NoObs /\ X.segs[1].obs.lin = "pred" /\ X.segs[1].tag = Unit)
  /\ \A q \in 1..Len(Hdr.steps) :
       LET sg == StepSegs(X)[q]
           off == IF Hdr.initc THEN 1 ELSE 0
           prev == N(Hdr.steps[q].t, Unit, SubSeq(X.segs, 1, q - 1 + off))
       IN /\ sg.h = Hdr.steps[q].h
          /\ sg.obs # NoObs /\ sg.obs.lin = ExpectedLin
          /\ IF Hdr.solver \in {"dynamic", "dynamic_relin"}
             THEN Len(sg.tag) = 1 /\ DynOK(Tm(sg.tag[1]), prev, sg.h, Hdr.steps[q].t + sg.h)
             ELSE sg.tag = Unit

\* transitions between a and b according to the information segs
RECURSIVE PathFrom(_, _, _, _)
PathFrom(segs, from, a, b) ==
  IF Len(segs) = 0 \/ from >= b THEN <<>>
  ELSE LET e == from + segs[1].h
           lo == IF from > a THEN from ELSE a
           hi == IF e < b THEN e ELSE b
       IN (IF hi > lo THEN << [h |-> hi - lo, tag |-> segs[1].tag] >> ELSE <<>>) \o PathFrom(Tail(segs), e, a, b)
PathBetween(segs, a, b) == FusePath(<<>>, PathFrom(segs, T0, a, b))

ExpectedOutput(X, t) ==
  IF Hdr.strategy = "filter"
  THEN N(t, Kappa, ScaleSegs(InfoUpTo(X.segs, t), Kappa))
  ELSE N(t, Kappa, ScaleSegs(X.segs, Kappa))
\* (two consecutive outputs at the SAME time - two checkpoints within eps of one step end are both reported at that step
\*  end - are linked by the identity conditional)
ExpectedCond(X, a, b) ==
  IF a = b THEN IdC
  ELSE B(a, b, Kappa, ScaleSegs(InfoUpTo(X.segs, a), Kappa), ScalePath(PathBetween(X.segs, a, b), Kappa))

\* finalize marker: e.in = <<sol1 marginal id>> \o u ids ; e.i = output times ; e.sc = final scale code
\* e.aux = stored conditional ids (smoothers), e.aux2 = <<posterior marginal id>> (smoothers)
FinalizeProblem(e) ==
  LET X == Tm(e.in[1])
      us == Tail(e.in)
      nOut == Len(e.i)
  IN IF ~HistoryOK(X) THEN "finalize: the final state does not carry the accepted-step history"
     ELSE IF Len(us) # nOut THEN "finalize: number of outputs"
     ELSE IF Hdr.solver = "mle" /\ (e.sc.typ # "q" \/ NumData(X.segs) = 0)
          THEN "finalize: the MLE solver reports no calibrated scale"
     ELSE IF \E q \in 1..nOut : Tm(us[q]) # ExpectedOutput(X, e.i[q])
          THEN "finalize: an output marginal is not the posterior the strategy promises at that time"
     ELSE IF Hdr.strategy # "filter" /\ (\E q \in 1..Len(e.aux) : Tm(e.aux[q]) # ExpectedCond(X, e.i[q], e.i[q + 1]))
          THEN "finalize: a stored backward conditional is not the one between consecutive output times"
     ELSE IF Hdr.strategy # "filter" /\ Tm(e.aux2[1]) # ExpectedOutput(X, e.i[nOut])
          THEN "finalize: the terminal marginal of the Markov sequence"
     \* the filtering distributions a smoother returns next to its posterior (e.aux3, one per output time)
     ELSE IF Hdr.strategy # "filter" /\ Len(e.aux3) = nOut /\
             (\E q \in 1..nOut : Tm(e.aux3[q]) # N(e.i[q], Kappa, ScaleSegs(InfoUpTo(X.segs, e.i[q]), Kappa)))
          THEN "finalize: a returned filtering marginal is not the filtering distribution at its output time"
     ELSE ""

\* reported step counts: output q (q >= 2) reports the number of accepted steps that started before its time
RECURSIVE StepsBefore(_, _)
StepsBefore(steps, t) ==
  IF Len(steps) = 0 THEN 0 ELSE (IF steps[1].t < t THEN 1 ELSE 0) + StepsBefore(Tail(steps), t)
\* the scale tag of the transition that covers time t (t0 < t <= End)
RECURSIVE TagAt(_, _, _)
TagAt(segs, from, t) ==
  IF Len(segs) = 0 THEN <<-3>>
  ELSE IF segs[1].h > 0 /\ from + segs[1].h >= t THEN segs[1].tag ELSE TagAt(Tail(segs), from + segs[1].h, t)

\* e.n = reported num_steps (one per output except the first), e.scs = reported output-scale codes
ReportProblem(e) ==
  LET X == Tm(e.in[1])
      nOut == Len(e.i)
  IN IF Len(e.n) # nOut - 1 \/ (\E q \in 1..Len(e.n) : e.n[q] # StepsBefore(Hdr.steps, e.i[q + 1]))
     THEN "finalize: reported step counts differ from the number of accepted steps"
     ELSE IF Hdr.solver \in {"dynamic", "dynamic_relin"} /\
             (Len(e.scs) # nOut \/ e.scs[1].typ # "one" \/
              (\E q \in 2..nOut : e.scs[q].typ # "rms" \/ <<e.scs[q].a>> # TagAt(X.segs, T0, e.i[q])))
     THEN "finalize: reported dynamic output scales are not the per-step local estimates"
     ELSE IF Hdr.solver = "solver" /\ (\E q \in 1..Len(e.scs) : e.scs[q].typ # "one")
     THEN "finalize: the uncalibrated solver must report unit output scales"
     ELSE IF Hdr.solver = "mle" /\ (\E q \in 1..Len(e.scs) : e.scs[q] # e.sc)
     THEN "finalize: the MLE solver must report the same calibrated scale at every output"
     ELSE ""

\* offgrid marker: e.in = <<estimate id>>, e.i = <<t>>: after-the-fact marginal at an off-grid time
OffgridProblem(e) ==
  IF xfin.k # "N" THEN "offgrid: no finalised solution"
  ELSE IF Tm(e.in[1]) # ExpectedOutput(xfin, e.i[1]) THEN "offgrid: the marginal is not the posterior at that time"
  ELSE ""

\* ---- C07: the acceptance quantity ------------------------------------------------
\* scripted scalars of the tracing SSM (harness/tracing.py): component c in {0, 1}
\*   std(X)[k][c]  = 2^-(id mod 4) (k+1)/2 (1+c)        mean(X)[k][c] = (-1)^id ((id mod 5) + 1 + k) (1 if c = 0 else 7)
\*   (MeanBase below is the MAGNITUDE: the reference is max(|u_prev|, |u_new|))
\*   rms(O)        = 1 + id/1024
StdBase(id, k)  == RMul(R(1, 2 ^ (id % 4)), R(k + 1, 2))
MeanBase(id, k) == RInt((id % 5) + 1 + k)
RmsOf(id)       == R(1024 + id, 1024)
RECURSIVE FactN(_)
FactN(n) == IF n <= 1 THEN 1 ELSE n * FactN(n - 1)
HasRead(what, id) == \E q \in 1..Len(reads) : reads[q] = <<what, id>>

\* errnorm marker: e.in = <<previous u, proposed u, proposed cached linearisation>>,
\* e.i = <<dt, t_prop, relin, kind (0 residual / 1 state), didx, per_unit, norm (0 scale-then-rms / 1 rms-then-scale),
\*         residual_order, atol num, atol den, rtol num, rtol den, scalar std (0/1: one std per coefficient, as in the isotropic model)>>
\* -> <<problem, expected squared norm>>
ErrnormExpect(e) ==
  LET prev == Tm(e.in[1])   prop == Tm(e.in[2])
      dt == e.i[1]  tprop == e.i[2]  relin == e.i[3] = 1  state == e.i[4] = 1  didx == e.i[5]
      perunit == e.i[6] = 1  rmsThenScale == e.i[7] = 1  resorder == e.i[8]
      atol == R(e.i[9], e.i[10])  rtol == R(e.i[11], e.i[12])
      \* the last std read is the error
      stdReads == SelectSeq(reads, LAMBDA r : r[1] = "read_std")
      eid == IF Len(stdReads) > 0 THEN stdReads[Len(stdReads)][2] ELSE 0
      E == Tm(eid)
      Mexp == M(prev, dt, Unit)                          \* extrapolation from the previous mean only, unit scale
      LinOK(j) == IF relin THEN (j.k = "L" /\ j.at = Mexp /\ j.t = tprop) ELSE j = Tm(e.in[3])
      n0 == IF state THEN didx ELSE resorder - 1
      n == IF perunit THEN n0 + 1 ELSE n0
      k == IF state THEN didx ELSE 0
      \* local scale r and the unit-scale std s of the quantity whose error is measured
      oid == IF state THEN (IF E.k = "PM" THEN E.oid ELSE 0) ELSE (IF E.k = "OR" THEN E.o.id ELSE 0)
      structure ==
        IF state
        THEN E.k = "PM" /\ E.of = Mexp /\ LinOK(E.j) /\ HasRead("rms", E.oid)
        ELSE E.k = "OR" /\ E.o.k = "O" /\ E.o.of = Mexp /\ LinOK(E.o.j) /\ E.f = <<eid - 1>> /\ HasRead("rms", eid - 1)
      \* error in component c: (state: r * std) (residual: std of the rescaled observation) times dt^n / n!
      \* dt is in model units of 2^-20
      dtr == R(dt, 1048576)
      fac == RMul(RPow(dtr, n), R(1, FactN(n)))
      sc == IF state THEN RMul(RmsOf(oid), StdBase(eid, k)) ELSE StdBase(eid, k)
      scalarStd == Len(e.i) >= 13 /\ e.i[13] = 1
      e0 == RMul(sc, fac)          e1 == IF scalarStd THEN e0 ELSE RMul(RInt(2), e0)
      mb == RMax(MeanBase(e.in[1], k), MeanBase(e.in[2], k))
      w0 == RAdd(atol, RMul(rtol, mb))   w1 == RAdd(atol, RMul(rtol, RMul(RInt(7), mb)))   wr == RAdd(atol, RMul(rtol, RMul(RInt(5), mb)))
      sq(x) == RMul(x, x)
      n2 == IF rmsThenScale
            THEN RDiv(IF scalarStd THEN sq(e0) ELSE RMul(R(1, 2), RAdd(sq(e0), sq(e1))), sq(wr))
            ELSE RMul(R(1, 2), RAdd(sq(RDiv(e0, w0)), sq(RDiv(e1, w1))))
  IN IF prev.k # "N" \/ prop.k # "N" THEN <<"errnorm: previous/proposed states are not marginals", RZero>>
     ELSE IF ~structure THEN <<"errnorm: the error is not the (locally calibrated) std of the observed mean-only extrapolation with the configured linearisation", RZero>>
     ELSE IF ~(HasRead("read_mean", e.in[1]) /\ HasRead("read_mean", e.in[2])) THEN <<"errnorm: the reference must use the previous and the proposed mean", RZero>>
     ELSE <<"", n2>>

\* ---- consumers of the finalised posterior (C12 / C13 wiring) -----------------------
\* fin = [times: output times, conds: ids of the stored conditionals, marg: id of the terminal marginal] from finalize.
\* lml marker: e.i = <<K + 1, average (0/1), tcoeff index>>: the log-densities must have been read, in this order, from
\* the observation of datum K+1 under the terminal marginal, then of datum k under the marginal at t_k given all solver
\* data AND the external data k+1..K+1; every output time exactly once.
LogpdfReads == SelectSeq(reads, LAMBDA r : r[1] = "logpdf")
RECURSIVE Range(_, _)
Range(a, b) == IF a > b THEN <<>> ELSE <<a>> \o Range(a + 1, b)
LmlProblem(e) ==
  LET n == e.i[1]
      LR == LogpdfReads
  IN IF fin.times = <<>> \/ Len(fin.times) # n THEN "lml: number of data differs from the number of output times"
     ELSE IF Len(LR) # n THEN "lml: every output time must contribute exactly one log-density"
     ELSE IF \E q \in 1..n :
               LET o == Tm(LR[q][2])
                   k == n + 1 - q                       \* data are consumed from the last output time backwards
               IN ~( /\ o.k = "OX" /\ o.x.k = "X" /\ o.x.j = k /\ o.x.idx = e.i[3]
                     /\ BaseOf(o.of) = ExpectedOutput(xfin, fin.times[k])
                     /\ ExtOf(o.of) = Range(k + 1, n) )
          THEN "lml: a datum is not scored under the marginal at its own time given all later data"
     ELSE ""
RECURSIVE SumIds(_)
SumIds(rs) == IF Len(rs) = 0 THEN 0 ELSE rs[1][2] + SumIds(Tail(rs))

\* sample marker: e.in = ids of the samples in time order; they must form the backward chain through the stored
\* conditionals, starting from a sample of the terminal marginal, every draw with its own key
SampleProblem(e) ==
  LET n == Len(e.in)
      Smp(q) == Tm(e.in[q])
  IN IF Len(fin.times) # n THEN "sample: one sample per output time"
     ELSE IF ~(Smp(n).k = "S" /\ Smp(n).of = Tm(fin.marg)) THEN "sample: the last sample is not drawn from the terminal marginal"
     ELSE IF \E q \in 1..(n - 1) : ~( Smp(q).k = "S" /\ Smp(q).of.k = "CS" /\ Smp(q).of.c = Tm(fin.conds[q]) /\ Smp(q).of.s = Smp(q + 1) )
          THEN "sample: a sample is not drawn from the stored conditional applied to the sample of the next output time"
     ELSE IF \E q \in 1..n : \E r \in 1..n : q # r /\ Smp(q).key = Smp(r).key THEN "sample: two draws use the same key"
     ELSE ""

MarkerProblem(e) ==
  CASE e.name = "finalize" -> IF FinalizeProblem(e) # "" THEN FinalizeProblem(e) ELSE ReportProblem(e)
    [] e.name = "offgrid" -> OffgridProblem(e)
    [] e.name = "errnorm" -> ErrnormExpect(e)[1]
    [] e.name = "lml" -> LmlProblem(e)
    [] e.name = "sample" -> SampleProblem(e)
    [] OTHER -> ""

\* ---- the trace machine --------------------------------------------------------
NoFin == [times |-> <<>>, conds |-> <<>>, marg |-> 0]
Init == tid = 1 /\ l = 1 /\ terms = <<>> /\ bad = "" /\ xfin = Err("none") /\ reads = <<>> /\ fin = NoFin

Verdict(why) ==
  PrintT("@@VERDICT " \o ToJson([tid |-> tid, ok |-> (why = ""), at |-> l, why |-> why]))

Consume ==
  /\ tid <= Len(Traces) /\ l <= Len(Traces[tid].ev) /\ bad = ""
  /\ LET e == Ev
     IN IF e.op = "marker"
        THEN /\ bad' = MarkerProblem(e)
             /\ terms' = terms
             /\ xfin' = IF e.name = "finalize" THEN Tm(e.in[1]) ELSE xfin
             /\ fin' = IF e.name = "finalize" THEN [times |-> e.i, conds |-> e.aux, marg |-> IF Len(e.aux2) > 0 THEN e.aux2[1] ELSE 0] ELSE fin
             /\ reads' = <<>>
             /\ (e.name = "lml" /\ LmlProblem(e) = "") =>
                    PrintT("@@LML " \o ToJson([tid |-> tid, at |-> l, sumids |-> SumIds(LogpdfReads), n |-> e.i[1], avg |-> e.i[2]]))
             /\ (e.name = "finalize" /\ Hdr.solver = "mle" /\ Tm(e.in[1]).k = "N") =>
                    PrintT("@@MLE " \o ToJson([tid |-> tid, sumsq |-> SumSq(Tm(e.in[1]).segs),
                                               den |-> NumData(Tm(e.in[1]).segs) * (IF Hdr.corr THEN Hdr.nsteps ELSE 1)]))
             /\ (e.name = "errnorm" /\ ErrnormExpect(e)[1] = "") =>
                    PrintT("@@ERRNORM " \o ToJson([tid |-> tid, at |-> l, n2 |-> ErrnormExpect(e)[2]]))
        ELSE IF e.op \in {"read_std", "read_mean", "rms", "logpdf"}
        THEN /\ reads' = Append(reads, <<e.op, e.in[1]>>)
             /\ UNCHANGED <<terms, bad, xfin, fin>>
        ELSE LET r == OpResult(e)
             IN /\ terms' = terms \o r
                /\ bad' = IF Len(e.out) # Len(r) \/ (Len(r) > 0 /\ e.out[1] # Len(terms) + 1)
                          THEN "ids: results are not consecutive fresh ids" ELSE ""
                /\ xfin' = xfin
                /\ fin' = fin
                /\ reads' = reads
  /\ l' = l + 1
  /\ tid' = tid

NextTrace ==
  /\ tid <= Len(Traces)
  /\ (bad # "" \/ l > Len(Traces[tid].ev))
  /\ Verdict(bad)
  /\ tid' = tid + 1 /\ l' = 1 /\ terms' = <<>> /\ bad' = "" /\ xfin' = Err("none") /\ reads' = <<>> /\ fin' = NoFin

Next == Consume \/ NextTrace
Spec == Init /\ [][Next]_vars
=============================================================================
