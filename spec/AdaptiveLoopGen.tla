--------------------------- MODULE AdaptiveLoopGen ---------------------------
(* Behaviour generation for spec->code replay: every distinct terminated    *)
(* behaviour (hist is part of the state here, no VIEW) is printed once.     *)
EXTENDS AdaptiveLoop, Json

\* printed: terminated behaviours (complete) and behaviours cut by the attempt bound (a prefix the
\* implementation must reproduce; the harness lets the estimator accept everything afterwards)
Frontier == pc = "done" \/ (pc = "rloop" /\ natt = MaxAtt)
PrintBehaviour ==
  Frontier =>
     PrintT("@@BEH " \o ToJson([hist |-> hist, out |-> out, sf |-> ts.sf, ifr |-> ts.ifr,
                                dt |-> ts.dt, ctrl |-> ts.ctrl, errSf |-> ts.errSf,
                                natt |-> natt, nacc |-> nacc, complete |-> (pc = "done")]))

\* no terminal stuttering: a simulation run ends (deadlock checking off) when the behaviour terminates
GenNext ==
  \/ LoopEnter \/ RloopBody \/ RloopExit
  \/ InterpSkip \/ InterpBeyond \/ InterpAt
  \/ Continue \/ Emit \/ WhileTest \/ AppendStep \/ GridStep \/ GridFinish
GenSpec == Init /\ [][GenNext]_vars
=============================================================================
