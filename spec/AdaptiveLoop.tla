---------------------------- MODULE AdaptiveLoop ----------------------------
\* L0 control plane of probdiffeq's adaptive solvers.
\* One action per implementation step of
\* probdiffeq/_ivpsolve/solvers_via_adaptive_steps.py
\* solve_adaptive_save_at.solve / advance / body_fun   (Advance*, Emit)
\* RejectionLoop.loop            (LoopEnter, Interp*)
\* RejectionLoop.step            (RloopBody = step_attempt,
\* RloopExit = step_extract_timestep_state)
\* probdiffeq/_ivpsolve/controllers.py  (Control)
\* probdiffeq/util/test_util.py solve_adaptive_save_every_step (Mode "every_step")
\* probdiffeq/_ivpsolve/solvers_via_fixed_steps.py  (Mode "fixed_grid")
\* Time and step sizes are integers (one unit = 2^-U time units, U chosen
\* by the harness), so the implementation's float64 arithmetic on the same
\* numbers is exact and must agree bit for bit.  A product that is not an
\* integer number of units leaves the exactly-representable domain; the
\* behaviour then ends in pc = "inexact" (counted, never replayed).
\* The solver is abstract: a solver state is a record
\* [t, n, kind, a, b, src]
\* whose fields say where the object came from (see Step/InterpFwd/
\* InterpAt below); the harness' scripted solver implements exactly the
\* same functions, so every mis-wiring of step_from / interp_from /
\* proposed / error state in the loop changes an observable field.
EXTENDS Integers, Sequences, FiniteSets, TLC, Rat

CONSTANTS
  Ckpts,        \* sequence of checkpoint times, Ckpts[1] = t0 (fixed_grid: the grid)
  Eps,          \* the eps the caller passes
  Dt0,          \* initial step proposal
  Clip,         \* BOOLEAN: clip_dt
  Mode,         \* "save_at" | "every_step" | "fixed_grid"
  CtrlKind,     \* "I" | "PI"
  Safety, FMin, FMax,   \* controller parameters, rationals
  ExpI, ExpP,   \* PI exponents (naturals so that powers are exact)
  EpAcc,        \* error powers (rationals >= 1) the estimator may return for an admissible step
  EpRej,        \* error powers (rationals <  1) it may return for an inadmissible step
  Profile,      \* sequence of <<t_start, hmax>>, t_start increasing, Profile[1][1] <= t0:
                \* a step of size h from time t is admissible iff h <= hmax of the piece containing t
  MaxAtt        \* bound on the number of attempts (state constraint)

VARIABLES
  pc,     \* control location
  k,      \* index into Ckpts of the checkpoint currently advanced to
  ts,     \* TimeStepState      [dt, sf, ifr, ctrl, errSf]
  rl,     \* _RejectionLoopState [dt, acc, ctrl, prop, sf, errSf, errProp, used]  (or Null)
  sol,    \* the `solution` the current loop() call returned (or Null)
  out,    \* sequence of solutions emitted so far
  natt,   \* number of attempts so far
  nacc,   \* number of accepted attempts so far
  hist    \* observable events so far (attempts and interpolations); hidden by VIEW in exhaustive runs

vars == <<pc, k, ts, rl, sol, out, natt, nacc, hist>>
view == <<pc, k, ts, rl, sol, out, natt, nacc>>

Null == [null |-> TRUE]

\* ---- kinds of abstract solver states -------------------------------------
KInit   == 0   \* solver.init
KStep   == 1   \* solver.step
KInterp == 2   \* interpolate_fwd: the interpolated solution
KSfB    == 3   \* interpolate_fwd: new step_from
KIfB    == 4   \* interpolate_fwd: new interp_from
KAt     == 5   \* interpolate_fwd_at_t1: the solution
KSfA    == 6   \* interpolate_fwd_at_t1: new step_from
KIfA    == 7   \* interpolate_fwd_at_t1: new interp_from

SInit(t0) == [t |-> t0, n |-> 0, kind |-> KInit, a |-> t0, b |-> t0, src |-> 0]
Step(S, dt) == [t |-> S.t + dt, n |-> S.n + 1, kind |-> KStep, a |-> S.t, b |-> dt, src |-> S.kind]
\* interpolate_fwd(t, interp_from = F, interp_to = T): (solution, step_from', interp_from')
InterpFwd(t, F, T) ==
  << [t |-> t,   n |-> T.n, kind |-> KInterp, a |-> F.t, b |-> T.t, src |-> 8 * F.kind + T.kind],
     [t |-> T.t, n |-> T.n, kind |-> KSfB,    a |-> t,   b |-> T.t, src |-> 8 * F.kind + T.kind],
     [t |-> t,   n |-> F.n, kind |-> KIfB,    a |-> F.t, b |-> T.t, src |-> 8 * F.kind + T.kind] >>
\* interpolate_fwd_at_t1(t, interp_from = F, interp_to = T)
InterpAtT1(t, F, T) ==
  << [t |-> T.t, n |-> T.n, kind |-> KAt,  a |-> F.t, b |-> T.t, src |-> 8 * F.kind + T.kind],
     [t |-> T.t, n |-> T.n, kind |-> KSfA, a |-> F.t, b |-> T.t, src |-> 8 * F.kind + T.kind],
     [t |-> T.t, n |-> F.n, kind |-> KIfA, a |-> F.t, b |-> T.t, src |-> 8 * F.kind + T.kind] >>

\* ---- local error profile --------------------------------------------------
RECURSIVE HMaxFrom(_, _)
HMaxFrom(t, i) ==
  IF i = Len(Profile) \/ Profile[i + 1][1] > t THEN Profile[i][2] ELSE HMaxFrom(t, i + 1)
HMax(t) == HMaxFrom(t, 1)
Admissible(t, h) == h <= HMax(t)

\* ---- controllers (controllers.py) ----------------------------------------
\* control.init(dt)
CtrlInit == IF CtrlKind = "PI" THEN ROne ELSE Null
ClipFactor(ratio) == RMax(FMin, RMin(ratio, FMax))
\* control.apply(dt, state, error_power) -> <<factor, state'>> ; dt' = factor * dt
CtrlApply(mem, ep) ==
  IF CtrlKind = "I"
  THEN << ClipFactor(RMul(Safety, ep)), Null >>
  ELSE LET gi == RPow(ep, ExpI)
           gp == RPow(RDiv(ep, mem), ExpP)
           ratio == RMul(RMul(Safety, gi), gp)
           mem2 == IF RLe(ROne, ep) THEN ep ELSE mem
       IN  << ClipFactor(ratio), mem2 >>

\* exactly representable and far enough from TLC's 32-bit limit for every later cross-multiplication
Exact(dt, f)  == /\ dt <= 134217728 \div f[1]          \* 2^27
                 /\ (dt * f[1]) % f[2] = 0
Scaled(dt, f) == (dt * f[1]) \div f[2]

Min2(a, b) == IF a <= b THEN a ELSE b
T1 == Ckpts[k]                      \* the checkpoint currently advanced to
Last == Len(Ckpts)

\* ---- initial state ---------------------------------------------------------
Init ==
  /\ k = IF Mode = "every_step" THEN Last ELSE 2
  /\ ts = [dt |-> Dt0, sf |-> SInit(Ckpts[1]), ifr |-> SInit(Ckpts[1]),
           ctrl |-> CtrlInit, errSf |-> 0]       \* RejectionLoop.init
  /\ rl = Null
  /\ sol = Null
  /\ out = <<>>
  /\ natt = 0 /\ nacc = 0
  /\ hist = <<>>
  /\ pc = CASE Mode = "save_at"    -> "loop_enter"   \* AdvanceState(True, ...): always >= 1 loop() call
            [] Mode = "every_step" -> "while_test"
            [] Mode = "fixed_grid" -> "grid_step"

\* ---- RejectionLoop.loop ----------------------------------------------------
\* `is_before_t1 = state0.step_from.t + eps < t1`; cond(is_before_t1, self.step, identity)
LoopEnter ==
  /\ pc = "loop_enter"
  /\ IF ts.sf.t + Eps < T1
     THEN /\ rl' = [dt |-> ts.dt, acc |-> <<9, 10>>, ctrl |-> ts.ctrl, prop |-> Null,
                    sf |-> ts.sf, errSf |-> ts.errSf, errProp |-> Null, used |-> 0]   \* step_init_loopstate
          /\ pc' = "rloop"
     ELSE /\ rl' = Null
          /\ pc' = "interp"
  /\ UNCHANGED <<k, ts, sol, out, natt, nacc, hist>>

\* while_loop body: step_attempt (cond: acceptance_factor_proposed < 1.0)
RloopBody ==
  /\ pc = "rloop"
  /\ RLt(rl.acc, ROne)
  /\ LET used == IF Clip THEN Min2(rl.dt, T1 - rl.sf.t) ELSE rl.dt
         prop == Step(rl.sf, used)
     IN  \E ep \in (IF Admissible(rl.sf.t, used) THEN EpAcc ELSE EpRej) :
           LET ca == CtrlApply(rl.ctrl, ep)
               f  == ca[1]
           IN  IF Exact(used, f)
               THEN /\ rl' = [dt |-> Scaled(used, f), acc |-> ep, ctrl |-> ca[2], prop |-> prop,
                              sf |-> rl.sf, errSf |-> rl.errSf, errProp |-> rl.errSf + 1, used |-> used]
                    /\ hist' = Append(hist, [ev |-> "attempt", from |-> rl.sf, dt_in |-> rl.dt, used |-> used,
                                             prop |-> prop, e_in |-> rl.errSf, ep |-> ep,
                                             mem_in |-> rl.ctrl, mem_out |-> ca[2], dt_out |-> Scaled(used, f)])
                    /\ natt' = natt + 1
                    /\ pc' = "rloop"
               ELSE /\ pc' = "inexact" /\ UNCHANGED <<rl, hist, natt>>
  /\ UNCHANGED <<k, ts, sol, out, nacc>>

\* while_loop exit + step_extract_timestep_state
RloopExit ==
  /\ pc = "rloop"
  /\ ~RLt(rl.acc, ROne)
  /\ ts' = [dt |-> rl.dt, sf |-> rl.prop, ifr |-> rl.sf, ctrl |-> rl.ctrl, errSf |-> rl.errProp]
  /\ nacc' = nacc + 1
  /\ rl' = Null
  /\ pc' = "interp"
  /\ UNCHANGED <<k, sol, out, natt, hist>>

\* the three-way switch of loop()
IsBefore == ts.sf.t + Eps < T1
IsAfter  == ts.sf.t > T1 + Eps

InterpSkip ==
  /\ pc = "interp" /\ IsBefore
  /\ sol' = ts.sf
  /\ pc' = "loop_return"
  /\ UNCHANGED <<k, ts, rl, out, natt, nacc, hist>>

InterpBeyond ==
  /\ pc = "interp" /\ ~IsBefore /\ IsAfter
  /\ LET r == InterpFwd(T1, ts.ifr, ts.sf)
     IN  /\ sol' = r[1]
         /\ ts' = [ts EXCEPT !.sf = r[2], !.ifr = r[3]]
         /\ hist' = Append(hist, [ev |-> "beyond", t1 |-> T1, F |-> ts.ifr, T |-> ts.sf])
  /\ pc' = "loop_return"
  /\ UNCHANGED <<k, rl, out, natt, nacc>>

InterpAt ==
  /\ pc = "interp" /\ ~IsBefore /\ ~IsAfter
  /\ LET r == InterpAtT1(T1, ts.ifr, ts.sf)
     IN  /\ sol' = r[1]
         /\ ts' = [ts EXCEPT !.sf = r[2], !.ifr = r[3]]
         /\ hist' = Append(hist, [ev |-> "at", t1 |-> T1, F |-> ts.ifr, T |-> ts.sf])
  /\ pc' = "loop_return"
  /\ UNCHANGED <<k, rl, out, natt, nacc>>

\* ---- solve_adaptive_save_at: advance/body_fun and the scan -----------------
\* do_continue = state_new.step_from.t + eps < t_next
Continue ==
  /\ pc = "loop_return" /\ Mode = "save_at"
  /\ ts.sf.t + Eps < T1
  /\ pc' = "loop_enter"
  /\ UNCHANGED <<k, ts, rl, sol, out, natt, nacc, hist>>

Emit ==
  /\ pc = "loop_return" /\ Mode = "save_at"
  /\ ~(ts.sf.t + Eps < T1)
  /\ out' = Append(out, sol)
  /\ IF k = Last THEN pc' = "done" /\ k' = k
                 ELSE pc' = "loop_enter" /\ k' = k + 1
  /\ UNCHANGED <<ts, rl, sol, natt, nacc, hist>>

\* ---- test_util.solve_adaptive_save_every_step ------------------------------
\* `while state.step_from.t + eps < t1:`
\* (the pinned tree tested `step_from.t < t1`; TLC found that EveryStepAlwaysSteps fails then - the
\*  Python loop never returns once a step ends in (t1-eps, t1) - see known_findings.json "fixed")
WhileTest ==
  /\ pc = "while_test"
  /\ pc' = IF ts.sf.t + Eps < T1 THEN "loop_enter" ELSE "done"
  /\ UNCHANGED <<k, ts, rl, sol, out, natt, nacc, hist>>

AppendStep ==
  /\ pc = "loop_return" /\ Mode = "every_step"
  /\ out' = Append(out, sol)
  /\ pc' = "while_test"
  /\ UNCHANGED <<k, ts, rl, sol, natt, nacc, hist>>

\* ---- solve_fixed_grid ------------------------------------------------------
GridStep ==
  /\ pc = "grid_step"
  /\ LET s2 == Step(ts.sf, Ckpts[k] - Ckpts[k - 1])
     IN  /\ ts' = [ts EXCEPT !.sf = s2]
         /\ out' = Append(out, s2)
         /\ hist' = Append(hist, [ev |-> "gstep", from |-> ts.sf, used |-> Ckpts[k] - Ckpts[k - 1], prop |-> s2])
  /\ nacc' = nacc + 1
  /\ IF k = Last THEN pc' = "grid_finish" /\ k' = k ELSE pc' = "grid_step" /\ k' = k + 1
  /\ UNCHANGED <<rl, sol, natt>>

\* the last step ends exactly at the last grid point: like the adaptive loop, the driver continues from the state
\* at t1 through interpolate_fwd_at_t1 and hands its step_from to userfriendly_output (fix 7342909 in /repo)
GridFinish ==
  /\ pc = "grid_finish"
  /\ LET r == InterpAtT1(ts.sf.t, ts.sf, ts.sf)
     IN  /\ ts' = [ts EXCEPT !.sf = r[2]]
         /\ hist' = Append(hist, [ev |-> "at", t1 |-> ts.sf.t, F |-> ts.sf, T |-> ts.sf])
  /\ pc' = "done"
  /\ UNCHANGED <<k, rl, sol, out, natt, nacc>>

Terminated == pc \in {"done", "inexact"} /\ UNCHANGED vars

Next ==
  \/ LoopEnter \/ RloopBody \/ RloopExit
  \/ InterpSkip \/ InterpBeyond \/ InterpAt
  \/ Continue \/ Emit \/ WhileTest \/ AppendStep \/ GridStep \/ GridFinish
  \/ Terminated

Spec     == Init /\ [][Next]_vars
FairSpec == Spec /\ WF_vars(Next)

\* state constraint for the exhaustive runs
Bounded == natt <= MaxAtt

\* =========================== properties (C06) ==============================
TypeOK ==
  /\ pc \in {"loop_enter", "rloop", "interp", "loop_return", "while_test", "grid_step", "grid_finish", "done", "inexact"}
  /\ k \in 2..Last
  /\ ts.dt \in Nat /\ ts.sf.t \in Int /\ ts.ifr.t \in Int

\* Time advances only through attempts whose error estimate passed the test, by promoting exactly
\* the proposed state; the step count increases by exactly one there and nowhere else.
IsAcceptStep == pc = "rloop" /\ pc' = "interp"
OnlyAcceptedAdvance ==
  [][ (ts'.sf.t # ts.sf.t \/ ts'.sf.n # ts.sf.n) =>
        \/ /\ IsAcceptStep
           /\ RLe(ROne, rl.acc) /\ rl.acc \in EpAcc
           /\ ts'.sf = rl.prop /\ ts'.ifr = rl.sf
           /\ ts'.sf.n = ts.sf.n + 1 /\ ts'.sf.t > ts.sf.t
        \/ pc = "grid_step" ]_vars

\* A rejected attempt leaves the solver state (and the error-estimator state) untouched ...
RejectLeavesStateUntouched ==
  [][ (pc = "rloop" /\ pc' = "rloop") =>
        /\ ts' = ts /\ rl'.sf = rl.sf /\ rl'.errSf = rl.errSf ]_vars

\* ... and is followed by a strictly smaller attempt
StrictShrinkAfterReject ==
  [][ (pc = "rloop" /\ pc' = "rloop" /\ rl.used # 0) => (rl'.used < rl.used /\ rl'.used > 0) ]_vars

\* every new proposal is the attempted step times a factor in [factor_min, factor_max]
FactorBounds ==
  [][ (pc = "rloop" /\ pc' = "rloop") =>
        /\ RLe(RMul(FMin, RInt(rl'.used)), RInt(rl'.dt))
        /\ RLe(RInt(rl'.dt), RMul(FMax, RInt(rl'.used))) ]_vars

UsedStepPositive == (pc = "rloop" /\ rl.used # 0) => rl.used > 0

\* with clipping no step ends beyond the next checkpoint
ClipNeverOvershoots ==
  (Clip /\ Mode # "fixed_grid") =>
      /\ ts.sf.t <= T1
      /\ (pc = "rloop" /\ rl.prop # Null) => rl.prop.t <= T1

PIMemoryGeOne == (CtrlKind = "PI") => RLe(ROne, ts.ctrl) /\ (pc = "rloop" => RLe(ROne, rl.ctrl))
PIMemoryOnlyFromAccepted ==
  [][ (CtrlKind = "PI" /\ pc = "rloop" /\ pc' = "rloop" /\ RLt(rl'.acc, ROne)) => rl'.ctrl = rl.ctrl ]_vars

\* interpolation always lies between the two states it interpolates
InterpFromBeforeStepFrom == ts.ifr.t <= ts.sf.t
EmittedBetween ==
  \A i \in 1..Len(out) : out[i].kind = KInterp => (out[i].a <= out[i].t /\ out[i].t <= out[i].b)

\* every requested time is reported exactly once, in order, at that time (up to eps)
ReportedInOrderAtTime ==
  Mode = "save_at" =>
    /\ Len(out) <= Last - 1
    /\ \A i \in 1..Len(out) :
         /\ out[i].t - Ckpts[i + 1] <= Eps /\ Ckpts[i + 1] - out[i].t <= Eps
         /\ out[i].kind \in {KInterp, KAt}
    /\ (pc = "done" => Len(out) = Last - 1)

\* which branch reported a checkpoint is determined by the geometry
BranchMatchesGeometry ==
  Mode = "save_at" =>
    \A i \in 1..Len(out) :
      /\ out[i].kind = KInterp => (out[i].t = Ckpts[i + 1] /\ out[i].b > Ckpts[i + 1] + Eps /\ out[i].a <= Ckpts[i + 1])
      /\ out[i].kind = KAt => (out[i].t + Eps >= Ckpts[i + 1] /\ out[i].t <= Ckpts[i + 1] + Eps)

\* the reported step count equals the number of accepted attempts
StepCountIsAccepted == ts.sf.n = nacc
EmittedCountsMonotone == \A i \in 1..Len(out) : \A j \in 1..Len(out) : i <= j => out[i].n <= out[j].n

\* save-every-step: every iteration of the Python `while step_from.t < t1` loop must take a step.
\* An iteration that only interpolates leaves step_from.t unchanged, so the loop would never end
\* (the list of solutions grows without bound - which is also why this is stated as a safety property).
EveryStepAlwaysSteps ==
  [][ (Mode = "every_step" /\ pc = "loop_enter") => pc' = "rloop" ]_vars
EveryStepReportsEachStep ==
  Mode = "every_step" => \A i \in 1..Len(out) : out[i].n = i

\* liveness (checked without the state constraint, under weak fairness)
Terminates == <>(pc \in {"done", "inexact"})
=============================================================================
