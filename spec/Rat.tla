------------------------------- MODULE Rat -------------------------------
(***************************************************************************)
(* Exact rational arithmetic on pairs <<num, den>> with den > 0, kept in   *)
(* lowest terms.  TLC's integers are 32-bit and TLC raises an error on     *)
(* overflow instead of wrapping, so any value it reports is exact.         *)
(***************************************************************************)
EXTENDS Integers, Sequences

Abs(x) == IF x < 0 THEN -x ELSE x

RECURSIVE GCD(_, _)
GCD(a, b) == IF b = 0 THEN a ELSE GCD(b, a % b)

RNorm(r) ==
  LET n == r[1]
      d == r[2]
      s == IF d < 0 THEN -1 ELSE 1
      g == GCD(Abs(n), Abs(d))
  IN  IF n = 0 THEN <<0, 1>> ELSE <<(s * n) \div g, (s * d) \div g>>

R(n, d)    == RNorm(<<n, d>>)
RInt(n)    == <<n, 1>>
RZero      == <<0, 1>>
ROne       == <<1, 1>>
IsRat(r)   == /\ r \in Seq(Int) /\ Len(r) = 2 /\ r[2] > 0

RNeg(a)    == <<-a[1], a[2]>>
RAdd(a, b) == RNorm(<<a[1] * b[2] + b[1] * a[2], a[2] * b[2]>>)
RSub(a, b) == RAdd(a, RNeg(b))
\* cross-cancel before multiplying so that intermediate products stay small
RMul(a, b) ==
  LET g1 == GCD(Abs(a[1]), b[2])
      g2 == GCD(Abs(b[1]), a[2])
      n1 == IF a[1] = 0 THEN 0 ELSE a[1] \div g1
      d2 == IF a[1] = 0 THEN 1 ELSE b[2] \div g1
      n2 == IF b[1] = 0 THEN 0 ELSE b[1] \div g2
      d1 == IF b[1] = 0 THEN 1 ELSE a[2] \div g2
  IN  RNorm(<<n1 * n2, d1 * d2>>)
RInv(a)    == RNorm(<<a[2], a[1]>>)
RDiv(a, b) == RMul(a, RInv(b))

RLt(a, b)  == a[1] * b[2] < b[1] * a[2]
RLe(a, b)  == a[1] * b[2] <= b[1] * a[2]
REq(a, b)  == a[1] * b[2] = b[1] * a[2]
RMin(a, b) == IF RLe(a, b) THEN a ELSE b
RMax(a, b) == IF RLe(a, b) THEN b ELSE a
RAbs(a)    == <<Abs(a[1]), a[2]>>

RECURSIVE RPow(_, _)
RPow(a, k) == IF k = 0 THEN ROne ELSE RMul(a, RPow(a, k - 1))

RIsInt(a)  == a[2] = 1
=============================================================================
