------------------------------- MODULE Rat -------------------------------
\* Exact rational arithmetic on pairs <<num, den>> with den > 0, kept in lowest terms.
\* TLC's integers are 32-bit.  Every product and sum is range-checked *before* it is computed; an
\* operation that would leave the range returns the absorbing value NaNR = <<0, 0>> ("not representable")
\* instead of raising, so a result without NaNR is exact and a result with NaNR is simply not used
\* (the harness drops such an instance and counts it).
EXTENDS Integers, Sequences

Abs(x) == IF x < 0 THEN -x ELSE x
Lim == 2147483647

RECURSIVE GCD(_, _)
GCD(a, b) == IF b = 0 THEN a ELSE GCD(b, a % b)

NaNR       == <<0, 0>>
IsNaN(r)   == r[2] = 0
MulOK(a, b) == a = 0 \/ b = 0 \/ Abs(a) <= Lim \div Abs(b)
AddOK(a, b) == Abs(a) <= Lim - Abs(b)

RNormG(n, d, g) == IF d < 0 THEN <<(-n) \div g, (-d) \div g>> ELSE <<n \div g, d \div g>>
RNorm(r) ==
  IF r[2] = 0 THEN NaNR
  ELSE IF r[1] = 0 THEN <<0, 1>>
  ELSE RNormG(r[1], r[2], GCD(Abs(r[1]), Abs(r[2])))

R(n, d)    == RNorm(<<n, d>>)
RInt(n)    == <<n, 1>>
RZero      == <<0, 1>>
ROne       == <<1, 1>>
IsRat(r)   == /\ r \in Seq(Int) /\ Len(r) = 2 /\ r[2] > 0

RNeg(a)    == IF IsNaN(a) THEN NaNR ELSE <<-a[1], a[2]>>

\* a/b + c/d with g = gcd(b, d):  (a (d/g) + c (b/g)) / (b (d/g))
RAddG(a, b, db, da) ==      \* db = b[2]/g, da = a[2]/g
  IF MulOK(a[1], db) /\ MulOK(b[1], da) /\ MulOK(a[2], db)
  THEN IF AddOK(a[1] * db, b[1] * da) THEN RNorm(<<a[1] * db + b[1] * da, a[2] * db>>) ELSE NaNR
  ELSE NaNR
RAddH(a, b, g) == RAddG(a, b, b[2] \div g, a[2] \div g)
RAdd(a, b) == IF IsNaN(a) \/ IsNaN(b) THEN NaNR ELSE RAddH(a, b, GCD(a[2], b[2]))
RSub(a, b) == RAdd(a, RNeg(b))

\* cross-cancel before multiplying so that intermediate products stay small
RMulG(n1, d2, n2, d1) == IF MulOK(n1, n2) /\ MulOK(d1, d2) THEN RNorm(<<n1 * n2, d1 * d2>>) ELSE NaNR
RMulH(a, b, g1, g2) == RMulG(a[1] \div g1, b[2] \div g1, b[1] \div g2, a[2] \div g2)
RMul(a, b) ==
  IF IsNaN(a) \/ IsNaN(b) THEN NaNR
  ELSE IF a[1] = 0 \/ b[1] = 0 THEN RZero
  ELSE RMulH(a, b, GCD(Abs(a[1]), b[2]), GCD(Abs(b[1]), a[2]))
RInv(a)    == IF IsNaN(a) \/ a[1] = 0 THEN NaNR ELSE IF a[1] < 0 THEN <<-a[2], -a[1]>> ELSE <<a[2], a[1]>>
RDiv(a, b) == RMul(a, RInv(b))

\* comparisons (callers use them on small values; a NaN or an out-of-range cross product compares FALSE)
CmpOK(a, b) == ~IsNaN(a) /\ ~IsNaN(b) /\ MulOK(a[1], b[2]) /\ MulOK(b[1], a[2])
RLt(a, b)  == CmpOK(a, b) /\ a[1] * b[2] < b[1] * a[2]
RLe(a, b)  == CmpOK(a, b) /\ a[1] * b[2] <= b[1] * a[2]
REq(a, b)  == CmpOK(a, b) /\ a[1] * b[2] = b[1] * a[2]
RMin(a, b) == IF RLe(a, b) THEN a ELSE b
RMax(a, b) == IF RLe(a, b) THEN b ELSE a
RAbs(a)    == <<Abs(a[1]), a[2]>>

RECURSIVE RPow(_, _)
RPow(a, k) == IF k = 0 THEN ROne ELSE RMul(a, RPow(a, k - 1))

RIsInt(a)  == a[2] = 1
=============================================================================
