--------------------------- MODULE InputContracts ---------------------------
\* L3 (property C20): what the public entry points of probdiffeq must do with a malformed argument.
\*
\* The finite relation   Entry x Field x Corruption x Factorisation -> {raise, warn, accept}
\* is written out row by row from the property statement and from the documented argument shapes
\* (docstrings / type annotations of ssm_impl_api.StateSpaceModel, the loss constructors, problems.py):
\*
\*   * a call with ONE corrupted field of an otherwise valid argument set must raise a Python exception at
\*     construction or at first use ("raise");
\*   * the only silent acceptance is the documented broadcast `is_exact: C | bool`: a rank-0 boolean flag in
\*     place of a per-entry flag array ("accept");
\*   * strategy/routine pairings documented as unsuitable must emit a warning that names a remedy ("warn").
\*
\* One TLC state per tuple of the relation; the invariants are completeness / consistency conditions on the
\* table as a whole.  Export prints every tuple for the replay through the real API.
EXTENDS FiniteSets, Sequences, TLC, Json

VARIABLE tup

Facts == {"dense", "isotropic", "blockdiag"}

\* ---- corruption classes -------------------------------------------------------------------------------------
\* of a field whose valid value has array leaves of rank >= 1 (say shape (d,)):
\*   wrong_rank            (d, 1)            -- numpy would broadcast it against (d,)
\*   wrong_length          (d + 1,)
\*   broadcastable_length  (1,)              -- a valid-looking shape that numpy broadcasts
\*   scalar                ()                -- the rank-0 broadcast
\*   wrong_tree            the leaf replaced by a container of leaves
\*   wrong_dtype           boolean flags: a float array; numeric fields: a non-numeric (string) array
\*   wrong_type            not an array-like at all (a str / an arbitrary object / an array in place of a list)
ArrayCorruptions  == {"wrong_rank", "wrong_length", "broadcastable_length", "scalar", "wrong_tree", "wrong_dtype", "wrong_type"}
\* of a field whose valid value is rank 0: wrong_rank (d,), broadcastable_length (1,); "wrong_length" and
\* "scalar" do not exist for it
ScalarCorruptions == {"wrong_rank", "broadcastable_length", "wrong_tree", "wrong_dtype", "wrong_type"}
\* structural corruptions and pairings
StructuralCorruptions == {"too_small", "too_large", "mismatch"}
PairingCorruptions    == {"unsuitable"}
Corruptions == ArrayCorruptions \cup StructuralCorruptions \cup PairingCorruptions
Outcomes == {"raise", "warn", "accept"}

\* ---- outcome columns -----------------------------------------------------------------------------------------
RaiseAllArray ==
  [wrong_rank |-> "raise", wrong_length |-> "raise", broadcastable_length |-> "raise", scalar |-> "raise",
   wrong_tree |-> "raise", wrong_dtype |-> "raise", wrong_type |-> "raise"]
RaiseAllScalar ==
  [wrong_rank |-> "raise", broadcastable_length |-> "raise", wrong_tree |-> "raise", wrong_dtype |-> "raise", wrong_type |-> "raise"]
\* exactness flags: "is_exact: C | bool" -- a rank-0 flag per leaf is the documented broadcast
FlagsArray == [RaiseAllArray EXCEPT !.scalar = "accept"]
\* the entry point does not exist for this factorisation (documented: NotImplementedError)
NA == [na |-> "na"]
IsNA(col) == "na" \in DOMAIN col

\* ---- documented shapes: is the valid leaf of (field group, factorisation) an array or a scalar? ---------------
\*  base output scale (prior construction): like one Taylor coefficient (dense, blockdiag), one number (isotropic)
\*  calibrated output scale (transition):   one number (dense, isotropic), one per dimension (blockdiag)
\*  is_exact / tcoeffs_std:                 like the Taylor coefficients (dense, blockdiag), one number per coefficient (isotropic)
\*  Taylor coefficients:                    arrays in every factorisation
\*  terminal-value noise std:               like the data (dense, blockdiag), one number (isotropic)
\*  time-series noise std:                  (N,) + data shape (dense, blockdiag), (N,) (isotropic): arrays everywhere
LeafKind(group, fact) ==
  CASE group = "base_scale"       -> IF fact = "isotropic" THEN "scalar" ELSE "array"
    [] group = "calibrated_scale" -> IF fact = "blockdiag" THEN "array" ELSE "scalar"
    [] group = "per_coefficient"  -> IF fact = "isotropic" THEN "scalar" ELSE "array"
    [] group = "tcoeffs"          -> "array"
    [] group = "noise_terminal"   -> IF fact = "isotropic" THEN "scalar" ELSE "array"
    [] group = "noise_timeseries" -> "array"

\* ---- the table -------------------------------------------------------------------------------------------------
\* shape-carrying fields.  `out` maps a factorisation to its outcome column.
ShapeRow(entry, field, group, dense, isotropic, blockdiag) ==
  [entry |-> entry, field |-> field, cat |-> "shape", group |-> group,
   out |-> [dense |-> dense, isotropic |-> isotropic, blockdiag |-> blockdiag]]

ShapeRows == {
  \* integrated Wiener priors
  ShapeRow("prior_wiener_integrated", "tcoeffs",      "tcoeffs",         RaiseAllArray, RaiseAllArray,  RaiseAllArray),
  ShapeRow("prior_wiener_integrated", "is_exact",     "per_coefficient", FlagsArray,    RaiseAllScalar, FlagsArray),
  ShapeRow("prior_wiener_integrated", "output_scale", "base_scale",      RaiseAllArray, RaiseAllScalar, RaiseAllArray),
  ShapeRow("prior_wiener_integrated_diffuse", "tcoeffs_mean", "tcoeffs",         RaiseAllArray, RaiseAllArray,  RaiseAllArray),
  ShapeRow("prior_wiener_integrated_diffuse", "tcoeffs_std",  "per_coefficient", RaiseAllArray, RaiseAllScalar, RaiseAllArray),
  ShapeRow("prior_wiener_integrated_diffuse", "output_scale", "base_scale",      RaiseAllArray, RaiseAllScalar, RaiseAllArray),
  \* exponential priors (documented as not implemented for the isotropic and block-diagonal models)
  ShapeRow("prior_exponential", "tcoeffs",      "tcoeffs",         RaiseAllArray, NA, NA),
  ShapeRow("prior_exponential", "is_exact",     "per_coefficient", FlagsArray,    NA, NA),
  ShapeRow("prior_exponential", "output_scale", "base_scale",      RaiseAllArray, NA, NA),
  ShapeRow("prior_exponential_diffuse", "tcoeffs_mean", "tcoeffs",         RaiseAllArray, NA, NA),
  ShapeRow("prior_exponential_diffuse", "tcoeffs_std",  "per_coefficient", RaiseAllArray, NA, NA),
  ShapeRow("prior_exponential_diffuse", "output_scale", "base_scale",      RaiseAllArray, NA, NA),
  \* transitions
  ShapeRow("wiener.transition",      "output_scale", "calibrated_scale", RaiseAllScalar, RaiseAllScalar, RaiseAllArray),
  ShapeRow("exponential.transition", "output_scale", "calibrated_scale", RaiseAllScalar, NA, NA),
  \* observation noise of the two losses
  ShapeRow("loss_lml_terminal_values", "std", "noise_terminal",   RaiseAllArray, RaiseAllScalar, RaiseAllArray),
  ShapeRow("loss_lml_timeseries",      "std", "noise_timeseries", RaiseAllArray, RaiseAllArray,  RaiseAllArray)
}

\* type-carrying and structural fields and pairings: explicit (corruption -> outcome) per factorisation
OtherRow(entry, field, cat, facts, col) ==
  [entry |-> entry, field |-> field, cat |-> cat, group |-> "none",
   out |-> [f \in Facts |-> IF f \in facts THEN col ELSE NA]]

TypeRows == {
  \* a plain function where an ODE / residual description is required
  OtherRow("constraint_ode_ts0",  "ode",      "type", Facts, [wrong_type |-> "raise"]),
  OtherRow("constraint_ode_ts1",  "ode",      "type", Facts, [wrong_type |-> "raise"]),
  OtherRow("constraint_residual", "residual", "type", Facts, [wrong_type |-> "raise"]),
  \* lift orders: not an integer; outside 0 .. (number of Taylor coefficients - 1 - order of the ODE), i.e. every lifted
  \* constraint whose highest output coefficient is not part of the state
  OtherRow("jet_lift", "lift_by", "type", Facts, [wrong_dtype |-> "raise", wrong_type |-> "raise", too_small |-> "raise", too_large |-> "raise"]),
  \* the time-series loss needs the smoothing posterior (a MarkovSequence), not marginals
  OtherRow("loss_lml_timeseries", "posterior", "type", Facts, [wrong_type |-> "raise"])
}

StructuralRows == {
  \* exponential prior whose ODE order differs from the number of Taylor coefficients
  OtherRow("prior_exponential",         "ode_order", "structural", {"dense"}, [too_small |-> "raise", too_large |-> "raise"]),
  OtherRow("prior_exponential_diffuse", "ode_order", "structural", {"dense"}, [too_small |-> "raise", too_large |-> "raise"]),
  \* Taylor coefficients that are pytrees with several array leaves: a later coefficient keeps the tree structure of the
  \* first one but SOME (not all) of its leaves have another shape (fields swapped, one field of another rank)
  OtherRow("prior_wiener_integrated", "tcoeffs_tree", "structural", Facts, [mismatch |-> "raise"]),
  \* residual-based error estimate whose constraint output differs in shape from the state (jet-lifted ODE)
  OtherRow("error_residual_std", "constraint", "structural", Facts, [mismatch |-> "raise"]),
  \* matrix-free extension of the block-diagonal model: fewer ensemble members than Taylor coefficients
  OtherRow("state_space_model_matfree", "num_ensembles", "structural", {"blockdiag"}, [too_small |-> "raise"])
}

PairingRows == {
  \* a fixed-interval smoother cannot be used with checkpoints; a fixed-point smoother not with a fixed grid
  OtherRow("solve_adaptive_save_at", "strategy_smoother_fixedinterval", "pairing", Facts, [unsuitable |-> "warn"]),
  OtherRow("solve_fixed_grid",       "strategy_smoother_fixedpoint",    "pairing", Facts, [unsuitable |-> "warn"])
}
\* the remedy a warning has to name: a strategy that does suit the routine
Remedy(entry) ==
  CASE entry = "solve_adaptive_save_at" -> {"filter", "fixed-point"}
    [] entry = "solve_fixed_grid"       -> {"filter", "fixed-interval"}
    [] OTHER -> {}

Rows == ShapeRows \cup TypeRows \cup StructuralRows \cup PairingRows

\* ---- the relation ----------------------------------------------------------------------------------------------
RowTuples(r) ==
  UNION { IF IsNA(r.out[f]) THEN {}
          ELSE { [entry |-> r.entry, field |-> r.field, cat |-> r.cat, fact |-> f, corruption |-> c,
                  kind |-> IF r.cat = "shape" THEN LeafKind(r.group, f) ELSE "none",
                  expect |-> r.out[f][c], remedy |-> Remedy(r.entry)] : c \in DOMAIN r.out[f] }
          : f \in Facts }
Rel == UNION { RowTuples(r) : r \in Rows }

Init == tup \in Rel
Next == UNCHANGED tup
Spec == Init /\ [][Next]_tup

\* ---- invariants ------------------------------------------------------------------------------------------------
TypeOK ==
  /\ tup.fact \in Facts /\ tup.corruption \in Corruptions /\ tup.expect \in Outcomes
  /\ tup.cat \in {"shape", "type", "structural", "pairing"}

\* every shape-carrying field has an entry for every applicable corruption class in every factorisation it exists in
ShapeFieldsComplete ==
  \A r \in ShapeRows : \A f \in Facts :
     ~IsNA(r.out[f]) =>
       DOMAIN r.out[f] = (IF LeafKind(r.group, f) = "array" THEN ArrayCorruptions ELSE ScalarCorruptions)
\* a factorisation is only left out where the entry point is documented as not implemented
MissingOnlyWhereUndocumented ==
  \A r \in ShapeRows : \A f \in Facts :
     IsNA(r.out[f]) => (f # "dense" /\ r.entry \in {"prior_exponential", "prior_exponential_diffuse", "exponential.transition"})
\* every shape-carrying field group of the property statement occurs, in all three factorisations
GroupsCovered ==
  \A g \in {"base_scale", "calibrated_scale", "per_coefficient", "tcoeffs", "noise_terminal", "noise_timeseries"} :
     \A f \in Facts : \E r \in ShapeRows : r.group = g /\ ~IsNA(r.out[f])
\* the items the property statement lists by name
StatementCovered ==
  /\ \E t \in Rel : t.field = "is_exact" /\ t.corruption = "wrong_dtype" /\ t.expect = "raise"        \* non-boolean flags
  /\ \A e \in {"constraint_ode_ts0", "constraint_ode_ts1", "constraint_residual"} : \A f \in Facts :
        \E t \in Rel : t.entry = e /\ t.fact = f /\ t.corruption = "wrong_type" /\ t.expect = "raise"  \* plain functions
  /\ \A c \in {"wrong_dtype", "too_small", "too_large"} : \E t \in Rel : t.field = "lift_by" /\ t.corruption = c
  /\ \E t \in Rel : t.field = "ode_order" /\ t.expect = "raise"
  /\ \A f \in Facts : \E t \in Rel : t.entry = "error_residual_std" /\ t.fact = f /\ t.expect = "raise"
  /\ \E t \in Rel : t.field = "num_ensembles" /\ t.corruption = "too_small" /\ t.expect = "raise"
  /\ \E t \in Rel : t.field = "posterior" /\ t.expect = "raise"
\* the relation is a function of (entry, field, factorisation, corruption)
Functional ==
  \A s \in Rel : (s.entry = tup.entry /\ s.field = tup.field /\ s.fact = tup.fact /\ s.corruption = tup.corruption) => s.expect = tup.expect
\* the only accepted corruption is the documented broadcast of exactness flags
AcceptOnlyDocumentedBroadcast ==
  tup.expect = "accept" => (tup.field = "is_exact" /\ tup.corruption = "scalar" /\ tup.kind = "array")
\* and it is accepted wherever it exists
DocumentedBroadcastAccepted ==
  (tup.field = "is_exact" /\ tup.corruption = "scalar") => tup.expect = "accept"
\* pairings warn and say what to use instead; nothing else warns
PairingsWarn == (tup.cat = "pairing") <=> (tup.expect = "warn")
WarningsNameRemedy == tup.expect = "warn" => tup.remedy # {}
\* everything that is neither a documented broadcast nor a pairing is rejected
DefaultIsRaise == (tup.cat # "pairing" /\ tup.expect # "accept") => tup.expect = "raise"

Export == PrintT("@@TUP " \o ToJson(tup))
=============================================================================
