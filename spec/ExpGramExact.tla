---------------------------- MODULE ExpGramExact ----------------------------
\* L2: matrix exponential and finite-horizon Gramian of  dX = A X dt + B dW  for *nilpotent* drift
\* matrices, where both are finite rational sums:
\*   e^{hA}   = sum_k (hA)^k / k!
\*   G_h      = int_0^h e^{sA} B B^T e^{sA^T} ds = sum_{i,j} A^i B B^T (A^T)^j h^(i+j+1) / (i! j! (i+j+1))
\* (the exact transition and process noise of exponential / integrated Ornstein-Uhlenbeck priors whose
\*  rate matrix is nilpotent; drifts with non-zero spectrum are transcendental and not modelled).
\* Laws checked by TLC: nilpotency of the instance, the Lyapunov identity
\*   A G_h + G_h A^T = e^{hA} B B^T e^{hA^T} - B B^T,
\* the semigroup law and Chapman-Kolmogorov for two steps.
EXTENDS RatLinAlg, Json

CONSTANT Instances     \* sequence of [A, B, h1, h2]
VARIABLE i
Init == i = 1
Next == i < Len(Instances) /\ i' = i + 1
Spec == Init /\ [][Next]_<<i>>

RECURSIVE Fact(_)
Fact(n) == IF n <= 1 THEN 1 ELSE n * Fact(n - 1)

\* sum of the first n matrices of a sequence; the accumulator is forced (Len) before recursing so that TLC's
\* lazy evaluation does not nest n levels deep
RECURSIVE MSumAcc(_, _, _, _)
MSumAcc(fs, k, n, acc) ==
  IF k > n THEN acc
  ELSE With(MatAdd(acc, fs[k]), LAMBDA a2 : IF Len(a2) = 0 THEN a2 ELSE MSumAcc(fs, k + 1, n, a2))
MSumTo(fs, n) == MSumAcc(fs, 2, n, fs[1])

\* <<A^0, A^1, ..., A^(n-1)>> built by accumulation (every power computed once)
RECURSIVE PowList(_, _, _)
PowList(A, n, acc) == IF Len(acc) = n THEN acc ELSE PowList(A, n, Append(acc, MatMul(acc[Len(acc)], A)))
Powers(A) == PowList(A, Rows(A), <<Eye(Rows(A))>>)

ExpmP(pw, h) ==
  MSumTo(Vec(Len(pw), LAMBDA k : MatScale(RMul(RPow(h, k - 1), R(1, Fact(k - 1))), pw[k])), Len(pw))
Expm(A, h) == ExpmP(Powers(A), h)

GramianP(pa, pt, BB, h) ==
  With(Len(pa), LAMBDA n :
    MSumTo(Vec(n * n, LAMBDA t :
                 With2((t - 1) \div n, (t - 1) % n, LAMBDA ii, jj :
                    MatScale(RMul(RPow(h, ii + jj + 1), R(1, Fact(ii) * Fact(jj) * (ii + jj + 1))),
                             MatMul(MatMul(pa[ii + 1], BB), pt[jj + 1])))), n * n))
Gramian(A, B, h) == GramianP(Powers(A), Powers(Transpose(A)), Gram(B), h)

Laws(A, BB, E1, E2, E12, G1, G2, G12, An) ==
  [ expm1 |-> E1, gram1 |-> G1, expm2 |-> E2, gram2 |-> G2, expm12 |-> E12, gram12 |-> G12,
    law_nilpotent |-> MEq(An, MZero(Rows(A), Rows(A))),
    law_lyapunov |-> MEq(MatAdd(MatMul(A, G1), MatMul(G1, Transpose(A))), MatSub(MatMul(MatMul(E1, BB), Transpose(E1)), BB)),
    law_semigroup |-> MEq(MatMul(E2, E1), E12),
    law_ck |-> MEq(MatAdd(MatMul(MatMul(E2, G1), Transpose(E2)), G2), G12),
    law_sym |-> IsSymmetric(G1) ]

Eval2(A, BB, pa, pt, h1, h2) ==
  Laws(A, BB, ExpmP(pa, h1), ExpmP(pa, h2), ExpmP(pa, RAdd(h1, h2)),
       GramianP(pa, pt, BB, h1), GramianP(pa, pt, BB, h2), GramianP(pa, pt, BB, RAdd(h1, h2)),
       MatMul(pa[Len(pa)], A))
Eval(inst) == Eval2(inst.A, Gram(inst.B), Powers(inst.A), Powers(Transpose(inst.A)), inst.h1, inst.h2)

CheckAndPrint ==
  With(Eval(Instances[i]), LAMBDA e :
      /\ e.law_nilpotent /\ e.law_lyapunov /\ e.law_semigroup /\ e.law_ck /\ e.law_sym
      /\ PrintT("@@EXP " \o ToJson([i |-> i, nan |-> (MatNaN(e.expm1) \/ MatNaN(e.gram1) \/ MatNaN(e.expm2) \/ MatNaN(e.gram2) \/ MatNaN(e.expm12) \/ MatNaN(e.gram12)),
                                      e |-> [expm1 |-> e.expm1, gram1 |-> e.gram1, expm2 |-> e.expm2, gram2 |-> e.gram2,
                                                    expm12 |-> e.expm12, gram12 |-> e.gram12]])))
=============================================================================
