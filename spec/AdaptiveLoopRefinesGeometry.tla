---------------------- MODULE AdaptiveLoopRefinesGeometry ----------------------
\* Refinement: every behaviour of AdaptiveLoop (Mode = "save_at" or "every_step") is, under the mapping below, a behaviour of
\* LoopGeometry - whose inductive invariant is discharged for all layouts / eps / controllers / attempt counts
\* by Apalache.  Checked by TLC as the temporal property RefinesGeometry on every save_at configuration of C06.
EXTENDS AdaptiveLoop

RlOn == rl # Null
SolKindOf(s) ==
  IF s = Null THEN "none"
  ELSE IF s.kind = KInterp THEN "interp"
  ELSE IF s.kind = KAt THEN "at"
  ELSE "sf"

LG == INSTANCE LoopGeometry WITH
  EveryStep <- (Mode = "every_step"),
  nacc    <- nacc,
  pc      <- IF pc = "inexact" THEN "rloop" ELSE pc,
  t1      <- Ckpts[k],
  sft     <- ts.sf.t,
  ifrt    <- ts.ifr.t,
  dt      <- ts.dt,
  rsft    <- IF RlOn THEN rl.sf.t ELSE 0,
  rdt     <- IF RlOn THEN rl.dt ELSE 0,
  rpropt  <- IF RlOn /\ rl.prop # Null THEN rl.prop.t ELSE 0,
  racc    <- IF RlOn THEN RLe(ROne, rl.acc) ELSE FALSE,
  rused   <- IF RlOn THEN rl.used ELSE 0,
  solkind <- SolKindOf(sol),
  solt    <- IF sol = Null THEN 0 ELSE sol.t,
  sola    <- IF sol = Null THEN 0 ELSE sol.a,
  solb    <- IF sol = Null THEN 0 ELSE sol.b,
  nemit   <- Len(out),
  lastt   <- IF out = <<>> THEN 0 ELSE out[Len(out)].t,
  lastck  <- IF out = <<>> THEN 0 ELSE IF Mode = "every_step" THEN Ckpts[k] ELSE Ckpts[Len(out) + 1]

RefinesGeometry == LG!Spec
\* the invariant Apalache proved inductive, evaluated on the concrete states as well (cheap cross-check of the mapping)
GeometryInvariant == LG!IndInv
=============================================================================
