----------------------------- MODULE GaussTerms -----------------------------
\* L1: the algebra the probabilistic solvers are *supposed* to compute in.
\*
\* Every Gaussian object handled by solvers.py / estimators_and_losses.py is denoted by a term that says
\* which distribution it is, not how it was computed:
\*
\*  N(t, s0, segs)      the marginal of the state at time t given the *information* (s0, segs):
\*                      segs is a sequence of segments [h, tag, obs]: "advance the prior by h with output-scale
\*                      tag `tag`, then condition on the datum obs" (obs = NoObs: none), starting at T0;
\*                      s0 is the scale tag of the initial covariance.  End(segs) >= t; t = End(segs) is a
\*                      filtering/predicted marginal, t < End(segs) a smoothing marginal.
\*  M(src, h, tag)      the transition over h applied to the *mean* of N-term src (the "zero-error" extrapolation
\*                      used by dynamic calibration and by the error estimators)
\*  T(h, tag)           prior transition;     Id  identity conditional
\*  B(a, b, s0, segs, path)  backward conditional p(x_a | x_b, information (s0, segs) up to a), path = the
\*                      transitions [h, tag] between a and b.  By the Markov property data in (a, b] is irrelevant.
\*  L(t, at, damp, kind)     observation model linearised at term `at` at time t
\*  O(j, of, id)        observed marginal of model j under term `of`;  U(j, of, oid)  the pending update
\*  OR(o, f)            an observed marginal with rescaled covariance;  S(...) samples, see MarkovSeq part
\*  Err(why)            result of an application outside the domain of an operation (never equal to an expectation)
\*
\* Scale tags are bags (sorted sequences) of symbols; the unit scale is the empty bag; rescaling multiplies.
\* Histories are kept fused: adjacent segments with equal tags and no datum in between are one segment
\* (Chapman-Kolmogorov), and zero-length datum-free segments vanish.
EXTENDS Integers, Sequences, FiniteSets, TLC

CONSTANT T0        \* initial time (model units)

NoObs == [o |-> 0, lin |-> "none"]
Unit  == <<>>

Err(why) == [k |-> "Err", why |-> why]
IsErr(x) == x.k = "Err"

\* ---- tags ------------------------------------------------------------------
RECURSIVE TagInsert(_, _)
TagInsert(tag, x) ==
  IF Len(tag) = 0 THEN <<x>>
  ELSE IF x <= tag[1] THEN <<x>> \o tag ELSE <<tag[1]>> \o TagInsert(Tail(tag), x)
RECURSIVE TagMul(_, _)
TagMul(a, b) == IF Len(b) = 0 THEN a ELSE TagMul(TagInsert(a, b[1]), Tail(b))

\* ---- histories -------------------------------------------------------------
RECURSIVE SumH(_)
SumH(segs) == IF Len(segs) = 0 THEN 0 ELSE segs[1].h + SumH(Tail(segs))
End(segs) == T0 + SumH(segs)

\* append one segment keeping the history fused
AppendSeg(segs, seg) ==
  IF seg.h = 0 /\ seg.obs = NoObs THEN segs
  ELSE IF Len(segs) > 0 /\ segs[Len(segs)].obs = NoObs /\ segs[Len(segs)].tag = seg.tag
       THEN [segs EXCEPT ![Len(segs)] = [h |-> @.h + seg.h, tag |-> seg.tag, obs |-> seg.obs]]
       ELSE Append(segs, seg)
RECURSIVE AppendAll(_, _)
AppendAll(segs, more) == IF Len(more) = 0 THEN segs ELSE AppendAll(AppendSeg(segs, more[1]), Tail(more))
Fuse(segs) == AppendAll(<<>>, segs)

PathSegs(path) == [q \in 1..Len(path) |-> [h |-> path[q].h, tag |-> path[q].tag, obs |-> NoObs]]
RECURSIVE FusePath(_, _)
FusePath(acc, path) ==
  IF Len(path) = 0 THEN acc
  ELSE IF path[1].h = 0 THEN FusePath(acc, Tail(path))
  ELSE IF Len(acc) > 0 /\ acc[Len(acc)].tag = path[1].tag
       THEN FusePath([acc EXCEPT ![Len(acc)] = [h |-> @.h + path[1].h, tag |-> @.tag]], Tail(path))
       ELSE FusePath(Append(acc, path[1]), Tail(path))

\* the information up to time a <= End(segs): whole segments ending <= a, then the part of the next one (no datum)
RECURSIVE UpTo(_, _, _)
UpTo(segs, from, a) ==
  IF Len(segs) = 0 \/ from >= a THEN <<>>
  ELSE IF from + segs[1].h <= a THEN <<segs[1]>> \o UpTo(Tail(segs), from + segs[1].h, a)
  ELSE << [h |-> a - from, tag |-> segs[1].tag, obs |-> NoObs] >>
\* zero-length leading segments (initial datum) belong to every prefix
RECURSIVE LeadingZero(_)
LeadingZero(segs) == IF Len(segs) > 0 /\ segs[1].h = 0 THEN <<segs[1]>> \o LeadingZero(Tail(segs)) ELSE <<>>
RECURSIVE DropLeadingZero(_)
DropLeadingZero(segs) == IF Len(segs) > 0 /\ segs[1].h = 0 THEN DropLeadingZero(Tail(segs)) ELSE segs
InfoUpTo(segs, a) == Fuse(LeadingZero(segs) \o UpTo(DropLeadingZero(segs), T0, a))

\* forget the data observed after time a (keeps the transitions)
RECURSIVE StripAfter(_, _, _)
StripAfter(segs, from, a) ==
  IF Len(segs) = 0 THEN <<>>
  ELSE LET e == from + segs[1].h
           s == IF e > a THEN [segs[1] EXCEPT !.obs = NoObs] ELSE segs[1]
       IN  <<s>> \o StripAfter(Tail(segs), e, a)
StripObsAfter(segs, a) == Fuse(StripAfter(segs, T0, a))

ScaleSegs(segs, f) == [q \in 1..Len(segs) |-> [segs[q] EXCEPT !.tag = TagMul(@, f)]]
ScalePath(path, f) == [q \in 1..Len(path) |-> [path[q] EXCEPT !.tag = TagMul(@, f)]]

\* ---- constructors ----------------------------------------------------------
N(t, s0, segs)          == [k |-> "N", t |-> t, s0 |-> s0, segs |-> segs]
M(src, h, tag)          == [k |-> "M", src |-> src, h |-> h, tag |-> tag]
T(h, tag)               == [k |-> "T", h |-> h, tag |-> tag]
IdC                     == [k |-> "Id"]
B(a, b, s0, segs, path) == [k |-> "B", a |-> a, b |-> b, s0 |-> s0, segs |-> segs, path |-> path]
L(t, at, damp, kind)    == [k |-> "L", t |-> t, at |-> at, damp |-> damp, kind |-> kind]
O(j, of, id)            == [k |-> "O", j |-> j, of |-> of, id |-> id]
U(j, of, oid)           == [k |-> "U", j |-> j, of |-> of, oid |-> oid]
OR(o, f)                == [k |-> "OR", o |-> o, f |-> f]
\* consumers of a finalised posterior (losses, sampling):
\*  X(j)          observation model of the j-th output time's datum (marginal.to_derivative(i, std_j))
\*  NX(base, ext) marginal `base` additionally conditioned on the external data with indices ext (sorted)
\*  OX / UX       observed marginal / pending update of an external datum
\*  S(of, key)    a sample of term `of` drawn with PRNG key `key`;  CS(c, s) conditional c applied to sample s
XObs(j, idx)            == [k |-> "X", j |-> j, idx |-> idx]
NX(base, ext)           == [k |-> "NX", base |-> base, ext |-> ext]
OX(x, of, id)           == [k |-> "OX", x |-> x, of |-> of, id |-> id]
UX(x, of)               == [k |-> "UX", x |-> x, of |-> of]
SampleOf(of, key)       == [k |-> "S", of |-> of, key |-> key]
CS(c, s)                == [k |-> "CS", c |-> c, s |-> s]
BaseOf(x) == IF x.k = "NX" THEN x.base ELSE x
ExtOf(x)  == IF x.k = "NX" THEN x.ext ELSE <<>>
Init0                   == N(T0, Unit, <<>>)

IsFiltering(x) == x.k = "N" /\ x.t = End(x.segs)
TimeOf(x) == IF x.k = "N" THEN x.t ELSE IF x.k = "M" THEN x.src.t + x.h ELSE -1

\* how observation model j was linearised relative to the prediction x it updates
LinKind(j, x) ==
  IF j.at = x THEN "pred"
  ELSE IF /\ j.at.k = "M" /\ Len(x.segs) > 0
          /\ j.at.src.t + j.at.h = x.t
          /\ j.at.src.s0 = x.s0
          /\ j.at.src.segs = InfoUpTo(x.segs, j.at.src.t)
          /\ j.at.tag = Unit
       THEN "meanonly"
  ELSE "other"

\* does information (s0, segs) extend the backward conditional c, i.e. is it p(. | x_b, data up to a) of the same model
Extends(c, s0, segs) ==
  /\ s0 = c.s0
  /\ End(segs) >= c.b
  /\ StripObsAfter(InfoUpTo(segs, c.b), c.a) = AppendAll(c.segs, PathSegs(c.path))

\* ---- operations (partial: Err outside the domain) ---------------------------
Marg(c, x) ==
  CASE c.k = "T" /\ x.k = "N" ->
         IF IsFiltering(x) THEN N(x.t + c.h, x.s0, AppendSeg(x.segs, [h |-> c.h, tag |-> c.tag, obs |-> NoObs]))
         ELSE Err("marginalise: transition applied to a smoothing marginal")
    [] c.k = "B" /\ x.k = "N" ->
         IF x.t = c.b /\ Extends(c, x.s0, x.segs) THEN [x EXCEPT !.t = c.a]
         ELSE Err("marginalise: backward conditional applied to a marginal it does not belong to")
    [] c.k = "Id" -> x
    [] c.k = "B" /\ x.k = "NX" ->
         IF x.base.k = "N" /\ x.base.t = c.b /\ Extends(c, x.base.s0, x.base.segs) THEN NX([x.base EXCEPT !.t = c.a], x.ext)
         ELSE Err("marginalise: backward conditional applied to a marginal it does not belong to")
    [] c.k = "L" /\ x.k \in {"N", "M"} ->
         IF c.t = TimeOf(x) THEN O(c, x, 0) ELSE Err("marginalise: observation model at the wrong time")
    [] OTHER -> Err("marginalise: undefined")

\* -> <<observed or predicted marginal, reverted conditional>>
Revert(c, x, oid) ==
  CASE c.k = "T" /\ x.k = "N" ->
         IF IsFiltering(x)
         THEN << Marg(c, x), B(x.t, x.t + c.h, x.s0, x.segs, <<[h |-> c.h, tag |-> c.tag]>>) >>
         ELSE << Err("revert: transition applied to a smoothing marginal"), Err("revert") >>
    [] c.k = "L" /\ x.k = "N" ->
         IF IsFiltering(x) /\ c.t = x.t /\ (Len(x.segs) = 0 \/ x.segs[Len(x.segs)].obs = NoObs)
         THEN << O(c, x, oid), U(c, x, oid) >>
         ELSE << Err("revert: observation model applied at the wrong time or twice"), Err("revert") >>
    [] c.k = "X" /\ x.k \in {"N", "NX"} -> << OX(c, x, oid), UX(c, x) >>
    [] c.k = "L" /\ x.k = "M" ->
         IF c.t = TimeOf(x) THEN << O(c, x, oid), U(c, x, oid) >>
         ELSE << Err("revert: observation model at the wrong time"), Err("revert") >>
    [] OTHER -> << Err("revert: undefined"), Err("revert: undefined") >>

\* condition on the (zero) datum
ApplyData(c, isZero) ==
  IF c.k = "UX" THEN NX(BaseOf(c.of), TagInsert(ExtOf(c.of), c.x.j))
  ELSE IF c.k = "U" /\ isZero /\ c.of.k = "M"
  THEN [k |-> "PM", j |-> c.j, of |-> c.of, oid |-> c.oid]      \* the mean-only extrapolation conditioned on the datum
  ELSE IF c.k = "U" /\ isZero
  THEN LET x == c.of
           ob == [o |-> c.oid, lin |-> LinKind(c.j, x)]
       IN IF Len(x.segs) = 0
          THEN N(x.t, x.s0, << [h |-> 0, tag |-> Unit, obs |-> ob] >>)
          ELSE N(x.t, x.s0, [x.segs EXCEPT ![Len(x.segs)].obs = ob])
  ELSE Err("apply: data applied to something that is not a pending update (or non-zero data)")

\* apply a conditional to the mean of a term
ApplyMean(c, x) ==
  IF c.k = "T" /\ x.k = "N" /\ IsFiltering(x) THEN M(x, c.h, c.tag)
  ELSE IF c.k \in {"B", "T", "Id"} /\ x.k = "S" THEN CS(c, x)
  ELSE Err("apply: undefined")

Merge(outer, inner) ==
  CASE outer.k = "Id" -> inner
    [] inner.k = "Id" -> outer
    [] outer.k = "B" /\ inner.k = "B" ->
         IF /\ outer.b = inner.a /\ outer.s0 = inner.s0
            /\ StripObsAfter(inner.segs, outer.a) = AppendAll(outer.segs, PathSegs(outer.path))
         THEN B(outer.a, inner.b, outer.s0, outer.segs, FusePath(<<>>, outer.path \o inner.path))
         ELSE Err("merge: conditionals are not adjacent in time / not of the same model")
    [] OTHER -> Err("merge: undefined")

Rescale(x, f) ==
  CASE x.k = "N"  -> N(x.t, TagMul(x.s0, f), ScaleSegs(x.segs, f))
    [] x.k = "B"  -> B(x.a, x.b, TagMul(x.s0, f), ScaleSegs(x.segs, f), ScalePath(x.path, f))
    [] x.k = "Id" -> x
    [] x.k = "O"  -> OR(x, f)
    [] OTHER -> Err("rescale: undefined")
=============================================================================
