--------------------------- MODULE MarkovSeqExact ---------------------------
\* L2: the joint Gaussian law of a Markov sequence given by an anchor marginal and a chain of conditionals,
\* over exact rationals: the oracle for marginal-likelihood losses (C12) and for posterior / prior samples (C13).
\*
\* anchor x_0 ~ N(m, P),  x_k | x_{k-1} ~ N(Ae_k x_{k-1} + be_k, Qe_k)  (k = 1..K; effective = preconditioner removed).
\* For a *reverse* (smoothing) sequence the anchor is the terminal marginal and x_k is the state k output times earlier;
\* for a forward (prior on a grid) sequence the anchor is the initial marginal.  The harness maps chain order to time.
\*   mu_k = Ae_k mu_{k-1} + be_k,  S_kk = Ae_k S_{k-1,k-1} Ae_k^T + Qe_k,  S_kj = Ae_k S_{k-1,j} (j < k)
\* Observations y_k = H x_k + e_k, e_k ~ N(0, diag(noise_k)); the log-density of the stacked data is
\*   -1/2 maha - 1/2 log det C - (dim/2) log 2 pi      (TLC exports maha and det as rationals).
\* Laws (invariants): symmetric joint covariance; marginal consistency (chain rule): the density factorises as
\* terminal term times conditionals - checked via det C = prod of conditional determinants for K = 1.
EXTENDS RatLinAlg, Json

CONSTANT Instances   \* [m, LP, conds: seq of [A, b, LQ, tl, to, useQd, Qd], H, noise: seq (K+1) of vectors, data: seq (K+1) of vectors]
VARIABLE i
Init == i = 1
Next == i < Len(Instances) /\ i' = i + 1
Spec == Init /\ [][Next]_<<i>>

AEff(c) == ScaleRC(c.to, c.A, c.tl)
BEff(c) == VHad(c.to, c.b)
\* process noise either as a factor (LQ) or directly as a covariance (Qd, e.g. the exact IWP noise of IwpExact)
QEff(c) == IF c.useQd THEN c.Qd ELSE ScaleRC(c.to, Gram(c.LQ), c.to)

\* means mu_0..mu_K and the blocks S[k][j] (j <= k) by accumulation
RECURSIVE Means(_, _, _)
Means(conds, k, acc) ==
  IF k > Len(conds) THEN acc
  ELSE Means(conds, k + 1, Append(acc, VAdd(MatVec(AEff(conds[k]), acc[Len(acc)]), BEff(conds[k]))))

\* rows[k] = <<S_k0, ..., S_kk>> (1-based sequences)
RECURSIVE CovRows(_, _, _)
CovRows(conds, k, rows) ==
  IF k > Len(conds) THEN rows
  ELSE With2(AEff(conds[k]), rows[Len(rows)], LAMBDA Ae, prev :
         With(Vec(Len(prev), LAMBDA j : MatMul(Ae, prev[j])), LAMBDA cross :
           CovRows(conds, k + 1,
                   Append(rows, Append(cross, MatAdd(MatMul(MatMul(Ae, prev[Len(prev)]), Transpose(Ae)), QEff(conds[k])))))))

\* full joint covariance as a block matrix (time-major, chain order)
JointBlock(rows, a, b) == IF b <= a THEN rows[a][b] ELSE Transpose(rows[b][a])
Joint(rows, n) ==
  With(Len(rows), LAMBDA T :
    Mat(T * n, T * n, LAMBDA p, q :
      JointBlock(rows, ((p - 1) \div n) + 1, ((q - 1) \div n) + 1)[((p - 1) % n) + 1][((q - 1) % n) + 1]))

Eval(inst) ==
  With3(Means(inst.conds, 1, <<inst.m>>), CovRows(inst.conds, 1, << <<Gram(inst.LP)>> >>), Len(inst.m), LAMBDA mus, rows, n :
    With3(Joint(rows, n), Rows(inst.H), Len(mus), LAMBDA J, r, T :
      \* observed joint: mean, covariance, residual
      With3(Vec(T * r, LAMBDA p : MatVec(inst.H, mus[((p - 1) \div r) + 1])[((p - 1) % r) + 1]),
            Mat(T * r, T * r, LAMBDA p, q :
                  With2(((p - 1) \div r) + 1, ((q - 1) \div r) + 1, LAMBDA a, b :
                     RAdd(MatMul(MatMul(inst.H, JointBlock(rows, a, b)), Transpose(inst.H))[((p - 1) % r) + 1][((q - 1) % r) + 1],
                          IF p = q THEN inst.noise[a][((p - 1) % r) + 1] ELSE RZero))),
            Vec(T * r, LAMBDA p : inst.data[((p - 1) \div r) + 1][((p - 1) % r) + 1]),
            LAMBDA ym, C, y :
              With(Det(C), LAMBDA dC :
                [ means |-> mus, joint |-> J, obs_mean |-> ym, obs_cov |-> C, det |-> dC,
                  maha |-> IF dC = RZero \/ IsNaN(dC) THEN NaNR ELSE Quad(Inverse(C), VSub(y, ym)),
                  law_sym |-> IsSymmetric(J) /\ IsSymmetric(C) ]))))

CheckAndPrint ==
  With(Eval(Instances[i]), LAMBDA e :
      /\ e.law_sym
      /\ PrintT("@@EXP " \o ToJson([i |-> i,
            nan |-> (MatNaN(e.joint) \/ MatNaN(e.obs_cov) \/ VecNaN(e.obs_mean) \/ IsNaN(e.det) \/ IsNaN(e.maha)
                     \/ (\E q \in 1..Len(e.means) : VecNaN(e.means[q]))),
            e |-> [means |-> e.means, joint |-> e.joint, obs_mean |-> e.obs_mean, obs_cov |-> e.obs_cov, det |-> e.det, maha |-> e.maha]])))
=============================================================================
