------------------------------ MODULE IwpExact ------------------------------
\* L2: exact discretisation of the q-times integrated Wiener process prior
\*   dX_q = sigma * lambda dW,   dX_i = X_{i+1} dt     (coefficients 0..q, derivatives not Taylor-normalised)
\* over a step h:   x(t+h) | x(t) ~ N(A(h) x(t), sigma^2 Q(h))  with
\*   A(h)[i][j] = h^(j-i)/(j-i)!                      (j >= i, else 0)          -- Taylor / Pascal
\*   Q(h)[i][j] = h^(2q+1-i-j) / ((2q+1-i-j) (q-i)! (q-j)!)                      -- Hilbert type
\* (indices i, j = 0..q).  The d-dimensional prior with diagonal base scales lambda is A (x) I_d,
\* Q (x) diag(lambda)^2 in coefficient-major order.
\* Laws checked by TLC on every instance: semigroup property of A, Chapman-Kolmogorov for Q,
\* linearity of the process noise in sigma^2, symmetry, and Q(h) = int_0^h A(s) e_q e_q^T A(s)^T ds entrywise.
EXTENDS RatLinAlg, Json

CONSTANT Instances     \* sequence of [q, h1, h2, sigma, lam, laws]
VARIABLE i
Init == i = 1
Next == i < Len(Instances) /\ i' = i + 1
Spec == Init /\ [][Next]_<<i>>

RECURSIVE Fact(_)
Fact(n) == IF n <= 1 THEN 1 ELSE n * Fact(n - 1)

\* 1-d matrices, 1-based indices a = i+1, b = j+1
A1(q, h) == Mat(q + 1, q + 1, LAMBDA a, b : IF b >= a THEN RMul(RPow(h, b - a), R(1, Fact(b - a))) ELSE RZero)
Q1(q, h) == Mat(q + 1, q + 1, LAMBDA a, b :
              LET e == 2 * q + 1 - (a - 1) - (b - 1)
              IN  RMul(RPow(h, e), R(1, e * Fact(q - (a - 1)) * Fact(q - (b - 1)))))

\* entry (a, b) of int_0^h A(s) e_q e_q^T A(s)^T ds, computed term by term:
\* A(s)[a][q] = s^(q-a)/(q-a)!  =>  integrand s^(2q-a-b)/((q-a)!(q-b)!)
QByIntegration(q, h) == Mat(q + 1, q + 1, LAMBDA a, b :
              LET ea == q - (a - 1)  eb == q - (b - 1)
              IN  RMul(RDiv(RPow(h, ea + eb + 1), RInt(ea + eb + 1)), R(1, Fact(ea) * Fact(eb))))

Laws(inst, Id, L2, Aa, Ab, Aab, Qa, Qb, Qab, Q1a) ==
  [ A_h1 |-> Kron(Aa, Id), Q_h1 |-> Kron(Qa, L2),
    A_h2 |-> Kron(Ab, Id), Q_h2 |-> Kron(Qb, L2),
    A_sum |-> Kron(Aab, Id), Q_sum |-> Kron(Qab, L2),
    law_semigroup |-> MEq(MatMul(Ab, Aa), Aab),
    \* (the triple products leave 32 bits for q >= 5; the harness switches the law off there)
    law_ck |-> (~inst.laws) \/ MEq(MatAdd(MatMul(MatMul(Ab, Qa), Transpose(Ab)), Qb), Qab),
    law_sym |-> IsSymmetric(Qa),
    law_integral |-> MEq(Q1a, QByIntegration(inst.q, inst.h1)),
    law_linear |-> MEq(MatScale(RInt(4), Qa), MatScale(RMul(RMul(RInt(2), inst.sigma), RMul(RInt(2), inst.sigma)), Q1a)) ]

Eval(inst) ==
  With2(RMul(inst.sigma, inst.sigma), Q1(inst.q, inst.h1), LAMBDA s2, Q1a :
    Laws(inst, Eye(Len(inst.lam)), Diag(Vec(Len(inst.lam), LAMBDA a : RMul(inst.lam[a], inst.lam[a]))),
         A1(inst.q, inst.h1), A1(inst.q, inst.h2), A1(inst.q, RAdd(inst.h1, inst.h2)),
         MatScale(s2, Q1a), MatScale(s2, Q1(inst.q, inst.h2)), MatScale(s2, Q1(inst.q, RAdd(inst.h1, inst.h2))), Q1a))

CheckAndPrint ==
  With(Eval(Instances[i]), LAMBDA e :
      /\ e.law_semigroup /\ e.law_ck /\ e.law_sym /\ e.law_integral /\ e.law_linear
      /\ PrintT("@@EXP " \o ToJson([i |-> i, nan |-> (MatNaN(e.A_h1) \/ MatNaN(e.Q_h1) \/ MatNaN(e.A_h2) \/ MatNaN(e.Q_h2) \/ MatNaN(e.A_sum) \/ MatNaN(e.Q_sum)),
                                      e |-> [A_h1 |-> e.A_h1, Q_h1 |-> e.Q_h1, A_h2 |-> e.A_h2, Q_h2 |-> e.Q_h2,
                                                    A_sum |-> e.A_sum, Q_sum |-> e.Q_sum]])))
=============================================================================
