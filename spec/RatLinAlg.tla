----------------------------- MODULE RatLinAlg -----------------------------
\* Exact linear algebra over the rationals of module Rat.
\* A vector is a sequence of rationals, a matrix a sequence of rows (possibly with zero rows:
\* an r x 0 or 0 x c matrix is never needed here).  Everything is defined by the textbook
\* formulas (no pivoting, no factorisations), because the point is to *define* results.
EXTENDS Rat, FiniteSets, TLC

Rows(M) == Len(M)
Cols(M) == IF Len(M) = 0 THEN 0 ELSE Len(M[1])

\* TLC evaluates [x \in S |-> e] lazily and re-evaluates e on every application, which is exponential for
\* nested matrix expressions; TLCEval forces (and caches) the value.  Every constructor goes through these two.
Vec(n, f(_))       == TLCEval([i \in 1..n |-> f(i)])
Mat(r, c, f(_, _)) == TLCEval([i \in 1..r |-> TLCEval([j \in 1..c |-> f(i, j)])])

\* TLC re-evaluates a LET definition at every use, but caches operator *arguments*.  With/With2/With3 bind
\* expensive intermediate values as arguments of a LAMBDA so that they are computed once.
With(v, F(_))              == F(v)
With2(u, v, F(_, _))       == F(u, v)
With3(u, v, w, F(_, _, _)) == F(u, v, w)

RECURSIVE RSumSeq(_)
RSumSeq(s) == IF Len(s) = 0 THEN RZero ELSE RAdd(s[1], RSumSeq(Tail(s)))

Dot(u, v)      == RSumSeq(Vec(Len(u), LAMBDA i : RMul(u[i], v[i])))
VAdd(u, v)     == Vec(Len(u), LAMBDA i : RAdd(u[i], v[i]))
VSub(u, v)     == Vec(Len(u), LAMBDA i : RSub(u[i], v[i]))
VScale(c, u)   == Vec(Len(u), LAMBDA i : RMul(c, u[i]))
VHad(u, v)     == Vec(Len(u), LAMBDA i : RMul(u[i], v[i]))
VZero(n)       == Vec(n, LAMBDA i : RZero)

Transpose(M)   == Mat(Cols(M), Rows(M), LAMBDA j, i : M[i][j])
Col(M, j)      == Vec(Rows(M), LAMBDA i : M[i][j])
MatVec(M, v)   == Vec(Rows(M), LAMBDA i : Dot(M[i], v))
MatMul(A, B)   == With(Transpose(B), LAMBDA Bt : Mat(Rows(A), Cols(B), LAMBDA i, j : Dot(A[i], Bt[j])))
MatAdd(A, B)   == Mat(Rows(A), Cols(A), LAMBDA i, j : RAdd(A[i][j], B[i][j]))
MatSub(A, B)   == Mat(Rows(A), Cols(A), LAMBDA i, j : RSub(A[i][j], B[i][j]))
MatScale(c, A) == Mat(Rows(A), Cols(A), LAMBDA i, j : RMul(c, A[i][j]))
Eye(n)         == Mat(n, n, LAMBDA i, j : IF i = j THEN ROne ELSE RZero)
MZero(r, c)    == Mat(r, c, LAMBDA i, j : RZero)
Diag(v)        == Mat(Len(v), Len(v), LAMBDA i, j : IF i = j THEN v[i] ELSE RZero)
\* D_left * M * D_right for diagonal scalings given as vectors
ScaleRC(l, M, r) == Mat(Rows(M), Cols(M), LAMBDA i, j : RMul(RMul(l[i], M[i][j]), r[j]))
Gram(L)        == MatMul(L, Transpose(L))              \* L L^T

\* block matrix [[A, B], [C, D]] and sub-blocks
Block(A, B, C, D) ==
  Vec(Rows(A) + Rows(C), LAMBDA i : IF i <= Rows(A) THEN A[i] \o B[i] ELSE C[i - Rows(A)] \o D[i - Rows(A)])
SubMat(M, r0, r1, c0, c1) == Mat(r1 - r0 + 1, c1 - c0 + 1, LAMBDA i, j : M[r0 + i - 1][c0 + j - 1])
SubVec(v, i0, i1) == Vec(i1 - i0 + 1, LAMBDA i : v[i0 + i - 1])

\* Kronecker product
Kron(A, B) ==
  LET rb == Rows(B)  cb == Cols(B)
  IN Mat(Rows(A) * rb, Cols(A) * cb, LAMBDA i, j :
        RMul(A[((i - 1) \div rb) + 1][((j - 1) \div cb) + 1], B[((i - 1) % rb) + 1][((j - 1) % cb) + 1]))

\* minor, determinant (Laplace), adjugate inverse
Minor(M, r, c) ==
  Mat(Rows(M) - 1, Cols(M) - 1, LAMBDA i, j : M[IF i < r THEN i ELSE i + 1][IF j < c THEN j ELSE j + 1])
RECURSIVE Det(_)
Det(M) ==
  IF Rows(M) = 1 THEN M[1][1]
  ELSE RSumSeq(Vec(Cols(M), LAMBDA j :
         IF M[1][j] = RZero THEN RZero
         ELSE RMul(IF j % 2 = 1 THEN M[1][j] ELSE RNeg(M[1][j]), Det(Minor(M, 1, j)))))
Cofactor(M, i, j) ==
  LET d == IF Rows(M) = 1 THEN ROne ELSE Det(Minor(M, i, j))
  IN  IF (i + j) % 2 = 0 THEN d ELSE RNeg(d)
Invertible(M) == Det(M) # RZero
Inverse(M) ==
  With(Det(M), LAMBDA d : Mat(Rows(M), Cols(M), LAMBDA i, j : RDiv(Cofactor(M, j, i), d)))

\* "not representable" (see Rat) anywhere in a vector / matrix
VecNaN(v) == \E q \in 1..Len(v) : IsNaN(v[q])
MatNaN(M) == \E p \in 1..Rows(M) : \E q \in 1..Cols(M) : IsNaN(M[p][q])
\* entries are normalised rationals, so structural equality is exact equality; a law is not judged on
\* values that left the representable range
MEq(A, B) == MatNaN(A) \/ MatNaN(B) \/ A = B
VEq(u, v) == VecNaN(u) \/ VecNaN(v) \/ u = v
REqN(a, b) == IsNaN(a) \/ IsNaN(b) \/ a = b
IsSymmetric(M) == MEq(M, Transpose(M))
Trace(M) == RSumSeq(Vec(Rows(M), LAMBDA i : M[i][i]))

\* quadratic form v^T M v
Quad(M, v) == Dot(v, MatVec(M, v))
=============================================================================
