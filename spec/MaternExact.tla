---------------------------- MODULE MaternExact ----------------------------
\* L2: the Matern prior of probdiffeq (ssm_impl_api.prior_matern / prior_matern_diffuse):
\*   the state carries D = len(tcoeffs) + diffuse_derivatives Taylor coefficients per dimension and follows the SDE
\*   whose drift is the companion matrix F of (s + z)^D,  F[D][c] = -binom(D, c-1) z^(D-c+1),  driven by lam dW in
\*   the last coordinate  (z = sqrt(2 nu) / length_scale, nu = D - 1/2).
\* F = N - z I with N nilpotent of index D, hence - exactly -
\*   e^{hF}  = e^{-zh} * sum_{k<D} P_k h^k,                    P_k = N^k / k!
\*   Q(h)    = int_0^h e^{sF} B B^T e^{sF^T} ds = sum_m C_m I_m(h),   C_m = sum_{i+j=m} P_i B B^T P_j^T,
\*   I_m(h)  = int_0^h s^m e^{-2zs} ds   (a scalar: m!/(2z)^(m+1) times the regularised lower incomplete gamma function)
\* TLC computes F, P_k and C_m exactly for rational z and checks the laws that make the decomposition valid
\* (nilpotency of N = F + zI with index exactly D, trace F = -D z, symmetry of C_m); the harness combines the exported
\* rational coefficients with the two scalar transcendental factors and compares with the implementation's transition.
EXTENDS RatLinAlg, Json

CONSTANT Instances     \* sequence of [D, z, lam]
VARIABLE i
Init == i = 1
Next == i < Len(Instances) /\ i' = i + 1
Spec == Init /\ [][Next]_<<i>>

RECURSIVE Fact(_)
Fact(n) == IF n <= 1 THEN 1 ELSE n * Fact(n - 1)
Binom(n, k) == Fact(n) \div (Fact(k) * Fact(n - k))

Drift(D, z) ==
  Mat(D, D, LAMBDA r, c :
        IF r < D THEN (IF c = r + 1 THEN ROne ELSE RZero)
        ELSE RNeg(RMul(R(Binom(D, c - 1), 1), RPow(z, D - c + 1))))

RECURSIVE PowList(_, _, _)
PowList(A, n, acc) == IF Len(acc) = n THEN acc ELSE PowList(A, n, Append(acc, MatMul(acc[Len(acc)], A)))
Powers(A) == PowList(A, Rows(A), <<Eye(Rows(A))>>)

RECURSIVE MSumAcc(_, _, _, _)
MSumAcc(fs, k, n, acc) ==
  IF k > n THEN acc
  ELSE With(MatAdd(acc, fs[k]), LAMBDA a2 : IF Len(a2) = 0 THEN a2 ELSE MSumAcc(fs, k + 1, n, a2))
MSumTo(fs, n) == MSumAcc(fs, 2, n, fs[1])

Noise(D, lam) == Mat(D, D, LAMBDA r, c : IF r = D /\ c = D THEN RMul(lam, lam) ELSE RZero)

\* P_k, k = 0..D-1 (index k+1)
PList(pw) == Vec(Len(pw), LAMBDA k : MatScale(R(1, Fact(k - 1)), pw[k]))
\* C_m, m = 0..2D-2 (index m+1)
CList(P, BB) ==
  With(Len(P), LAMBDA D :
    Vec(2 * D - 1, LAMBDA m1 :
      With2(IF m1 - 1 < D THEN 0 ELSE m1 - D, IF m1 - 1 < D THEN m1 - 1 ELSE D - 1, LAMBDA lo, hi :
        MSumTo(Vec(hi - lo + 1, LAMBDA t :
                 MatMul(MatMul(P[lo + t], BB), Transpose(P[m1 - (lo + t - 1)]))), hi - lo + 1))))

AnyNaN(ms) == \E q \in 1..Len(ms) : MatNaN(ms[q])
AllSym(ms) == \A q \in 1..Len(ms) : IsSymmetric(ms[q])

Eval3(D, z, F, N, pw, P, C) ==
  [ F |-> F, P |-> P, C |-> C,
    law_nilpotent |-> MEq(MatMul(pw[D], N), MZero(D, D)),
    law_index     |-> MatNaN(pw[D]) \/ pw[D] # MZero(D, D),
    law_trace     |-> REqN(Trace(F), RNeg(RMul(R(D, 1), z))),
    law_sym       |-> AllSym(C),
    nan |-> (MatNaN(F) \/ AnyNaN(P) \/ AnyNaN(C)) ]
Eval2(D, z, lam, F, N, pw) == With(PList(pw), LAMBDA P : Eval3(D, z, F, N, pw, P, CList(P, Noise(D, lam))))
Eval1(D, z, lam, F) == With(MatAdd(F, MatScale(z, Eye(D))), LAMBDA N : Eval2(D, z, lam, F, N, Powers(N)))
Eval(inst) == Eval1(inst.D, inst.z, inst.lam, Drift(inst.D, inst.z))

CheckAndPrint ==
  With(Eval(Instances[i]), LAMBDA e :
      /\ e.law_nilpotent /\ e.law_index /\ e.law_trace /\ e.law_sym
      /\ PrintT("@@EXP " \o ToJson([i |-> i, nan |-> e.nan, e |-> [F |-> e.F, P |-> e.P, C |-> e.C]])))
=============================================================================
