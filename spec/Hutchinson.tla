----------------------------- MODULE Hutchinson -----------------------------
\* L2: Jacobian blocks of maps F : (n_in, d) -> (n_out, d) and their Hutchinson-type estimates.
\*
\* A map is an integer polynomial given by coefficient tables
\*   F[o][a](x) = c[o][a] + sum_{p,q} A[o][a][p][q] x[p][q] + sum_{monomials m with (m.o, m.a) = (o, a)} m.k * prod_t x[m.f[t]]
\* (m.f is a sequence of index pairs <<p, q>>, degree 2 or 3) and an integer evaluation point x.
\* Defined exactly:
\*   FVal                     function value                              (n_out, d)
\*   Jac[o][a][p][q]          = dF[o][a] / dx[p][q]                       (n_out, d, n_in, d)   "dense"
\*   DiagBlocks[a][o][p]      = Jac[o][a][p][a]                           (d, n_out, n_in)      "diagonal along d"
\*   TraceD[o][p]             = sum_a Jac[o][a][p][a]                     (n_out, n_in)         "trace along d"
\* Estimates for ONE sign tensor v (what the stochastic handlers compute per probe):
\*   forward mode, v : (n_in, d),  w = J v  (w[o][a] = sum_{p,q} Jac[o][a][p][q] v[p][q]):
\*        trace[o][p] = sum_a v[p][a] w[o][a]        diag[a][o][p] = v[p][a] w[o][a]
\*   reverse mode, v : (n_out, d), w = v^T J (w[p][q] = sum_{o,a} v[o][a] Jac[o][a][p][q]):
\*        trace[o][p] = sum_a w[p][a] v[o][a]        diag[a][o][p] = w[p][a] v[o][a]
\* and a handler call with probes v_1..v_s returns the arithmetic mean of the per-probe estimates.
\* Laws checked by TLC on every instance: the mean over ALL 2^(n_in d) (forward) resp. 2^(n_out d) (reverse) sign
\* tensors equals the exact blocks; the trace is the sum of the diagonal blocks (exact and estimated).
\* Key machine: keys are paths (strings over 0/1) below the root key; split(k) = <<k0, k1>>; a stochastic call
\* (trace / diagonal) returns split(k)[1] (TLA+ is 1-based; jax: split(key)[0]) as new state and draws from
\* split(k)[2]; a dense call draws nothing and returns the state unchanged.  Law: no key is ever used twice.
\* Input contract: accepted iff x and f(x) are arrays of rank 2 with equal trailing dimension.
\*
\* Arithmetic: all data are small integers and the per-probe estimates and their sums over the probes are computed
\* in TLC's native integers (an overflow of the 32 bits raises in TLC and the harness drops the instance; interpreted
\* rational arithmetic on every entry of every probe is ~50x slower).  Rationals of Rat.tla appear where a division
\* happens (the mean) and in everything that is printed.
EXTENDS RatLinAlg, Json

CONSTANT Instances     \* sequence of [nin, nout, d, x, c, A, monos, calls, shapes]
VARIABLE i
Init == i = 1
Next == i < Len(Instances) /\ i' = i + 1
Spec == Init /\ [][Next]_<<i>>

\* ------------------------------------------------------------------ integer tensors
\* rank 3: sequence of matrices; rank 4: sequence of rank-3 tensors
T3(n1, n2, n3, f(_, _, _)) == Vec(n1, LAMBDA a : Mat(n2, n3, LAMBDA b, c : f(a, b, c)))
T4(n1, n2, n3, n4, f(_, _, _, _)) == Vec(n1, LAMBDA a : T3(n2, n3, n4, LAMBDA b, c, e : f(a, b, c, e)))
IMatAdd(S, T) == Mat(Rows(S), Cols(S), LAMBDA a, b : S[a][b] + T[a][b])
IT3Add(S, T)  == Vec(Len(S), LAMBDA a : IMatAdd(S[a], T[a]))
\* sum of s[1..k]
RECURSIVE ISumTo(_, _)
ISumTo(s, k) == IF k = 0 THEN 0 ELSE s[k] + ISumTo(s, k - 1)
ISum(n, f(_)) == ISumTo(Vec(n, f), n)
\* integers -> rationals num/den (den = 1: exact quantities)
RMat(S, den)  == Mat(Rows(S), Cols(S), LAMBDA a, b : R(S[a][b], den))
RT3(T, den)   == Vec(Len(T), LAMBDA a : RMat(T[a], den))
RT4(T, den)   == Vec(Len(T), LAMBDA a : RT3(T[a], den))

NOut(J) == Len(J)
Dim(J)  == Len(J[1])
NIn(J)  == Len(J[1][1])

\* ------------------------------------------------------------------ the polynomial map
RECURSIVE ProdAt(_, _, _, _)
\* product of x[f[t]] over t = k..Len(f), skipping position `skip` (0: skip nothing)
ProdAt(x, f, k, skip) ==
  IF k > Len(f) THEN 1
  ELSE IF k = skip THEN ProdAt(x, f, k + 1, skip)
  ELSE x[f[k][1]][f[k][2]] * ProdAt(x, f, k + 1, skip)
MonoVal(x, f) == ProdAt(x, f, 1, 0)
\* d/dx[p][q] of prod_t x[f[t]]: product rule, one term per occurrence of <<p, q>>
MonoDer(x, f, p, q) == ISum(Len(f), LAMBDA t : IF f[t][1] = p /\ f[t][2] = q THEN ProdAt(x, f, 1, t) ELSE 0)

FVal(inst) ==
  Mat(inst.nout, inst.d, LAMBDA o, a :
      inst.c[o][a]
    + ISum(inst.nin, LAMBDA p : ISum(inst.d, LAMBDA q : inst.A[o][a][p][q] * inst.x[p][q]))
    + ISum(Len(inst.monos), LAMBDA t :
         IF inst.monos[t].o = o /\ inst.monos[t].a = a THEN inst.monos[t].k * MonoVal(inst.x, inst.monos[t].f) ELSE 0))

Jac(inst) ==
  T4(inst.nout, inst.d, inst.nin, inst.d, LAMBDA o, a, p, q :
      inst.A[o][a][p][q]
    + ISum(Len(inst.monos), LAMBDA t :
         IF inst.monos[t].o = o /\ inst.monos[t].a = a THEN inst.monos[t].k * MonoDer(inst.x, inst.monos[t].f, p, q) ELSE 0))

\* ------------------------------------------------------------------ exact blocks
DiagBlocks(J) == T3(Dim(J), NOut(J), NIn(J), LAMBDA a, o, p : J[o][a][p][a])
TraceD(J)     == Mat(NOut(J), NIn(J), LAMBDA o, p : ISum(Dim(J), LAMBDA a : J[o][a][p][a]))

\* ------------------------------------------------------------------ one probe
\* J v : (n_out, d)
JVP(J, v) == Mat(NOut(J), Dim(J), LAMBDA o, a : ISum(NIn(J), LAMBDA p : ISum(Dim(J), LAMBDA q : J[o][a][p][q] * v[p][q])))
\* v^T J : (n_in, d)
VJP(J, v) == Mat(NIn(J), Dim(J), LAMBDA p, q : ISum(NOut(J), LAMBDA o : ISum(Dim(J), LAMBDA a : v[o][a] * J[o][a][p][q])))

FwdEst(J, v, w) ==
  [ tr |-> Mat(NOut(J), NIn(J), LAMBDA o, p : ISum(Dim(J), LAMBDA a : v[p][a] * w[o][a])),
    dg |-> T3(Dim(J), NOut(J), NIn(J), LAMBDA a, o, p : v[p][a] * w[o][a]) ]
RevEst(J, v, w) ==
  [ tr |-> Mat(NOut(J), NIn(J), LAMBDA o, p : ISum(Dim(J), LAMBDA a : w[p][a] * v[o][a])),
    dg |-> T3(Dim(J), NOut(J), NIn(J), LAMBDA a, o, p : w[p][a] * v[o][a]) ]
Est1(mode, J, v) == IF mode = "fwd" THEN FwdEst(J, v, JVP(J, v)) ELSE RevEst(J, v, VJP(J, v))

\* ------------------------------------------------------------------ mean over a list of probes
AddEst(e, f) == [tr |-> IMatAdd(e.tr, f.tr), dg |-> IT3Add(e.dg, f.dg)]
RECURSIVE SumEst(_, _, _, _, _)
\* sum of the per-probe estimates of vs[lo..hi] by halving: recursion depth log2(#probes) (a linear fold is
\* thousands of levels deep for 4096 probes; TLC's Java stack then dominates the run time)
SumEst(mode, J, vs, lo, hi) ==
  IF lo = hi THEN Est1(mode, J, vs[lo])
  ELSE AddEst(SumEst(mode, J, vs, lo, (lo + hi) \div 2), SumEst(mode, J, vs, ((lo + hi) \div 2) + 1, hi))
\* rational mean: the sum of the per-probe estimates divided by the number of probes
MeanEst(mode, J, vs) ==
  With(SumEst(mode, J, vs, 1, Len(vs)), LAMBDA s :
        [tr |-> RMat(s.tr, Len(vs)), dg |-> RT3(s.dg, Len(vs))])

\* all 2^(n d) sign tensors of shape (n, d): bit (r-1) d + (a-1) of k set <=> entry -1
RECURSIVE Pow2(_)
Pow2(k) == IF k = 0 THEN 1 ELSE 2 * Pow2(k - 1)
SignT(k, n, d) == Mat(n, d, LAMBDA r, a : IF (k \div Pow2((r - 1) * d + (a - 1))) % 2 = 1 THEN -1 ELSE 1)
AllSigns(n, d) == Vec(Pow2(n * d), LAMBDA k : SignT(k - 1, n, d))
\* the rows of a probe: n_in for forward, n_out for reverse
ProbeRows(mode, J) == IF mode = "fwd" THEN NIn(J) ELSE NOut(J)
MeanAll(mode, J) == MeanEst(mode, J, AllSigns(ProbeRows(mode, J), Dim(J)))

\* ------------------------------------------------------------------ key machine
Kinds == {"dense", "trace", "diag"}
NoDraw == "-"
Split(k) == <<k \o "0", k \o "1">>
Call(kind, key) ==
  IF kind = "dense" THEN [state |-> key, draw |-> NoDraw]
  ELSE [state |-> Split(key)[1], draw |-> Split(key)[2]]
RECURSIVE RunKeysAcc(_, _, _, _)
RunKeysAcc(key, kinds, k, acc) ==
  IF k > Len(kinds) THEN acc
  ELSE With(Call(kinds[k], key), LAMBDA r : RunKeysAcc(r.state, kinds, k + 1, Append(acc, r)))
RunKeys(key, kinds) == RunKeysAcc(key, kinds, 1, <<>>)
\* a key that was drawn from is never drawn from again, is never handed back as a state, is not the initial
\* state; and a call that draws hands back a state that was never a state before
NoReuse(key0, run) ==
  \A a \in 1..Len(run) :
     run[a].draw # NoDraw =>
        /\ run[a].draw # key0
        /\ run[a].state # key0
        /\ \A b \in 1..Len(run) :
              /\ run[a].draw # run[b].state
              /\ (a # b => run[a].draw # run[b].draw)
              /\ (b < a => run[a].state # run[b].state)
KeyDepth == 5
KeyMachineLaw ==
  i = 1 => \A n \in 0..KeyDepth : \A kinds \in [1..n -> Kinds] : NoReuse("", RunKeys("", kinds))

\* ------------------------------------------------------------------ input contract
\* case = [xa, fa, xs, fs]: x is an array, f(x) is an array, their shapes
Accept(case) == case.xa /\ case.fa /\ Len(case.xs) = 2 /\ Len(case.fs) = 2 /\ case.xs[2] = case.fs[2]

\* ------------------------------------------------------------------ per instance
CallOut(kind, est) == IF kind = "trace" THEN est.tr ELSE est.dg
CallKinds(inst) == Vec(Len(inst.calls), LAMBDA t : inst.calls[t].kind)
EvalCalls(inst, J) ==
  With(RunKeys("", CallKinds(inst)), LAMBDA run :
    Vec(Len(inst.calls), LAMBDA t :
      With(inst.calls[t], LAMBDA c :
        [ kind  |-> c.kind, state |-> run[t].state, draw |-> run[t].draw,
          fwd   |-> IF c.kind = "dense" THEN RZero ELSE CallOut(c.kind, MeanEst("fwd", J, c.vf)),
          rev   |-> IF c.kind = "dense" THEN RZero ELSE CallOut(c.kind, MeanEst("rev", J, c.vr)) ])))

\* dg, tr: exact blocks (integers); fa, ra: means over all sign tensors (rationals)
Laws(inst, J, dg, tr, fa, ra) ==
  [ fx |-> RMat(FVal(inst), 1), dense |-> RT4(J, 1), diag |-> RT3(dg, 1), trace |-> RMat(tr, 1),
    calls |-> EvalCalls(inst, J),
    accept |-> Vec(Len(inst.shapes), LAMBDA t : Accept(inst.shapes[t])),
    nprobes_fwd |-> Pow2(NIn(J) * Dim(J)), nprobes_rev |-> Pow2(NOut(J) * Dim(J)),
    law_fwd_trace |-> fa.tr = RMat(tr, 1),
    law_fwd_diag  |-> fa.dg = RT3(dg, 1),
    law_rev_trace |-> ra.tr = RMat(tr, 1),
    law_rev_diag  |-> ra.dg = RT3(dg, 1),
    law_trace_sum |-> \A o \in 1..NOut(J) : \A p \in 1..NIn(J) :
                         /\ tr[o][p] = ISum(Dim(J), LAMBDA a : dg[a][o][p])
                         /\ fa.tr[o][p] = RSumSeq(Vec(Dim(J), LAMBDA a : fa.dg[a][o][p]))
                         /\ ra.tr[o][p] = RSumSeq(Vec(Dim(J), LAMBDA a : ra.dg[a][o][p])),
    law_keys      |-> NoReuse("", RunKeys("", CallKinds(inst))) ]

Eval(inst) ==
  With(Jac(inst), LAMBDA J :
    Laws(inst, J, DiagBlocks(J), TraceD(J), MeanAll("fwd", J), MeanAll("rev", J)))

\* (nan: R(n, den) with den > 0 is never NaNR, and native integer overflow raises; nothing to drop here)
CheckAndPrint ==
  With(Eval(Instances[i]), LAMBDA e :
      /\ e.law_fwd_trace /\ e.law_fwd_diag /\ e.law_rev_trace /\ e.law_rev_diag /\ e.law_trace_sum /\ e.law_keys
      /\ PrintT("@@EXP " \o ToJson([i |-> i, nan |-> FALSE,
                                      e |-> [fx |-> e.fx, dense |-> e.dense, diag |-> e.diag, trace |-> e.trace,
                                             calls |-> e.calls, accept |-> e.accept,
                                             nprobes_fwd |-> e.nprobes_fwd, nprobes_rev |-> e.nprobes_rev]])))
=============================================================================
